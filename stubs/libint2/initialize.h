// stub: xtp is not built in this sandbox; only the two entry points are needed to parse
#pragma once
namespace libint2 { inline void initialize() {} inline void finalize() {} }
