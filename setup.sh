#!/bin/bash
# builds the libTooling fact exporter; offline, from files on disk only
set -e
cd "$(dirname "$0")"
mkdir -p bin evidence evidence/replay
if [ ! -x bin/vsa-export ] || [ tools/vsa-export.cc -nt bin/vsa-export ]; then
  clang++ $(llvm-config-14 --cxxflags) -O1 -fno-rtti tools/vsa-export.cc -o bin/vsa-export \
    /usr/lib/llvm-14/lib/libclang-cpp.so.14 /usr/lib/llvm-14/lib/libLLVM-14.so
fi
echo "setup ok"
