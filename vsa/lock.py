"""LOCK: counter/typestate dataflow over the clang CFG with predicate splitting.

State: dict counter-name -> int | 'T' (unknown).  An event classifier maps CFG element nodes to
('inc', name) / ('dec', name) / None.  Edges whose terminator condition is decided by `assume` are pruned
(predicate splitting: one run per truth value of a symbolic boolean such as SynchronizeThreads())."""
from .cfg import CFG
from .facts import unwrap
from .front import AnalysisBroken

TOP = "T"


class CounterFlow:
    def __init__(self, func, classify, assume=None, cut_back_edges=False, init=None):
        self.f = func
        self.cfg = CFG(func)
        self.classify = classify
        self.assume = assume or (lambda cond: None)
        self.cut = cut_back_edges
        self.init = dict(init or {})
        self.before = {}          # node id -> state before the node (joined)
        self.problems = []        # (node, text)
        self.back_states = []     # (src block, state) at cut back edges
        self.exit_states = []     # (block, state) at normal exits
        self.throw_states = []

    def join(self, a, b):
        out = {}
        for k in set(a) | set(b):
            va, vb = a.get(k, 0), b.get(k, 0)
            out[k] = va if va == vb else TOP
        return out

    def apply(self, st, ev, node, record):
        kind, name = ev
        cur = st.get(name, 0)
        st2 = dict(st)
        if kind == "inc":
            st2[name] = TOP if cur == TOP else cur + 1
        elif kind == "dec":
            st2[name] = TOP if cur == TOP else cur - 1
        return st2

    def transfer(self, st, e, b):
        if not isinstance(e, int):
            return st
        n = self.f.nodes.get(e)
        if n is None:
            return st
        if self._record:
            old = self.before.get(e)
            self.before[e] = dict(st) if old is None else self.join(old, st)
        ev = self.classify(n)
        if ev is None:
            return st
        evs = ev if isinstance(ev, list) else [ev]
        for x in evs:
            st = self.apply(st, x, n, self._record)
        return st

    def edge(self, st, b, si, s):
        t = self.cfg.term(b)
        if t and t.get("cond") is not None and len(self.cfg.succs[b]) == 2:
            cond = self.f.nodes.get(t["cond"])
            v = self.truth(cond)
            if v is not None:
                if (si == 0) != v:
                    return None
        if self.cut and s in self._heads and self._is_back(b, s):
            if self._record:
                self.back_states.append((b, st))
            return None
        return st

    def truth(self, cond):
        cond = unwrap(cond)
        if cond is None:
            return None
        if cond.get("k") == "unop" and cond["op"] == "!":
            v = self.truth(cond["sub"])
            return None if v is None else (not v)
        return self.assume(cond)

    def _is_back(self, b, s):
        # s dominates b  => back edge
        return self.cfg.dominates_block(s, b)

    def run(self):
        self._heads = self.cfg.back_edge_heads()
        self._record = False
        IN, OUT = self.cfg.forward(self.init, self.transfer, self.join, self.edge)
        # recording pass from the fixpoint
        self._record = True
        self.before = {}
        self.reached_blocks = set()
        for b in self.cfg.rpo():
            if b not in IN:
                continue
            self.reached_blocks.add(b)
            st = IN[b]
            for e in self.cfg.elems[b]:
                st = self.transfer(st, e, b)
            for si, s in enumerate(self.cfg.succs[b]):
                if s is None:
                    continue
                es = self.edge(st, b, si, s)
                if es is None:
                    continue
                if s == self.cfg.exit:
                    (self.throw_states if self.cfg.is_throw_block(b) else self.exit_states).append((b, st))
        return self

    def state_before(self, node):
        return self.before.get(unwrap(node)["id"])

    def reached(self, node):
        return unwrap(node)["id"] in self.before

    def exit_line(self, b):
        n = self.cfg.last_node(b)
        t = self.cfg.term(b)
        return (n or {}).get("line") or (t or {}).get("line")
