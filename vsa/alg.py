"""ALG: def-use folding of a function body into sympy expressions (value numbering with ring canonicalisation).

Fold walks the *structured* body once.  Straight-line code is folded through unique reaching definitions;
at an `if` both arms are folded in copies of the environment and variables that differ afterwards become
`ite` terms; loops are folded once with loop-carried variables as atoms and the `acc += term` idiom becomes
acc0 + SUM_loop(term).  No path enumeration, no solver: equality of canonical forms decides identities.
"""
import re
import sympy as sp
from sympy import Rational, Symbol, Function, Matrix, sqrt
from fractions import Fraction
from .facts import unwrap, show, lit_value, walk
from .front import AnalysisBroken

_sym_cache = {}


def S(name, **kw):
    kw.setdefault("real", True)
    key = (name, tuple(sorted(kw.items())))
    if key not in _sym_cache:
        _sym_cache[key] = Symbol(name, **kw)
    return _sym_cache[key]


def F(name):
    return Function(name, real=True)


VEC3_RX = re.compile(r"Eigen::(Matrix|Array)<double, 3, 1")
MAT3_RX = re.compile(r"Eigen::Matrix<double, 3, 3")


def is_vec3(t):
    return bool(t) and bool(VEC3_RX.search(t)) and "vector<" not in t


def is_mat3(t):
    return bool(t) and bool(MAT3_RX.search(t)) and "vector<" not in t


def vec_atoms(name):
    return Matrix([S("%s.x" % name), S("%s.y" % name), S("%s.z" % name)])


def mat_atoms(name):
    return Matrix(3, 3, lambda i, j: S("%s(%d,%d)" % (name, i, j)))


def rat(n):
    """exact rational of a literal node"""
    v = lit_value(n)
    if v is None:
        raise AnalysisBroken("not a literal: " + show(n))
    return Rational(v.numerator, v.denominator)


ALG_RANGES = {}        # lid of an all_of/any_of/none_of term -> the folded range it runs over
ENUM_SYMS = set()        # symbols that stand for enumerators: two different ones are known to be unequal
ENUM_VALUE = {}          # their integer values (for comparisons of an enumerator with an integer)


INT_RX = re.compile(r"^(const )?(unsigned |signed )?(long long|long|int|short|char|votca::Index|std::size_t|size_t|unsigned)( int)?$")


class idiv(Function):
    """C++ integer quotient (truncation toward zero); evaluates on integers, stays symbolic otherwise"""
    is_real = True

    @classmethod
    def eval(cls, a, b):
        if getattr(a, "is_Integer", False) and getattr(b, "is_Integer", False) and b != 0:
            q = abs(int(a)) // abs(int(b))
            return sp.Integer(q if (int(a) >= 0) == (int(b) > 0) else -q)
        if b == 1:
            return a


class imod(Function):
    """C++ integer remainder (sign of the dividend)"""
    is_real = True

    @classmethod
    def eval(cls, a, b):
        if getattr(a, "is_Integer", False) and getattr(b, "is_Integer", False) and b != 0:
            r_ = abs(int(a)) % abs(int(b))
            return sp.Integer(r_ if int(a) >= 0 else -r_)


class Terminated(Exception):
    pass


class LoopBreak(Terminated):
    pass


class LoopContinue(LoopBreak):
    """`continue`: the rest of the loop body is skipped, but what the iteration did so far persists"""
    pass


class Env(dict):
    def copy(self):
        e = Env(self)
        return e


class Fold:
    """
    hooks:
      call(fold, node, env) -> value or NotImplemented     (rule-specific interpretation of a call)
      atom(fold, node, env) -> value or NotImplemented     (rule-specific atoms for members / refs)
    results:
      returns: list of (value, guards)   throws: list of guards
      events:  list of dict(kind='call'|'store', callee/target, obj, args, guards, node)
    """

    def __init__(self, func, call=None, atom=None, record_calls=None, inline=None, opaque_types=None, snap=None, mutators=None):
        self.mutators = mutators              # regex of member functions that change their (local) object: the object gets a new version
        self.opaque_types = opaque_types      # regex: locals of these types stay named atoms (not folded)
        self.f = func
        self.call_hook = call
        self.atom_hook = atom
        self.record_calls = record_calls      # regex of callees whose calls are recorded as events
        # inline: None/"internal" = callees with internal linkage (static / anonymous namespace) defined in the analysed
        #         units and local lambdas are folded into the caller (depth <= 3); False = nothing; callable(qname, Func) -> bool
        self.inline = "internal" if inline is None else inline
        self.exits = []                       # (kind, loop mark, guards): path conditions under which control already left
        self.snap = snap                      # regex: stores whose target matches get a snapshot of the environment ('env')
        self.pending = []                     # (loop mark, guards, env) of `continue`s awaiting the merge at the end of the loop body
        self.loop_marks = []
        self.return_envs = []
        self.inlined = []
        self.returns = []
        self.throws = []
        self.events = []
        self.guards = []
        self.loop_id = 0
        self.depth = 0

    # ------------------------------------------------------------------ values
    def default_of(self, key, env):
        """value a field has on a path that did not store to it: its atom (None for keys that are not fields stored through a member expression)"""
        n = getattr(self, "field_nodes", {}).get(key) if isinstance(key, tuple) else None
        if n is None and isinstance(key, int):
            # a parameter assigned on one branch only (e.g. std::swap(a, b) under an if) keeps its incoming value on the other
            fn_ = self.f
            pr = [p_ for p_ in fn_.j.get("params", []) if p_.get("decl") == key]
            if pr and key not in getattr(self, "transparent", ()):
                n = {"k": "ref", "dk": "param", "decl": key, "name": pr[0]["name"], "type": pr[0].get("type") or "", "id": -1}
                if self.opaque_types and re.search(self.opaque_types, n["type"]):
                    return S(n["name"])
                return self.atom_for(n, env)
        if n is None:
            return None
        if self.opaque_types and re.search(self.opaque_types, n.get("type") or ""):
            return S(show(n))
        return self.atom_for(n, env)

    def atom_for(self, n, env):
        if self.atom_hook:
            v = self.atom_hook(self, n, env)
            if v is not NotImplemented:
                return v
        t = n.get("type") or ""
        name = show(n)
        if is_vec3(t):
            return vec_atoms(name)
        if is_mat3(t):
            return mat_atoms(name)
        return S(name)

    def ev(self, n, env):
        n = unwrap(n)
        if n is None:
            return S("<null>")
        k = n.get("k")
        m = getattr(self, "ev_" + k, None)
        if m is None:
            return S("<%s@%s>" % (k, n.get("id")))
        return m(n, env)

    def ev_int(self, n, env):
        return sp.Integer(int(n["v"]))

    def ev_float(self, n, env):
        return rat(n)

    def ev_bool(self, n, env):
        return sp.true if n["v"] else sp.false

    def ev_str(self, n, env):
        return S('"%s"' % n["v"])

    def ev_char(self, n, env):
        return sp.Integer(n["v"])

    def ev_null(self, n, env):
        return S("nullptr")

    def ev_this(self, n, env):
        return S("this")

    def ev_ref(self, n, env):
        dk = n.get("dk")
        if dk in ("local", "param", "staticlocal", "binding"):
            if self.opaque_types and re.search(self.opaque_types, n.get("type") or ""):
                # opaque values stay named atoms - except parameters bound by an inlined call and reference locals, which
                # are aliases of what they were bound to
                if n.get("decl") in getattr(self, "transparent", ()) and n.get("decl") in env:
                    return env[n["decl"]]
                return S(n["name"])
            if n.get("decl") in env:
                return env[n["decl"]]
            return self.atom_for(n, env)
        if dk == "enumconst":
            q, t = n["qname"], (n.get("type") or "").replace("const ", "").strip()
            if t and "::" in q and q.rsplit("::", 1)[0] != t and t.rsplit("::", 1)[0] == q.rsplit("::", 1)[0] and t.split("::")[-1] not in q:
                q = t + "::" + q.rsplit("::", 1)[1]      # scoped enumerator: the exporter's qualified name omits the enum's own name
            v = S(q)
            ENUM_SYMS.add(v)
            if isinstance(n.get("value"), int):
                ENUM_VALUE[v] = n["value"]
            return v
        if dk == "global":
            if self.atom_hook:
                v = self.atom_hook(self, n, env)
                if v is not NotImplemented:
                    return v
            return S(n["qname"].replace("votca::tools::", "").replace("votca::csg::", ""))
        return S(n.get("qname") or n.get("name") or "?")

    def ev_member(self, n, env):
        if n.get("fname") in ("first", "second") and n.get("base") is not None and unwrap(n["base"]).get("k") != "this":
            bv = self.ev(n["base"], env)
            if str(getattr(bv, "func", "")) in ("list", "ctor") and len(bv.args) == 2:
                return bv.args[0 if n["fname"] == "first" else 1]       # std::pair built from {a, b}
            if isinstance(bv, tuple) and len(bv) == 3 and bv[0] == "pair":
                return bv[1 if n["fname"] == "first" else 2]
        if self.opaque_types and re.search(self.opaque_types, n.get("type") or ""):
            return S(show(n))
        key = ("field", show(n))
        if key in env:
            return env[key]
        b = unwrap(n["base"]) if n.get("base") is not None else None
        if b is not None and b.get("k") == "ref" and b.get("dk") in ("local",) and b.get("decl") in env:
            from sympy.core.function import AppliedUndef
            bv = env[b["decl"]]
            if isinstance(bv, AppliedUndef) and not is_vec3(n.get("type") or "") and not is_mat3(n.get("type") or ""):
                return F("." + (n.get("fname") or "?"))(bv)      # field of an object that a call returned: named after where the object came from
        return self.atom_for(n, env)

    def ev_cast(self, n, env):
        v = self.ev(n["sub"], env)
        if n.get("ck") == "FloatingToIntegral":
            return F("toint")(v) if not isinstance(v, Matrix) else v
        return v

    def ev_unop(self, n, env):
        op = n["op"]
        if op in ("++", "--"):
            sub = unwrap(n["sub"])
            old = self.ev(sub, env)
            new = old + (1 if op == "++" else -1)
            self.store(sub, new, env, n)
            return old if n.get("postfix") else new
        v = self.ev(n["sub"], env)
        if op == "-":
            return -v
        if op == "+":
            return v
        if op == "!":
            return ("!", v)
        if op == "*":
            if isinstance(v, tuple) and v and v[0] == "&":
                return v[1]
            return F("deref")(v) if not isinstance(v, (Matrix, tuple)) else v
        if op == "&":
            return ("&", v)
        return F("unop" + op)(v)

    def arith(self, op, a, b):
        try:
            if op == "+":
                return a + b
            if op == "-":
                return a - b
            if op == "*":
                if isinstance(a, Matrix) and isinstance(b, Matrix) and a.shape == (3, 1) and b.shape == (3, 1):
                    raise AnalysisBroken("vector*vector product")
                return a * b
            if op == "/":
                if isinstance(b, Matrix):
                    raise AnalysisBroken("division by matrix")
                return a / b
            if op == "%":
                return F("mod")(a, b)
        except TypeError:
            pass
        return F("op" + {"+": "add", "-": "sub", "*": "mul", "/": "div", "%": "mod"}.get(op, op))(
            self.scalarize(a), self.scalarize(b))

    def scalarize(self, v):
        if v is sp.true or v is sp.false:
            return S(str(v))
        if isinstance(v, Matrix):
            return S("mat{" + ",".join(str(x) for x in v) + "}")
        if isinstance(v, tuple):
            return S(str(v))
        return v

    def ev_binop(self, n, env):
        op = n["op"]
        if op in ("&&", "||"):
            # short circuit: whatever the right operand does (calls, stores recorded as events) happens only when the left one lets it be evaluated
            l_ = self.ev(n["lhs"], env)
            if l_ is sp.true or l_ is sp.false or isinstance(l_, bool):
                r_ = self.ev(n["rhs"], env)
                return (op, l_, r_)
            self.guards.append((l_, op == "&&", n))
            try:
                r_ = self.ev(n["rhs"], env)
            finally:
                self.guards.pop()
            return (op, l_, r_)
        a, b = self.ev(n["lhs"], env), self.ev(n["rhs"], env)
        if op in ("<", "<=", ">", ">=", "==", "!="):
            return self.compare(op, a, b)
        if op == ",":
            return b
        if op in ("/", "%") and INT_RX.match((n.get("type") or "").strip()) and not isinstance(a, (Matrix, tuple)) and not isinstance(b, (Matrix, tuple)):
            return (idiv if op == "/" else imod)(a, b)       # C++ integer division truncates toward zero
        return self.arith(op, a, b)

    def compare(self, op, a, b):
        if op in ("==", "!=") and a in ENUM_SYMS and b in ENUM_SYMS:
            return sp.true if ((a == b) == (op == "==")) else sp.false
        if a in ENUM_VALUE and getattr(b, "is_Integer", False):
            a = sp.Integer(ENUM_VALUE[a])
        elif b in ENUM_VALUE and getattr(a, "is_Integer", False):
            b = sp.Integer(ENUM_VALUE[b])
        if getattr(a, "is_number", False) and getattr(b, "is_number", False) and not isinstance(a, (Matrix, tuple)) and not isinstance(b, (Matrix, tuple)):
            r = {"<": a < b, "<=": a <= b, ">": a > b, ">=": a >= b, "==": sp.Eq(a, b), "!=": sp.Ne(a, b)}[op]
            if r in (sp.true, sp.false, True, False):
                return sp.true if r in (sp.true, True) else sp.false
        return (op, a, b)

    def ev_assign(self, n, env):
        op = n["op"]
        rhs = self.ev(n["rhs"], env)
        lhs = unwrap(n["lhs"])
        if op != "=":
            cur = self.ev(lhs, env)
            rhs = self.arith(op[:-1], cur, rhs)
        self.store(lhs, rhs, env, n)
        return rhs

    def ev_cond(self, n, env):
        c = self.ev(n["cond"], env)
        if c is sp.true:
            return self.ev(n["then"], env)
        if c is sp.false:
            return self.ev(n["else"], env)
        a, b = self.ev(n["then"], env), self.ev(n["else"], env)
        return self.ite(c, a, b)

    @staticmethod
    def is_condval(v):
        return v is sp.true or v is sp.false or (isinstance(v, tuple) and len(v) >= 2 and v[0] in
                                                 ("<", "<=", ">", ">=", "==", "!=", "&&", "||", "!", "ite"))

    def ite(self, c, a, b):
        while isinstance(c, tuple) and len(c) == 2 and c[0] == "!":
            c, a, b = c[1], b, a                 # ite(!x, a, b) == ite(x, b, a): one canonical polarity
        if (isinstance(a, tuple) and a and a[0] == "cat") or (isinstance(b, tuple) and b and b[0] == "cat"):
            return a if a == b else ("ite", c, a, b)
        if isinstance(a, tuple) and isinstance(b, tuple) and len(a) == 3 and len(b) == 3 and a[0] == "pair" and b[0] == "pair":
            return ("pair", self.ite(c, a[1], b[1]), self.ite(c, a[2], b[2]))
        if (self.is_condval(a) or self.is_condval(b)) and not isinstance(a, Matrix) and not isinstance(b, Matrix):
            if a == b:
                return a
            return ("ite", c, a, b)           # boolean-valued merge stays structured (decidable by cases)
        if isinstance(a, Matrix) and isinstance(b, Matrix) and a.shape == b.shape:
            return Matrix(a.shape[0], a.shape[1], lambda i, j: self.ite(c, a[i, j], b[i, j]))
        try:
            if not isinstance(a, tuple) and not isinstance(b, tuple) and not isinstance(a, Matrix) and not isinstance(b, Matrix):
                if a == b or sp.expand(a - b) == 0:
                    return a
            self.conds = getattr(self, "conds", {})
            cs = self.cond_str(c)
            self.conds[cs] = c
            return F("ite")(S(cs), self.scalarize(a), self.scalarize(b))
        except TypeError:
            return S("ite(%s,%s,%s)" % (self.cond_str(c), a, b))

    def cond_str(self, c):
        if isinstance(c, tuple):
            if c and c[0] == "switch" and len(c) == 3:
                return "switch(%s) in %s" % (self.cond_str(c[1]), list(c[2]))
            if c and c[0] in ("loop", "each") and len(c) == 3:
                return "(%s %s %s)" % (c[1], c[0], self.cond_str(c[2]) if c[2] is not None else None)
            if len(c) == 1:
                return str(c[0])
            if len(c) == 4 and c[0] == "ite":
                return "ite(%s, %s, %s)" % (self.cond_str(c[1]), self.cond_str(c[2]), self.cond_str(c[3]))
            if len(c) == 2:
                return "%s(%s)" % (c[0], self.cond_str(c[1]))
            return "(%s %s %s)" % (self.cond_str(c[1]), c[0], self.cond_str(c[2]))
        if isinstance(c, Matrix):
            return str(list(c))
        return str(c)

    def ev_subscript(self, n, env):
        b, i = self.ev(n["base"], env), self.ev(n["index"], env)
        return self.index(b, [i], n)

    def index(self, b, idx, n=None):
        if isinstance(b, Matrix) and all(getattr(i, "is_Integer", False) for i in idx):
            ii = [int(i) for i in idx]
            if len(ii) == 1:
                if (b.shape[1] == 1 or b.shape[0] == 1) and 0 <= ii[0] < len(b):
                    return b[ii[0]]
            elif len(ii) == 2 and 0 <= ii[0] < b.shape[0] and 0 <= ii[1] < b.shape[1]:
                return b[ii[0], ii[1]]
        return F("at")(self.scalarize(b), *[self.scalarize(i) for i in idx])

    def ev_construct(self, n, env):
        t = n.get("type") or ""
        args = [self.ev(a, env) for a in n["args"]]
        if is_vec3(t):
            if len(args) == 3 and not any(isinstance(a, (Matrix, tuple)) for a in args):
                return Matrix(args)
            if len(args) >= 1 and isinstance(args[0], Matrix) and args[0].shape == (3, 1):
                return args[0]          # conversion from an Eigen expression (extra args are enable_if defaults)
            if len(args) == 0:
                return vec_atoms("uninit@%s" % n["id"])
        mfix = re.match(r"^(const )?Eigen::Matrix<(double|float|long|int), (\d+), (\d+)", t)
        if mfix and 1 in (int(mfix.group(3)), int(mfix.group(4))) and len(args) == int(mfix.group(3)) * int(mfix.group(4)) and len(args) in (2, 4, 5, 6) \
                and not any(isinstance(a, (Matrix, tuple)) for a in args):
            return Matrix(int(mfix.group(3)), int(mfix.group(4)), args)      # Vector4d(a, b, c, d) and the like: coefficient-wise construction
        if is_mat3(t) and len(args) == 0:
            return mat_atoms("uninit@%s" % n["id"])
        if is_mat3(t) and len(args) >= 1 and isinstance(args[0], Matrix) and args[0].shape == (3, 3):
            return args[0]
        if len(args) == 1:
            return args[0]
        if len(args) == 0:
            return S("%s()@%s" % (t[:30], n["id"]))
        if len(args) == 2 and re.match(r"^(const )?std::pair<", t):
            return ("pair", args[0], args[1])
        return F("ctor")(*[self.scalarize(a) for a in args])

    def ev_initlist(self, n, env):
        args = [self.ev(a, env) for a in n["args"]]
        if is_vec3(n.get("type")) and len(args) == 3:
            return Matrix(args)
        if len(args) == 2 and re.match(r"^(const )?std::pair<", (n.get("type") or "")):
            return ("pair", args[0], args[1])
        return F("list")(*[self.scalarize(a) for a in args])

    def ev_stdinitlist(self, n, env):
        return self.ev(n["sub"], env)

    def ev_throw(self, n, env):
        self.throws.append(list(self.guards))
        self.event({"kind": "throw", "node": n}, env)
        self.exits.append(("throw", None, list(self.guards)))
        raise Terminated()

    def left(self):
        """path conditions (guard lists) under which control has already left the current iteration / function"""
        return [g for _k, _m, g in self.exits]

    def event(self, e, env=None):
        e["guards"] = list(self.guards)
        e["not"] = self.left()
        e["left_kinds"] = [k for k, _m, _g in self.exits]
        if env is not None and self.snap and re.search(self.snap, e.get("target") or e.get("callee") or ""):
            e["env"] = env.copy()
        self.events.append(e)

    def ev_lambda(self, n, env):
        self.lambdas = getattr(self, "lambdas", {})
        self.lambdas["lambda@%s" % n["id"]] = n
        # by-value captures keep the value the variable has NOW (the caller may change the variable before the lambda runs)
        self.lambda_snap = getattr(self, "lambda_snap", {})
        self.lambda_snap["lambda@%s" % n["id"]] = {c["decl"]: env.get(c["decl"]) for c in (n.get("captures") or []) if not c.get("by_ref") and env.get(c["decl"]) is not None}
        return S("lambda@%s" % n["id"])

    def ev_sizeof(self, n, env):
        return S("sizeof@%s" % n["id"])

    def ev_new(self, n, env):
        return S("new@%s" % n["id"])

    def ev_delete(self, n, env):
        return S("delete")

    def ev_other(self, n, env):
        return S("<other %s@%s>" % (n.get("class"), n["id"]))

    # ------------------------------------------------------------------ calls
    def ev_call(self, n, env):
        return self.do_call(n, env)

    ev_mcall = ev_call
    ev_opcall = ev_call

    def do_call(self, n, env):
        if self.call_hook:
            v = self.call_hook(self, n, env)
            if v is not NotImplemented:
                return v
        callee = n.get("callee") or ""
        k = n["k"]
        tgt = self.inline_target(n, env)
        if tgt is not None:
            return self.inline_call(n, tgt, env)
        args = [self.ev(a, env) for a in n.get("args", [])]
        obj = self.ev(n["obj"], env) if n.get("obj") is not None else None
        v = self.builtin(n, callee, k, obj, args, env)
        if self.record_calls and re.search(self.record_calls, callee):
            self.event({"kind": "call", "callee": callee, "obj": obj, "args": args, "node": n, "value": v}, env)
        if self.mutators and k == "mcall" and n.get("obj") is not None and re.search(self.mutators, callee):
            on = unwrap(n["obj"])
            if on.get("k") == "ref" and on.get("dk") in ("local", "param") and not isinstance(obj, Matrix):
                try:
                    env[on["decl"]] = F("mut_" + callee.split("::")[-1])(self.scalarize(obj), *[self.scalarize(a) for a in args])
                except Exception:
                    env[on["decl"]] = F("mut_" + callee.split("::")[-1])(self.scalarize(obj), S("arg@%s" % n["id"]))
        return v

    # ------------------------------------------------------------------ inlining of local helpers
    def inline_target(self, n, env):
        """the Func (or lambda node) whose body replaces this call, or None"""
        if self.inline is False or self.depth >= 3:
            return None
        k = n["k"]
        if k == "opcall" and n.get("op") == "()" and n.get("args"):
            a0 = unwrap(n["args"][0])
            while a0.get("k") == "cast":
                a0 = unwrap(a0["sub"])
            v = env.get(a0.get("decl")) if a0.get("k") == "ref" else None
            lam = getattr(self, "lambdas", {}).get(str(v)) if v is not None else None
            if lam is not None and len(lam.get("params", [])) == len(n["args"]) - 1 and lam.get("body") is not None:
                return ("lambda", lam)
            return None
        if k not in ("call", "mcall"):
            return None
        if k == "mcall" and n.get("obj") is not None and unwrap(n["obj"]).get("k") != "this":
            return None
        root = getattr(self, "root", None) or self.f
        facts = getattr(root, "facts", None)
        if facts is None:
            return None
        q = n.get("callee") or ""
        cands = [g for g in facts.find(q) if g.j.get("body") and g.j.get("template") != "pattern" and len(g.j.get("params", [])) == len(n.get("args", []))]
        if callable(self.inline):
            cands = [g for g in cands if self.inline(q, g)]
        else:
            cands = [g for g in cands if g.j.get("internal") and (g.file == root.file or g.unit == root.unit)]
        if len(cands) > 1 and n.get("callee_targs"):
            # several instantiations of one template: the one named by the call's template arguments
            ct = re.sub(r"\s+", "", n["callee_targs"])
            pick = [g for g in cands if re.sub(r"\s+", "", g.j.get("qname_targs") or "").endswith(ct)]
            if len(pick) == 1:
                cands = pick
        if len(cands) != 1 or cands[0] in getattr(self, "stack", []) or cands[0] is root:
            return None
        return ("func", cands[0])

    def ev___val(self, n, env):
        return n["v"]

    def eval_lambda(self, lam, argvals, env=None):
        """value returned by a lambda node applied to the given values (folded like an inlined helper)"""
        call = {"k": "opcall", "op": "()", "id": "lam%s" % lam.get("id"), "args": [None] + [{"k": "__val", "v": v, "id": -1} for v in argvals]}
        return self.inline_call(call, ("lambda", lam), env if env is not None else Env())

    def inline_call(self, n, tgt, env):
        kind, g = tgt
        if kind == "lambda":
            params, body, arg_nodes = g["params"], g["body"], n["args"][1:]
            sub = env.copy()               # by-reference captures are read (and written) through the caller's variables
            for dcl_, val_ in getattr(self, "lambda_snap", {}).get("lambda@%s" % g.get("id"), {}).items():
                sub[dcl_] = val_           # by-value captures: the value at creation
        else:
            params, body, arg_nodes = g.j["params"], g.j["body"], n.get("args", [])
            sub = Env()
            for key, v in env.items():
                if isinstance(key, tuple):
                    sub[key] = v
        bound = {}
        self.transparent = getattr(self, "transparent", set())
        for p_, a in zip(params, arg_nodes):
            sub[p_["decl"]] = bound[p_["decl"]] = self.ev(a, env)
            self.transparent.add(p_["decl"])
        if not hasattr(self, "root"):
            self.root = self.f
        self.stack = getattr(self, "stack", [])
        saved = (self.f, self.returns, self.return_envs, self.loop_marks, self.pending)
        if kind == "func":
            self.f = g
            self.stack.append(g)
        self.returns, self.return_envs, self.loop_marks, self.pending = [], [], [], []
        n_exits = len(self.exits)
        self.depth += 1
        self.inlined.append((n.get("callee") or "lambda", n))
        mark = len(self.guards)
        fell = True
        try:
            self.stmt(body, sub)
        except Terminated:
            fell = False
        rets, renvs = self.returns, self.return_envs
        self.f, self.returns, self.return_envs, self.loop_marks, self.pending = saved
        self.exits = self.exits[:n_exits] + [x for x in self.exits[n_exits:] if x[0] == "throw"]   # the helper's returns end the helper only
        if kind == "func":
            self.stack.pop()
        self.depth -= 1
        del self.guards[mark:]
        seq = [(v, gds, e) for (v, gds, _s), e in zip(rets, renvs)]
        if fell:
            seq.append((None, None, sub))
        if not seq:
            raise Terminated()            # the helper always throws
        val, fin = seq[-1][0], seq[-1][2]
        for v, gds, e in reversed(seq[:-1]):
            cond = None
            for c, pol, _n in gds[mark:]:
                t = c if pol else ("!", c)
                cond = t if cond is None else ("&&", cond, t)
            if cond is None:
                val, fin = v, e
                continue
            if v is not None and val is not None:
                val = v if self.same(v, val) else self.ite(cond, v, val)
            elif v is not None:
                val = v
            merged = fin.copy()
            for key in set(e) | set(fin):
                a, b = e.get(key), fin.get(key)
                if (a is None) != (b is None) and self.default_of(key, fin) is not None:
                    a = self.default_of(key, fin) if a is None else a
                    b = self.default_of(key, fin) if b is None else b
                if a is not None and b is not None and not self.same(a, b):
                    merged[key] = self.ite(cond, a, b)
                elif b is None and a is not None:
                    merged[key] = a
            fin = merged
        # effects: fields (same object) and non-const reference parameters; a lambda writes the caller's variables directly
        if kind == "lambda":
            pdecls = {p_["decl"] for p_ in params}
            for key, v in fin.items():
                if key not in pdecls and (key in env or isinstance(key, tuple)):
                    env[key] = v
        else:
            for key, v in fin.items():
                if isinstance(key, tuple):
                    env[key] = v
        written = self.assigned_in(body)
        for p_, a in zip(params, arg_nodes):
            t = (p_.get("type") or "").strip()
            if t.endswith("&") and not t.startswith("const ") and p_["decl"] in fin and a is not None and a.get("k") != "__val" and \
                    (p_["decl"] in written or not self.same(fin[p_["decl"]], bound.get(p_["decl"]))):
                self.store(a, fin[p_["decl"]], env, n)
        if val is None:
            return S("void@%s" % n["id"])
        return val

    def builtin(self, n, callee, k, obj, args, env):
        short = callee.split("::")[-1]
        t = n.get("type") or ""
        if k == "opcall":
            op = n["op"]
            if op in ("+", "+=") and len(args) == 2 and re.search(r"basic_string", (callee or "") + " " + (n.get("type") or "")):
                # std::string concatenation keeps its order: ("cat", piece, piece, ...)
                flat = []
                for x_ in args:
                    flat += list(x_[1:]) if isinstance(x_, tuple) and x_ and x_[0] == "cat" else [x_]
                val = ("cat",) + tuple(flat)
                if op == "+=":
                    self.store(unwrap(n["args"][0]), val, env, n)
                return val
            if op in ("+", "-", "*", "/") and len(args) == 2:
                a0, a1 = args
                if op in ("*", "/") and isinstance(a0, Matrix) and isinstance(a1, Matrix) and a0.shape == a1.shape \
                        and a0.shape[1] == 1 and "Array" in (n.get("callee", "") + (n.get("type") or "")):
                    return Matrix(a0.shape[0], 1, lambda i, j: a0[i] * a1[i] if op == "*" else a0[i] / a1[i])
                return self.arith(op, a0, a1)
            if op == "-" and len(args) == 1:
                return -args[0]
            if op in ("+=", "-=") and not isinstance(args[1], (Matrix, tuple)):
                # M.diagonal().array() += s  /  M.diagonal() += ... on a local fixed-size matrix
                l0 = unwrap(n["args"][0])
                while l0.get("k") == "mcall" and (l0.get("callee") or "").split("::")[-1] in ("array", "matrix") and l0.get("obj") is not None:
                    l0 = unwrap(l0["obj"])
                if l0.get("k") == "mcall" and (l0.get("callee") or "").split("::")[-1] == "diagonal" and l0.get("obj") is not None:
                    b0 = unwrap(l0["obj"])
                    if b0.get("k") == "ref" and isinstance(env.get(b0.get("decl")), Matrix) and l0 is not unwrap(n["args"][0]):
                        m_ = env[b0["decl"]].copy()
                        for d_ in range(min(m_.shape)):
                            m_[d_, d_] = m_[d_, d_] + (args[1] if op == "+=" else -args[1])
                        env[b0["decl"]] = m_
                        self.event({"kind": "store", "target": show(unwrap(n["args"][0])), "target_node": unwrap(n["args"][0]), "value": args[1], "node": n, "diag": True}, env)
                        return m_
            if op in ("=", "+=", "-=", "*=", "/="):
                lhs = unwrap(n["args"][0])
                val = args[1]
                if op != "=":
                    val = self.arith(op[0], args[0], args[1])
                self.store(lhs, val, env, n)
                return val
            if op in ("()", "[]"):
                return self.index(args[0], args[1:], n)
            if op in ("<", "<=", ">", ">=", "==", "!="):
                return self.compare(op, args[0], args[1])
            if op == "<<":
                return F("shl")(*[self.scalarize(a) for a in args])
            if op in ("++", "--"):
                lhs = unwrap(n["args"][0])
                old = self.scalarize(args[0])
                new = F("iter" + ("inc" if op == "++" else "dec"))(old)
                self.store(lhs, new, env, n)
                return old if len(n["args"]) == 2 else new          # operator++(int): the postfix form yields the value before the step
            if op == "*" and len(args) == 1:
                return F("deref")(self.scalarize(args[0])) if not isinstance(args[0], Matrix) else args[0]
            if op == "->":
                return args[0]
        if callee.startswith("std::") or callee in ("sqrt", "exp", "log", "sin", "cos", "acos", "asin", "atan", "atan2", "tan", "pow", "fabs", "floor", "round"):
            a = args
            if short == "sqrt":
                return sqrt(a[0])
            if short == "exp":
                return sp.exp(a[0])
            if short == "log":
                return sp.log(a[0])
            if short == "sin":
                return sp.sin(a[0])
            if short == "cos":
                return sp.cos(a[0])
            if short == "acos":
                return sp.acos(a[0])
            if short in ("asin", "atan", "tan") and len(a) == 1 and not isinstance(a[0], (Matrix, tuple)):
                return {"asin": sp.asin, "atan": sp.atan, "tan": sp.tan}[short](a[0])
            if short == "atan2" and len(a) == 2 and not any(isinstance(x, (Matrix, tuple)) for x in a):
                return sp.atan2(a[0], a[1])
            if short == "pow" and len(a) == 2:
                return sp.Pow(a[0], a[1])
            if short in ("abs", "fabs") and len(a) == 1:
                return sp.Abs(a[0])
            if short in ("floor", "round", "lround", "trunc", "ceil", "rint", "nearbyint"):
                return F(short)(a[0])
            if short in ("min", "max") and len(a) == 2:
                return F(short)(a[0], a[1])
            if short == "swap" and len(a) == 2 and n["k"] == "call":
                l0, l1 = unwrap(n["args"][0]), unwrap(n["args"][1])
                if all(x.get("k") == "ref" and x.get("dk") in ("local", "param") for x in (l0, l1)):
                    v0, v1 = env.get(l0["decl"], a[0]), env.get(l1["decl"], a[1])
                    env[l0["decl"]], env[l1["decl"]] = v1, v0
                    return S("void")
            if short in ("all_of", "any_of", "none_of") and len(a) == 3 and n["k"] == "call":
                its = [unwrap(x) for x in n["args"][:2]]
                ends = [(x.get("callee") or "").split("::")[-1] if x.get("k") in ("mcall", "call") else None for x in its]
                lam = getattr(self, "lambdas", {}).get(str(a[2]))
                rng_ok = ends[0] in ("begin", "cbegin") and ends[1] in ("end", "cend")
                if rng_ok and lam is not None:
                    lid = "alg%s" % n["id"]
                    elem = S("elem@%s" % lid)
                    r = self.eval_lambda(lam, [elem], env)
                    if r is not None and not isinstance(r, Matrix):
                        rng = self.ev(its[0]["obj"], env) if its[0].get("obj") is not None else (self.ev(its[0]["args"][0], env) if its[0].get("args") else None)
                        self.loops = getattr(self, "loops", [])
                        self.loops.append({"lid": lid, "node": n, "cond": None, "init": {}, "syms": {}, "range": rng, "var": elem, "step": {}, "breaks": [], "algorithm": short})
                        ALG_RANGES[lid] = rng
                        return ({"all_of": "allof", "any_of": "anyof", "none_of": "noneof"}[short], lid, r)
            if short == "accumulate" and len(a) in (3, 4) and n["k"] == "call":
                its = [unwrap(x) for x in n["args"][:2]]
                ends = [(x.get("callee") or "").split("::")[-1] if x.get("k") == "mcall" else None for x in its]
                lam = getattr(self, "lambdas", {}).get(str(a[3])) if len(a) == 4 else None
                if ends == ["begin", "end"] and show(unwrap(its[0]["obj"])) == show(unwrap(its[1]["obj"])) and (len(a) == 3 or lam is not None) \
                        and not isinstance(a[2], (tuple, Matrix)):
                    lid = "acc%s" % n["id"]
                    elem, acc = S("elem@%s" % lid), S("acc@%s" % lid)
                    r = acc + elem if lam is None else self.eval_lambda(lam, [acc, elem], env)
                    if r is not None and not isinstance(r, (tuple, Matrix)):
                        term = sp.expand(r - acc)
                        if acc not in term.free_symbols:
                            self.loops = getattr(self, "loops", [])
                            self.loops.append({"lid": lid, "node": n, "cond": None, "init": {}, "syms": {}, "range": self.ev(its[0]["obj"], env), "var": elem})
                            return a[2] + F("SUM_" + lid)(term)
        if obj is not None and isinstance(obj, Matrix) and short == "normalize" and not args:
            on = unwrap(n["obj"])
            nv = obj / sqrt(sum(x * x for x in obj))
            if on.get("k") == "ref" and on.get("decl") in env:
                env[on["decl"]] = nv
            elif on.get("k") == "member":
                env[("field", show(on))] = nv
            return nv
        if obj is not None and isinstance(obj, Matrix):
            v = self.matrix_method(short, obj, args, n)
            if v is not NotImplemented:
                return v
        if n.get("conversion"):
            return obj
        # Eigen static factories
        if short == "Zero" and is_vec3(t):
            return sp.zeros(3, 1)
        if short == "Zero" and is_mat3(t):
            return sp.zeros(3, 3)
        if short == "Identity" and is_mat3(t):
            return sp.eye(3)
        if short in ("UnitX", "UnitY", "UnitZ") and is_vec3(t):
            return Matrix([1 if short[-1] == c else 0 for c in "XYZ"])
        if short == "Unit" and re.search(r"Matrix<double, 3, 1\b", callee or "") and len(args) == 1 and not isinstance(args[0], (tuple, Matrix)):
            return Matrix([sp.KroneckerDelta(args[0], c) for c in range(3)])
        # opaque
        name = short
        if callee in ("std::make_unique", "std::make_shared") and n.get("callee_targs"):
            mt = re.search(r"<\s*([\w:]+)", n["callee_targs"])
            if mt:
                return F("%s<%s>" % (short, mt.group(1).split("::")[-1]))(*[self.scalarize(a) for a in args]) if args else S("%s<%s>()" % (short, mt.group(1).split("::")[-1]))
        if short == "lpNorm":
            mt = re.search(r"<(-?\w+)>$", n.get("callee_targs") or "")
            if mt and mt.group(1) == "1" and obj is not None and not args:
                return F("sum")(F("cwiseAbs")(self.scalarize(obj)))       # the L1 norm
            name = short + ("<%s>" % mt.group(1) if mt else "<?>")
        parts = []
        if obj is not None:
            parts.append(self.scalarize(obj))
        parts += [self.scalarize(a) for a in args]
        if is_vec3(t):
            return vec_atoms("%s(%s)" % (name, ",".join(str(p) for p in parts)))
        if is_mat3(t):
            return mat_atoms("%s(%s)" % (name, ",".join(str(p) for p in parts)))
        return F(name)(*parts) if parts else S(name + "()")

    def matrix_method(self, short, m, args, n):
        if short in ("x", "y", "z") and m.shape == (3, 1) and not args:
            return m["xyz".index(short)]
        if short == "dot" and isinstance(args[0], Matrix):
            return (m.T * args[0])[0, 0]
        if short == "cross" and isinstance(args[0], Matrix):
            return m.cross(args[0])
        if short == "squaredNorm":
            return sum(x * x for x in m)
        if short == "norm":
            return sqrt(sum(x * x for x in m))
        if short == "normalized":
            return m / sqrt(sum(x * x for x in m))
        if short == "transpose":
            return m.T
        if short == "asDiagonal" and not args and m.shape[1] == 1:
            return sp.diag(*list(m))
        if short in ("array", "matrix", "eval", "derived") and not args:
            return m
        if short == "cwiseAbs":
            return m.applyfunc(sp.Abs)
        if short == "cwiseProduct" and isinstance(args[0], Matrix):
            return Matrix(m.shape[0], m.shape[1], lambda i, j: m[i, j] * args[0][i, j])
        if short == "cwiseQuotient" and isinstance(args[0], Matrix):
            return Matrix(m.shape[0], m.shape[1], lambda i, j: m[i, j] / args[0][i, j])
        if short == "sum":
            return sum(m)
        if short == "determinant":
            return m.det()
        if short == "diagonal":
            return Matrix([m[i, i] for i in range(min(m.shape))])
        if short == "col" and getattr(args[0], "is_Integer", False):
            return m[:, int(args[0])]
        if short == "row" and getattr(args[0], "is_Integer", False):
            return m[int(args[0]), :]
        if short == "minCoeff":
            return F("min")(*list(m))
        if short == "maxCoeff":
            return F("max")(*list(m))
        if short in ("round", "floor") and not args:
            return m.applyfunc(F(short))
        return NotImplemented

    # ------------------------------------------------------------------ stores
    def store(self, lhs, val, env, node):
        lhs = unwrap(lhs)
        k = lhs.get("k")
        if k == "ref" and lhs.get("dk") in ("local", "param", "staticlocal"):
            env[lhs["decl"]] = val
            tgt = getattr(self, "ref_of", {}).get(lhs["decl"])
            if tgt is not None and not (lhs.get("type") or "").lstrip().startswith("const "):
                # assignment through a reference local: the referent is what changes
                self.event({"kind": "store", "target": show(tgt), "target_node": tgt, "field": tgt.get("field"), "value": val, "node": node, "via": lhs.get("name")}, env)
            return
        if k == "member":
            self.field_nodes = getattr(self, "field_nodes", {})
            self.field_nodes.setdefault(("field", show(lhs)), lhs)
            env[("field", show(lhs))] = val
            self.event({"kind": "store", "target": show(lhs), "field": lhs.get("field"), "value": val, "node": node}, env)
            return
        # element / accessor stores: x(i) = v, v.x() = ..., obj->F() = ...
        idx = None
        if k in ("mcall", "opcall", "subscript"):
            an = lhs.get("args", []) if k == "mcall" else (lhs["args"][1:] if k == "opcall" else [lhs["index"]])
            try:
                idx = [self.ev(a, env) for a in an]
            except Terminated:
                idx = None
        tval = None
        if k == "mcall" and lhs.get("obj") is not None:
            try:
                tval = "%s.%s()" % (self.scalarize(self.ev(lhs["obj"], env)), (lhs.get("callee") or "").split("::")[-1])
            except Terminated:
                tval = None
        self.event({"kind": "store", "target": show(lhs), "target_node": lhs, "value": val, "node": node, "idx": idx, "target_val": tval}, env)
        # component store into a local 3-vector
        if k in ("mcall", "opcall"):
            base = unwrap(lhs.get("obj") if k == "mcall" else lhs["args"][0])
            if base is not None and base.get("k") == "ref" and base.get("decl") in env and isinstance(env[base["decl"]], Matrix):
                m = env[base["decl"]].copy()
                comp = None
                short = (lhs.get("callee") or "").split("::")[-1]
                if k == "mcall" and short in ("x", "y", "z"):
                    comp = "xyz".index(short)
                elif k == "opcall" and lhs["op"] in ("()", "[]") and len(lhs["args"]) == 2:
                    iv = self.ev(lhs["args"][1], env)
                    if getattr(iv, "is_Integer", False):
                        comp = int(iv)
                if comp is not None and m.shape[1] == 1 and not isinstance(val, (Matrix, tuple)):
                    m[comp] = val
                    env[base["decl"]] = m
                elif k == "opcall" and lhs["op"] == "()" and len(lhs["args"]) == 3 and not isinstance(val, (Matrix, tuple)):
                    i_, j_ = self.ev(lhs["args"][1], env), self.ev(lhs["args"][2], env)
                    if getattr(i_, "is_Integer", False) and getattr(j_, "is_Integer", False) and int(i_) < m.shape[0] and int(j_) < m.shape[1]:
                        m[int(i_), int(j_)] = val
                        env[base["decl"]] = m
                elif k == "mcall" and short == "diagonal" and isinstance(val, Matrix) and val.shape == (min(m.shape), 1):
                    for d_ in range(min(m.shape)):
                        m[d_, d_] = val[d_]
                    env[base["decl"]] = m
                elif k == "mcall" and short in ("col", "row") and isinstance(val, Matrix) and lhs.get("args"):
                    c_ = self.ev(lhs["args"][0], env)
                    if getattr(c_, "is_Integer", False):
                        for d_ in range(3):
                            if short == "col" and val.shape == (m.shape[0], 1):
                                m[d_, int(c_)] = val[d_]
                            elif short == "row" and val.shape in ((1, m.shape[1]), (m.shape[1], 1)):
                                m[int(c_), d_] = val[d_]
                        env[base["decl"]] = m

    # ------------------------------------------------------------------ statements
    def run(self, env=None):
        env = env if env is not None else Env()
        self.fell_through = True
        try:
            self.stmt(self.f.body, env)
        except Terminated:
            self.fell_through = False
        self.final_env = env
        return self

    def exit_env(self):
        """the environment at function exit, merged over all returns (and the fall-through end) by their path conditions"""
        seq = [(g, e) for (_v, g, _s), e in zip(self.returns, self.return_envs)]
        if self.fell_through:
            seq.append((None, self.final_env))
        if not seq:
            return Env()
        fin = seq[-1][1].copy()
        for gds, e in reversed(seq[:-1]):
            cond = None
            for c, pol, _n in gds:
                if isinstance(c, tuple) and c and c[0] in ("loop", "each"):
                    continue
                t = c if pol else ("!", c)
                cond = t if cond is None else ("&&", cond, t)
            if cond is None:
                fin = e.copy()
                continue
            merged = fin.copy()
            for key in set(e) | set(fin):
                a, b = e.get(key), fin.get(key)
                if a is not None and b is not None and not self.same(a, b):
                    merged[key] = self.ite(cond, a, b)
                elif b is None and a is not None:
                    merged[key] = a
            fin = merged
        return fin

    def stmts(self, lst, env):
        mark = len(self.guards)
        try:
            for s in lst:
                self.stmt(s, env)
        finally:
            del self.guards[mark:]      # sticky guards of early exits end with the enclosing block

    def stmt(self, s, env):
        if s is None:
            return
        k = s.get("k")
        if k == "expr":
            self.ev(s["e"], env)
        elif k == "compound":
            self.stmts(s["stmts"], env)
        elif k == "decl":
            for d in s["decls"]:
                if d.get("init") is not None:
                    env[d["decl"]] = self.ev(d["init"], env)
                    t_ = (d.get("type") or "").strip()
                    if self.opaque_types and re.search(self.opaque_types, t_):
                        # a named (opaque) local: remember what it was initialised from, e.g. the local a helper returned
                        self.opaque_inits = getattr(self, "opaque_inits", {})
                        self.opaque_inits[d["name"]] = env[d["decl"]]
                    i0 = unwrap(d["init"])
                    is_view = re.match(r"^(const )?Eigen::(Block|VectorBlock|Ref|Map)<", t_) is not None and i0 is not None and i0.get("k") == "mcall"
                    if (t_.endswith("&") or is_view) and i0 is not None and i0.get("k") in ("member", "mcall", "opcall", "subscript", "unop"):
                        self.transparent = getattr(self, "transparent", set())
                        self.transparent.add(d["decl"])
                        self.ref_of = getattr(self, "ref_of", {})
                        self.ref_of[d["decl"]] = i0
                else:
                    t = d.get("type") or ""
                    if is_vec3(t):
                        env[d["decl"]] = vec_atoms(d["name"] + "?")
                    elif is_mat3(t):
                        env[d["decl"]] = mat_atoms(d["name"] + "?")
                    else:
                        env[d["decl"]] = S(d["name"] + "?")
        elif k == "return":
            v = self.ev(s["value"], env) if s.get("value") is not None else None
            self.returns.append((v, list(self.guards), s))
            self.return_envs.append(env.copy())
            li_ = [i_ for i_, g_ in enumerate(self.guards) if isinstance(g_[0], tuple) and g_[0] and g_[0][0] == "loop"]
            if li_:
                # a return from inside a loop leaves the loop like a break: recorded with the loop (condition inside the iteration, value)
                self.loop_returns = getattr(self, "loop_returns", {})
                self.loop_returns.setdefault(self.guards[li_[-1]][0][1], []).append((self._conj(self.guards[li_[-1] + 1:]), v))
            if self.depth == 0:
                self.event({"kind": "return", "value": v, "node": s}, None)
            self.exits.append(("return", None, list(self.guards)))
            raise Terminated()
        elif k == "if":
            self.do_if(s, env)
        elif k in ("for", "while", "do", "rangefor"):
            self.do_loop(s, env)
        elif k == "switch":
            self.do_switch(s, env)
        elif k == "continue":
            if self.loop_marks:
                self.pending.append((self.loop_marks[-1], list(self.guards), env.copy()))
                self.exits.append(("continue", self.loop_marks[-1], list(self.guards)))
            raise LoopContinue()
        elif k == "break":
            bt = getattr(self, "break_targets", [])
            if bt and bt[-1][0] == "loop":
                self.break_states = getattr(self, "break_states", [])
                self.break_states.append((bt[-1][1], list(self.guards), env.copy()))
            raise LoopBreak()
        elif k == "try":
            self.stmt(s["block"], env)
        elif k in ("null", "label", "attributed"):
            if s.get("sub"):
                self.stmt(s["sub"], env)
        elif k in ("case", "default"):
            self.stmt(s.get("sub"), env)
        else:
            # expression node used as statement
            if "id" in s and k:
                self.ev(s, env)

    def do_if(self, s, env):
        if s.get("init"):
            self.stmt(s["init"], env)
        if s.get("condvar"):
            self.stmt(s["condvar"], env)
        c = self.ev(s["cond"], env)
        if c is sp.true or c is sp.false:
            br = s["then"] if c is sp.true else s.get("else")
            if br:
                self.stmt(br, env)
            return
        e1, e2 = env.copy(), env.copy()
        t1 = t2 = False
        mark = len(self.guards)
        self.guards.append((c, True, s))
        try:
            self.stmt(s["then"], e1)
        except Terminated:
            t1 = True
        del self.guards[mark:]
        self.guards.append((c, False, s))
        try:
            if s.get("else"):
                self.stmt(s["else"], e2)
        except Terminated:
            t2 = True
        del self.guards[mark:]
        if t1 and t2:
            raise Terminated()
        if t1:
            env.clear(); env.update(e2)
            self.guards.append((c, False, s))   # remainder of the enclosing block runs under !c
            self._sticky = getattr(self, "_sticky", 0) + 1
            return
        if t2:
            env.clear(); env.update(e1)
            self.guards.append((c, True, s))
            return
        keys = set(e1) | set(e2)
        for key in keys:
            a, b = e1.get(key), e2.get(key)
            if (a is None) != (b is None) and self.default_of(key, env) is not None:
                # a field stored on one branch only keeps its old value on the other
                a = self.default_of(key, env) if a is None else a
                b = self.default_of(key, env) if b is None else b
            if a is None or b is None:
                v = a if a is not None else b
                if key in env or not isinstance(key, int):
                    env[key] = v
                continue
            if self.same(a, b):
                env[key] = a
            else:
                env[key] = self.ite(c, a, b)

    def same(self, a, b):
        if isinstance(a, Matrix) or isinstance(b, Matrix):
            return isinstance(a, Matrix) and isinstance(b, Matrix) and a.shape == b.shape and a == b
        if isinstance(a, tuple) or isinstance(b, tuple):
            return a == b
        return a == b

    def assigned_in(self, s):
        """locals (decl ids) and fields (show text) stored to anywhere below s"""
        out = set()
        for n in walk(s):
            k = n.get("k")
            tgt = None
            if k == "assign":
                tgt = unwrap(n["lhs"])
            elif k == "unop" and n["op"] in ("++", "--"):
                tgt = unwrap(n["sub"])
            elif k == "opcall" and n["op"] in ("=", "+=", "-=", "*=", "/=", "++", "--"):
                tgt = unwrap(n["args"][0])
            elif k == "mcall" and getattr(self, "mutators", None) and n.get("obj") is not None and re.search(self.mutators, n.get("callee") or ""):
                tgt = unwrap(n["obj"])
                if tgt.get("k") != "ref":
                    tgt = None
            elif k == "call" and self.inline is not False and n.get("args"):
                # an inlinable helper that takes a variable by non-const reference writes it
                root = getattr(self, "root", None) or self.f
                facts = getattr(root, "facts", None)
                cands = [g for g in facts.find(n.get("callee") or "") if g.j.get("body") and g.j.get("internal") and len(g.j.get("params", [])) == len(n["args"])] if facts is not None else []
                if len({tuple(p_.get("type") for p_ in g.j["params"]) for g in cands}) == 1:
                    for p_, a_ in zip(cands[0].j["params"], n["args"]):
                        ty = (p_.get("type") or "").strip()
                        au = unwrap(a_)
                        if ty.endswith("&") and not ty.startswith("const ") and au is not None:
                            if au.get("k") == "ref" and "decl" in au:
                                out.add(au["decl"])
                            elif au.get("k") == "member":
                                out.add(("field", show(au)))
            if tgt is None:
                continue
            # x.y() = ..., v(i) = ...: the base object is modified
            while tgt.get("k") in ("mcall", "opcall", "subscript"):
                if tgt["k"] == "mcall":
                    nxt = tgt.get("obj")
                elif tgt["k"] == "opcall":
                    nxt = tgt["args"][0]
                else:
                    nxt = tgt["base"]
                if nxt is None:
                    break
                tgt = unwrap(nxt)
            if tgt.get("k") == "ref" and "decl" in tgt:
                out.add(tgt["decl"])
            elif tgt.get("k") == "member":
                out.add(("field", show(tgt)))
        return out

    def literal_trip(self, s, env):
        """(decl, start, stop) for `for (T k = c0; k < c1; ++k)` with literal bounds and k not written in the body"""
        if s["k"] != "for" or not s.get("init") or not s.get("cond") or not s.get("inc"):
            return None
        init = s["init"]
        if init.get("k") != "decl" or len(init["decls"]) != 1 or init["decls"][0].get("init") is None:
            return None
        d = init["decls"][0]
        c0 = lit_value(d["init"])
        cond = unwrap(s["cond"])
        inc = unwrap(s["inc"])
        if c0 is None or cond.get("k") != "binop" or cond["op"] not in ("<", "<=", "!=", ">", ">="):
            return None
        l, r = unwrap(cond["lhs"]), unwrap(cond["rhs"])
        while l.get("k") == "cast":
            l = unwrap(l["sub"])
        c1 = lit_value(r)
        if l.get("decl") != d["decl"] or c1 is None or unwrap(r).get("k") not in ("int", "cast", "unop"):
            return None
        if not (inc.get("k") == "unop" and inc["op"] in ("++", "--") and unwrap(inc["sub"]).get("decl") == d["decl"]):
            return None
        if d["decl"] in self.assigned_in(s["body"]):
            return None
        if c0.denominator != 1 or c1.denominator != 1:
            return None
        down = inc["op"] == "--"
        if down != (cond["op"] in (">", ">=")):
            return None
        if not down:
            stop = int(c1) + (1 if cond["op"] == "<=" else 0)
            if not (0 <= stop - int(c0) <= 8):
                return None
            return d["decl"], int(c0), stop, 1
        stop = int(c1) - (1 if cond["op"] == ">=" else 0)          # exclusive lower end
        if not (0 <= int(c0) - stop <= 8):
            return None
        return d["decl"], int(c0), stop, -1

    def do_loop(self, s, env):
        trip = self.literal_trip(s, env)
        if trip is not None:
            decl, a, b, step_ = trip
            for i in range(a, b, step_):
                env[decl] = sp.Integer(i)
                self.begin_loop()
                try:
                    self.stmt(s["body"], env)
                except LoopContinue:
                    self.end_loop(env)
                    continue
                except Terminated:
                    self.end_loop(env)
                    break
                self.end_loop(env)
            env.pop(decl, None)
            return
        if s["k"] == "rangefor" and s.get("var") is not None:
            rn = unwrap(s.get("range"))

            def strip_(x):
                while x is not None and x.get("k") in ("stdinitlist", "cast", "construct", "bind", "cleanup") and (x.get("sub") is not None or len(x.get("args", [])) in (1, 2)):
                    nxt = x["sub"] if x.get("sub") is not None else x["args"][0]
                    x = unwrap(nxt)
                return x
            rn = strip_(rn)
            if rn is not None and rn.get("k") == "ref" and rn.get("dk") == "local" and (rn.get("type") or "").lstrip().startswith("const ") and rn.get("decl") in self.f.decls \
                    and self.f.decls[rn["decl"]].get("init") is not None:
                # a const local container initialised from a literal list: iterate the list
                rn = strip_(unwrap(self.f.decls[rn["decl"]]["init"]))
            if rn is not None and rn.get("k") == "ref" and rn.get("dk") == "global" and (rn.get("type") or "").lstrip().startswith("const "):
                # a namespace-scope const container initialised from a literal list
                root_ = getattr(self, "root", None) or self.f
                gl = getattr(getattr(root_, "facts", None), "globals", {}).get(rn.get("qname"))
                if gl and gl.get("const") and gl.get("init") is not None:
                    rn = strip_(unwrap(gl["init"]))
            while rn is not None and rn.get("k") == "initlist" and len(rn.get("args", [])) == 1 and (strip_(unwrap(rn["args"][0])) or {}).get("k") == "initlist":
                rn = strip_(unwrap(rn["args"][0]))          # std::array<T, N>{{...}}: the aggregate's only member is the array
            if rn is not None and rn.get("k") == "initlist" and 1 <= len(rn.get("args", [])) <= 256 and all(lit_value(a) is not None or unwrap(a).get("k") == "str" or
                                                                                                         (strip_(unwrap(a)) or {}).get("k") == "str" for a in rn["args"]) \
                    and s["var"]["decl"] not in self.assigned_in(s["body"]):
                # for (T v : {c0, c1, ...}) with literal elements: unrolled
                for a in rn["args"]:
                    env[s["var"]["decl"]] = self.ev(a, env)
                    self.begin_loop()
                    try:
                        self.stmt(s["body"], env)
                    except LoopContinue:
                        self.end_loop(env)
                        continue
                    except Terminated:
                        self.end_loop(env)
                        break
                    self.end_loop(env)
                env.pop(s["var"]["decl"], None)
                return
        self.loop_id += 1
        lid = "L%d" % s.get("line", self.loop_id)
        k = s["k"]
        if k == "for" and s.get("init"):
            self.stmt(s["init"], env)
        carried = self.assigned_in(s)
        start = {}
        for key in carried:
            if key in env:
                old = env[key]
                if isinstance(old, Matrix):
                    a = Matrix(old.shape[0], old.shape[1], lambda i, j: S("%s@%s[%d,%d]" % (self.keyname(key), lid, i, j)))
                else:
                    a = S("%s@%s" % (self.keyname(key), lid))
                start[key] = (old, a)
                env[key] = a
        if k == "rangefor":
            v = s["var"]
            rng = self.ev(s["range"], env)
            t = v.get("type") or ""
            nm = "%s@%s" % (v["name"], lid)
            env[v["decl"]] = vec_atoms(nm) if is_vec3(t) else S(nm)
            self.range_values = getattr(self, "range_values", {})
            self.range_values[v["decl"]] = rng
        benv = env.copy()
        cond = None
        if s.get("cond") is not None and k != "do":
            cond = self.ev(s["cond"], benv)
        self.loops = getattr(self, "loops", [])
        self.loops.append({"lid": lid, "node": s, "cond": cond, "init": {key: old for key, (old, a) in start.items()}, "syms": {key: a for key, (old, a) in start.items()},
                           "range": getattr(self, "range_values", {}).get(s["var"]["decl"]) if k == "rangefor" and s.get("var") else None,
                           "var": env.get(s["var"]["decl"]) if k == "rangefor" and s.get("var") else None})
        mark = len(self.guards)
        self.guards.append((("loop", lid, cond), True, s))
        self.begin_loop()
        self.break_targets = getattr(self, "break_targets", [])
        self.break_targets.append(("loop", lid))
        try:
            self.stmt(s["body"], benv)
        except Terminated:
            pass
        finally:
            self.break_targets.pop()
        self.end_loop(benv)
        try:
            if k == "for" and s.get("inc") is not None:
                self.ev(s["inc"], benv)
        except Terminated:
            pass
        del self.guards[mark:]
        if getattr(self, "loops", None) and self.loops[-1]["lid"] == lid:
            self.loops[-1]["step"] = {key: benv.get(key) for key in start}
        else:
            for l_ in getattr(self, "loops", []):
                if l_["lid"] == lid:
                    l_["step"] = {key: benv.get(key) for key in start}
        # states captured at `break`: a variable written on the way to a break leaves the loop with that value if some iteration breaks
        brk = [b_ for b_ in getattr(self, "break_states", []) if b_[0] == lid]
        self.break_states = [b_ for b_ in getattr(self, "break_states", []) if b_[0] != lid]
        brk_vals = {}
        for _lid, bguards, b_env in brk:
            bc = None
            for c_, pol_, _n in bguards[mark + 1:]:
                t_ = c_ if pol_ else ("!", c_)
                bc = t_ if bc is None else ("&&", bc, t_)
            for key, (old, a) in start.items():
                bv = b_env.get(key)
                if bv is not None and not self.same(bv, a):
                    brk_vals.setdefault(key, []).append((bc, bv))
        for l_ in getattr(self, "loops", []):
            if l_["lid"] == lid:
                l_["breaks"] = [(bc, {key: b_env.get(key) for key in start}) for (_l, bguards, b_env) in brk
                                for bc in [self._conj(bguards[mark + 1:])]]
                l_["returns"] = getattr(self, "loop_returns", {}).pop(lid, [])
        # accumulation idioms
        for key, (old, a) in start.items():
            new = benv.get(key)
            if new is None:
                env[key] = a
                continue
            env[key] = self.loop_result(old, a, new, lid, key)
        for key, lst in brk_vals.items():
            for bc, bv in lst:
                if isinstance(bv, (tuple, Matrix)) or isinstance(env.get(key), (tuple, Matrix)):
                    env[key] = S("%s_after_%s" % (self.keyname(key), lid))
                else:
                    env[key] = self.ite(("anyiter", lid, bc), bv, env.get(key))

    def _conj(self, guards):
        bc = None
        for c_, pol_, _n in guards:
            t_ = c_ if pol_ else ("!", c_)
            bc = t_ if bc is None else ("&&", bc, t_)
        return bc

    def begin_loop(self):
        self.loop_marks.append(len(self.guards))

    def end_loop(self, env):
        """merge the states captured at `continue` statements of the loop body that just ended into env"""
        mark = self.loop_marks.pop()
        self.exits = [x for x in self.exits if not (x[0] == "continue" and x[1] == mark)]
        mine = [p for p in self.pending if p[0] == mark]
        self.pending = [p for p in self.pending if p[0] != mark]
        for _, guards, penv in reversed(mine):
            cond = None
            for c, pol, _n in guards[mark:]:
                t = c if pol else ("!", c)
                cond = t if cond is None else ("&&", cond, t)
            if cond is None:
                env.clear(); env.update(penv)
                continue
            for key in set(env) | set(penv):
                a, b = penv.get(key), env.get(key)
                if (a is None) != (b is None) and self.default_of(key, env) is not None:
                    a = self.default_of(key, env) if a is None else a
                    b = self.default_of(key, env) if b is None else b
                if a is None or b is None:
                    if b is None and (not isinstance(key, int)):
                        env[key] = a
                    continue
                if not self.same(a, b):
                    env[key] = self.ite(cond, a, b)

    def keyname(self, key):
        if isinstance(key, tuple):
            return key[1]
        d = self.f.decls.get(key)
        return d["name"] if d else "v%s" % key

    def loop_result(self, old, a, new, lid, key):
        if isinstance(new, Matrix) and isinstance(a, Matrix) and new.shape == a.shape and isinstance(old, Matrix):
            return Matrix(new.shape[0], new.shape[1],
                          lambda i, j: self.loop_result(old[i, j], a[i, j], new[i, j], lid, key))
        if isinstance(new, (tuple, Matrix)) or isinstance(a, (tuple, Matrix)) or isinstance(old, (tuple, Matrix)):
            return S("%s_after_%s" % (self.keyname(key), lid))
        if new == a:
            return old
        term = sp.expand(new - a)
        if not term.has(a):
            return old + F("SUM_" + lid)(term)
        # guarded accumulation: ite(c, a + t, a)  ->  old + SUM(ite(c, t, 0))
        if str(new.func) == "ite" and len(new.args) == 3 and new.args[2] == a:
            t = sp.expand(new.args[1] - a)
            if not t.has(a):
                return old + F("SUM_" + lid)(F("ite")(new.args[0], t, 0))
        # max idiom:  ite(e > acc, e, acc)
        if new.func == F("ite") or str(new.func) == "ite":
            return F("LOOP_" + lid)(self.scalarize(old), new.subs(a, S("acc")))
        return F("LOOP_" + lid)(self.scalarize(old), new.subs(a, S("acc")))

    def do_switch(self, s, env):
        self.break_targets = getattr(self, "break_targets", [])
        self.break_targets.append(("switch", None))
        try:
            return self._do_switch(s, env)
        finally:
            self.break_targets.pop()

    def _do_switch(self, s, env):
        c = self.ev(s["cond"], env)
        body = s["body"]
        stmts = body["stmts"] if body.get("k") == "compound" else [body]
        # split into case groups
        groups = []
        cur = None
        for st in stmts:
            labels = []
            while st is not None and st.get("k") in ("case", "default"):
                labels.append(st.get("enumerator") or st.get("ivalue") if st["k"] == "case" else "default")
                st = st.get("sub")
            if labels:
                cur = {"labels": labels, "stmts": []}
                groups.append(cur)
            if cur is not None and st is not None:
                cur["stmts"].append(st)
        if c in ENUM_SYMS:
            sel = [g for g in groups if str(c) in [str(l) for l in g["labels"]] or str(c).split("::")[-1] in [str(l).split("::")[-1] for l in g["labels"] if l != "default"]]
            if not sel:
                sel = [g for g in groups if "default" in g["labels"]]
            if sel:
                start = groups.index(sel[0])
                for g in groups[start:]:
                    try:
                        self.stmts(g["stmts"], env)
                    except LoopBreak:
                        return
            return
        if getattr(c, "is_Integer", False):
            sel = [g for g in groups if int(c) in [l for l in g["labels"] if isinstance(l, int)]]
            if not sel:
                sel = [g for g in groups if "default" in g["labels"]]
            if sel:
                start = groups.index(sel[0])
                for g in groups[start:]:          # fall-through semantics
                    try:
                        self.stmts(g["stmts"], env)
                    except LoopBreak:
                        return
            return
        envs = []
        all_term = True
        for g in groups:
            e = env.copy()
            mark = len(self.guards)
            self.guards.append((("switch", c, tuple(map(str, g["labels"]))), True, s))
            try:
                self.stmts(g["stmts"], e)
                all_term = False
                envs.append(e)
            except LoopBreak:
                all_term = False
                envs.append(e)
            except Terminated:
                pass
            del self.guards[mark:]
        has_default = any("default" in g["labels"] for g in groups)
        if not has_default:
            envs.append(env.copy())
            all_term = False
        if all_term and groups:
            raise Terminated()
        if envs:
            first = envs[0]
            for key in set().union(*[set(e) for e in envs]):
                vals = [e.get(key) for e in envs]
                if all(v is not None and self.same(v, vals[0]) for v in vals):
                    env[key] = vals[0]
                else:
                    env[key] = S("%s_after_switch@%s" % (self.keyname(key), s.get("line")))


# ---------------------------------------------------------------------------- canonical forms

def deep(e):
    """canonicalise the arguments of uninterpreted functions bottom-up, then the expression itself"""
    from sympy.core.function import AppliedUndef
    if isinstance(e, Matrix):
        return e.applyfunc(deep)
    if isinstance(e, tuple):
        return tuple(deep(x) if not isinstance(x, (str, type(None))) else x for x in e)
    if not hasattr(e, "args") or not e.args:
        return e
    try:
        new_args = [deep(a) for a in e.args]
        e2 = e.func(*new_args)
        if isinstance(e2, AppliedUndef):
            return e2
        return sp.cancel(sp.together(sp.expand(e2))) if e2.is_Add or e2.is_Mul or e2.is_Pow else e2
    except Exception:
        return e


def canon(e):
    """canonical rational form (expand + cancel); matrices component-wise"""
    if isinstance(e, Matrix):
        return e.applyfunc(canon)
    if isinstance(e, tuple):
        return tuple(canon(x) if not isinstance(x, str) else x for x in e)
    try:
        return sp.cancel(sp.together(sp.expand(e)))
    except Exception:
        return e


def is_zero(e):
    if isinstance(e, Matrix):
        return all(is_zero(x) for x in e)
    try:
        r = sp.cancel(sp.together(sp.expand(e)))
        if r != 0:
            r = sp.cancel(sp.together(sp.expand(deep(e))))
        if r == 0:
            return True
        num = sp.numer(r)
        return sp.expand(num) == 0
    except Exception:
        return False


def equal(a, b):
    if isinstance(a, Matrix) != isinstance(b, Matrix):
        return False
    if isinstance(a, Matrix):
        return a.shape == b.shape and all(is_zero(a[i] - b[i]) for i in range(len(a)))
    if isinstance(a, tuple) or isinstance(b, tuple):
        if not (isinstance(a, tuple) and isinstance(b, tuple)) or len(a) != len(b):
            return False
        return all((x == y) if isinstance(x, str) or isinstance(y, str) or x is None or y is None else equal(x, y)
                   for x, y in zip(a, b))
    return is_zero(a - b)


def guard_strs(fold, guards):
    out = []
    for c, pol, s in guards:
        out.append(("" if pol else "!") + fold.cond_str(c))
    return out
