"""Folding of Perl op-trees (perl -MO=Concise; compile phase only): the counterpart of alg.Fold for the table scripts.

Scalars are folded through their definitions (conditional definitions become ite terms, loop-carried scalars become atoms),
arrays stay named: an element read is elem(@a, index), an element write is a *store event*.  Statement-level and/or/unless,
statement modifiers, if/elsif/else, C-style for, foreach, next/last/return and user subs defined in the same script (inlined,
arguments bound through `my (...) = @_`) are understood.  Every event carries its guards and the exits taken before it, in
the same form as alg.Fold, so vsa.cases decides them."""
import re
import sympy as sp
from .alg import Fold, S, F as Fn, Terminated, LoopBreak, LoopContinue, Env
from . import perlops as P
from .front import AnalysisBroken

NOISE = ("pushmark", "nextstate", "enter", "ex-nextstate", "dbstate", "unstack", "ex-pushmark", "padrange")
CMPN = {"lt": "<", "gt": ">", "le": "<=", "ge": ">=", "eq": "==", "ne": "!=", "i_lt": "<", "i_gt": ">", "i_le": "<=", "i_ge": ">=", "i_eq": "==", "i_ne": "!="}
CMPS = {"seq": "==", "sne": "!="}
BIN = {"add": "+", "subtract": "-", "multiply": "*", "divide": "/", "pow": "**", "i_add": "+", "i_subtract": "-", "i_multiply": "*"}
FUN1 = {"log": sp.log, "exp": sp.exp, "sin": sp.sin, "cos": sp.cos, "sqrt": sp.sqrt, "abs": sp.Abs}


class SubReturn(Terminated):
    pass


def split_subs(text):
    """Concise output with named subs -> {name or 'main': root Op}"""
    parts, cur, name = {}, [], None
    text = re.sub(r"(enteriter|enterloop)\(next->\S+ last->\S+ redo->\S+\)", r"\1", text)
    text = re.sub(r"\(other->\w+\)", "", text)
    for line in text.splitlines():
        m = re.match(r"^(main::)?(\w+):$", line.strip())
        if m and not line.startswith(" "):
            if name is not None:
                parts[name] = "\n".join(cur)
            name, cur = m.group(2), []
            continue
        if line.strip() == "main program:":
            if name is not None:
                parts[name] = "\n".join(cur)
            name, cur = "main", []
            continue
        cur.append(line)
    if name is not None:
        parts[name] = "\n".join(cur)
    return {k: P.parse(v) for k, v in parts.items()}


def load(script_rel):
    """(main root, {sub name: root}) of a script; subs are the ones defined in the script's own source"""
    import os, subprocess
    from .front import REPO
    incdir = os.path.join(REPO, "csg/share/scripts/inverse")
    path = os.path.join(REPO, script_rel)
    if not os.path.exists(path):
        raise AnalysisBroken("script vanished: " + script_rel)
    names = re.findall(r"^\s*sub\s+(\w+)", open(path).read(), re.M)
    env = dict(os.environ, PERL5LIB=incdir)
    p = subprocess.run(["perl", "-MO=Concise,-main" + "".join("," + n for n in names), path], capture_output=True, text=True, env=env, cwd=incdir)
    if "syntax OK" not in p.stderr:
        raise AnalysisBroken("perl cannot compile %s: %s" % (script_rel, p.stderr[-400:]))
    trees = split_subs(p.stdout)
    if "main" not in trees:
        raise AnalysisBroken("no main program in the op-tree of " + script_rel)
    return trees["main"], {k: v for k, v in trees.items() if k != "main"}


def padname(op):
    return (op.arg or "").split(":")[0]


class PFold(Fold):
    def __init__(self, main, subs=None):
        # the bookkeeping of alg.Fold (guards, exits, pending continues, ite/cond registry) is reused as is
        self.f = type("Stub", (), {"decls": {}, "qname": "perl"})()
        self.opaque_types = None
        self.call_hook = self.atom_hook = self.record_calls = None
        self.inline = False
        self.exits, self.pending, self.loop_marks, self.return_envs, self.inlined = [], [], [], [], []
        self.returns, self.throws, self.events, self.guards = [], [], [], []
        self.snap = None
        self.loop_id = 0
        self.depth = 0
        self.main, self.subs = main, subs or {}
        self.line = 0
        self.loops = []          # descriptors of the loops entered (in program order)
        self.loop_stack = []
        self.args = None

    # ------------------------------------------------------------------ values
    def kids(self, op):
        return [k for k in op.kids if k.name not in NOISE]

    def const(self, op):
        a = op.arg or ""
        m = re.match(r"^(NV|IV|PV|PVIV|PVNV|SPECIAL|PVMG)\s+(.*)$", a)
        if m:
            kind, val = m.groups()
            if kind in ("NV", "IV", "PVIV", "PVNV"):
                try:
                    return sp.Rational(val.strip('"'))
                except Exception:
                    try:
                        return sp.Rational(str(float(val)))
                    except Exception:
                        return S("const(%s)" % val)
            return S(val)
        return S("const(%s)" % a)

    def elem(self, arr, idx):
        arr = arr if arr.startswith("@") else "@" + arr
        if getattr(self, "array_versions", False):
            # reads after a loop that wrote the array see a new version of it ("@a'1"): a value cached before that loop is told apart from one read after it
            v = getattr(self, "aver", {}).get(arr, 0)
            if v:
                arr = "%s'%d" % (arr, v)
        return Fn("elem")(S(arr), idx)

    def idx_value(self, s, env):
        s = s.strip()
        if re.match(r"^-?\d+$", s):
            return sp.Integer(int(s))
        if re.match(r"^\$\w+$", s):
            return env.get(s, S(s))
        m = re.match(r"^\$#(\w+)$", s) or re.match(r"^\$#\{?\$?(\w+)\}?$", s)
        if m:
            return Fn("last")(S("@" + m.group(1)))
        return S(s)

    def ev(self, op, env):
        op = P.strip(op)
        n = op.name
        ks = self.kids(op)
        if "TARGMY" in op.flags and (op.arg or "").startswith("$") and n not in ("padsv", "padsv_store"):
            v = self.ev_plain(op, env)
            env[padname(op)] = v
            return v
        return self.ev_plain(op, env)

    def ev_plain(self, op, env):
        n = op.name
        ks = self.kids(op)
        if n == "const":
            return self.const(op)
        if n == "padsv":
            return env.get(padname(op), S(padname(op)))
        if n == "padsv_store":
            v = self.ev(ks[0], env)
            env[padname(op)] = v
            return v
        if n in ("gvsv",):
            return S("$" + (op.arg or "").lstrip("*"))
        if n == "multideref":
            m = re.match(r"^\$(\w+)\[(.*)\]$", op.arg or "")
            if m:
                return self.elem(m.group(1), self.idx_value(m.group(2), env))
            m = re.match(r"^\$(\w+)->\[(.*)\]$", op.arg or "")
            if m and str(env.get("$" + m.group(1), "")).startswith("@"):
                # element of an array handed over by reference
                return self.elem(str(env["$" + m.group(1)]), self.idx_value(m.group(2), env))
            return S("multideref(%s)" % op.arg)
        if n in ("aelem", "ex-aelem"):
            if len(ks) == 1:
                return self.ev(ks[0], env)
            if len(ks) >= 1 and P.strip(ks[0]).name in ("aelemfast", "aelemfast_lex"):
                return self.ev_plain(P.strip(ks[0]), env)
            fast = [x for x in P.walk(ks[0]) if x.name in ("aelemfast", "aelemfast_lex")] if len(ks) == 2 and P.strip(ks[1]).name == "ex-const" else []
            if len(fast) == 1:
                return self.ev_plain(fast[0], env)          # $ARGV[2]: constant index folded into the fetch
            if len(ks) >= 2:
                arr = P.strip(ks[0])
                an = padname(arr) if arr.name in ("padav", "ex-padav") else ("@" + (arr.arg or arr.name).lstrip("*@"))
                if arr.name in ("rv2av", "ex-rv2av") and arr.kids:
                    g = [k for k in P.walk(arr) if k.name in ("gv", "aelemfast")]
                    an = "@" + (g[0].arg or "").lstrip("*") if g else an
                return self.elem(an, self.ev(ks[1], env))
        if n in ("aelemfast", "aelemfast_lex"):
            a = padname(op)
            if a.startswith("*"):
                a = "@" + a[1:]
            im = re.search(r"key=(-?\d+)", op.flags)
            return self.elem(a, sp.Integer(int(im.group(1))) if im else sp.Integer(0))
        if n == "av2arylen":
            arr = P.strip(op.kids[0]) if op.kids else None
            nm = padname(arr) if arr is not None and arr.name in ("padav", "ex-padav") else "@?"
            if arr is not None and arr.name in ("rv2av", "ex-rv2av"):
                g = [k for k in P.walk(arr) if k.name == "gv"]
                nm = "@" + (g[0].arg or "").lstrip("*") if g else nm
                sv = [k for k in P.walk(arr) if k.name == "padsv"]
                if not g and len(sv) == 1 and str(env.get(padname(sv[0]), "")).startswith("@"):
                    nm = str(env[padname(sv[0])])          # $#{$ref} of an array handed over by reference
            return Fn("last")(S(nm))
        if n in ("padav", "ex-padav"):
            return S(padname(op))
        if n in BIN and len(ks) >= 2:
            a, b = self.ev(ks[0], env), self.ev(ks[1], env)
            try:
                return {"+": a + b, "-": a - b, "*": a * b, "/": a / b, "**": a ** b}[BIN[n]]
            except TypeError:
                return Fn("op_" + n)(self.scalarize(a), self.scalarize(b))
        if n == "negate":
            return -self.ev(ks[0], env)
        if n in FUN1:
            v = self.ev(ks[0], env) if ks else S("$_")
            return FUN1[n](v)
        if n == "int":
            return Fn("int")(self.ev(ks[0], env))
        if n in CMPN and len(ks) >= 2:
            return self.compare(CMPN[n], self.ev(ks[0], env), self.ev(ks[1], env))
        if n in CMPS and len(ks) >= 2:
            return (CMPS[n], self.ev(ks[0], env), self.ev(ks[1], env))
        if n == "and" and len(ks) == 2:
            return ("&&", self.ev(ks[0], env), self.ev(ks[1], env))
        if n == "or" and len(ks) == 2:
            return ("||", self.ev(ks[0], env), self.ev(ks[1], env))
        if n == "not" and ks:
            return ("!", self.ev(ks[0], env))
        if n == "match":
            rx = re.search(r"/(.*)/", op.arg or "")
            tgt = self.ev(ks[0], env) if ks else S("$_")
            rc = [k for k in ks[1:] if P.strip(k).name == "regcomp"]
            if rc and not rx:
                # pattern assembled at run time: known when every interpolated part is a string constant
                parts = []
                for k in P.walk(P.strip(rc[0])):
                    if k.name == "const":
                        parts.append(str(self.const(k)))
                    elif k.name == "padsv":
                        parts.append(str(env.get(padname(k), S(padname(k)))))
                if parts and all(re.match(r'^"[^"]*"$', x) for x in parts):
                    return ("match", tgt, S('/%s/' % "".join(x.strip('"') for x in parts)))
                return ("match", tgt, S('/<dynamic:%s>/' % "".join(parts)))
            return ("match", tgt, S('/%s/' % (rx.group(1).strip('"') if rx else op.arg)))
        if n == "defined":
            return ("defined", self.ev(ks[0], env) if ks else S("?"))
        if n == "undef":
            return S("undef")
        if n == "stringify" and len(ks) == 1:
            return self.ev(ks[0], env)
        if n == "cond_expr" and len(ks) == 3:
            c = self.ev(ks[0], env)
            return self.ite(c, self.ev(ks[1], env), self.ev(ks[2], env))
        if n in ("preinc", "postinc", "i_preinc", "i_postinc", "predec", "postdec", "i_predec", "i_postdec"):
            t = P.strip(ks[0])
            old = self.ev(t, env)
            new = old + (1 if "inc" in n else -1)
            if t.name == "padsv":
                env[padname(t)] = new
            return old if n.startswith(("post", "i_post")) else new
        if n == "sassign" and len(ks) == 2:
            return self.assign(ks[1], self.ev(ks[0], env), env, op)
        if n == "entersub":
            return self.call(op, env)
        if n in ("scalar", "null", "ex-list", "list", "scope", "leave", "lineseq") and ks:
            v = None
            for k in ks:
                v = self.ev(k, env)
            return v
        if n in ("multiconcat", "concat", "join", "sprintf"):
            return S("<string@%d>" % self.line)
        return S("<%s:%s@%d>" % (n, op.arg or "", self.line))

    # ------------------------------------------------------------------ assignments / stores
    def target(self, t, env):
        """('scalar', name) / ('elem', array, index) / None"""
        t = P.strip(t)
        if t.name in ("padsv", "padsv_store"):
            return ("scalar", padname(t))
        if t.name == "multideref":
            m = re.match(r"^\$(\w+)\[(.*)\]$", t.arg or "")
            if m:
                return ("elem", "@" + m.group(1), self.idx_value(m.group(2), env))
            m = re.match(r"^\$(\w+)->\[(.*)\]$", t.arg or "")
            if m and str(env.get("$" + m.group(1), "")).startswith("@"):
                return ("elem", str(env["$" + m.group(1)]), self.idx_value(m.group(2), env))
        if t.name in ("aelem", "ex-aelem"):
            ks = self.kids(t)
            if len(ks) >= 1 and P.strip(ks[0]).name in ("aelemfast", "aelemfast_lex"):
                return self.target(P.strip(ks[0]), env)
            if len(ks) == 1:
                return self.target(ks[0], env)
            if len(ks) >= 2:
                v = self.ev_plain(t, env)
                if str(getattr(v, "func", "")) == "elem":
                    return ("elem", str(v.args[0]), v.args[1])
        if t.name in ("aelemfast", "aelemfast_lex"):
            v = self.ev_plain(t, env)
            return ("elem", str(v.args[0]), v.args[1])
        return None

    def assign(self, tgt_op, val, env, node, op="="):
        tg = self.target(tgt_op, env)
        if tg is None:
            return val
        if tg[0] == "scalar":
            if not self.loop_stack and self.depth == 0 and re.search(r"@ARGV|call_|<\w", str(val)):
                self.inputs = getattr(self, "inputs", {})
                self.inputs[tg[1]] = val
                val = S(tg[1])          # a script input (command line, file contents): stays a named atom
            env[tg[1]] = val
            return val
        if self.loop_stack:
            self.loop_stores = getattr(self, "loop_stores", {})
            for lid_ in self.loop_stack:
                self.loop_stores.setdefault(lid_, set()).add(tg[1])
        self.event({"kind": "store", "target": "%s[%s]" % (tg[1], tg[2]), "array": tg[1], "idx": [tg[2]], "value": val, "node": node, "line": self.line, "op": op,
                    "loop": self.loop_stack[-1] if self.loop_stack else None}, None)
        return val

    # ------------------------------------------------------------------ calls
    def call(self, op, env):
        gvs = [k for k in P.walk(op) if k.name == "gv"]
        name = (gvs[-1].arg or "").lstrip("*") if gvs else "?"
        name = name.split("::")[-1]
        argops = [k for k in self.kids(P.strip(op) if P.strip(op) is not op else op)]
        # the callee (rv2cv/gv) is the last child
        flat = []

        def rec(o):
            for k in o.kids:
                if k.name in NOISE:
                    continue
                if k.name in ("ex-list", "list", "null") and not (k.name == "null" and any(x.name == "gv" for x in P.walk(k))):
                    rec(k)
                elif any(x is gvs[-1] for x in P.walk(k)) if gvs else False:
                    continue
                else:
                    flat.append(k)
        rec(op)
        vals, names = [], []
        for a in flat:
            a2 = P.strip(a)
            refd = [x for x in P.walk(a2) if x.name in ("padav", "ex-padav")] if a2.name in ("srefgen", "refgen") else []
            if a2.name in ("padav", "ex-padav") or len(refd) == 1:
                nm_ = padname(a2 if not refd else refd[0])
                names.append(nm_)
                vals.append(S(nm_))
            else:
                names.append(None)
                vals.append(self.ev(a, env))
        if name in self.subs and self.depth < 3:
            return self.inline_sub(name, vals, env, op)
        v = Fn("call_" + name)(*[self.scalarize(x) for x in vals]) if vals else S("call_%s()" % name)
        self.event({"kind": "call", "callee": name, "args": vals, "arg_names": names, "node": op, "line": self.line, "value": v}, None)
        return v

    def inline_sub(self, name, vals, env, node):
        self.inlined_subs = getattr(self, "inlined_subs", [])
        self.inlined_subs.append((name, list(vals)))
        sub = env.copy()
        saved = (self.returns, self.return_envs, self.loop_marks, self.pending, self.args, self.loop_stack)
        self.returns, self.return_envs, self.loop_marks, self.pending, self.args, self.loop_stack = [], [], [], [], list(vals), list(self.loop_stack)
        n_exits = len(self.exits)
        self.depth += 1
        mark = len(self.guards)
        fell, last = True, None
        try:
            last = self.block(self.subs[name], sub)
        except Terminated:
            fell = False
        rets, renvs = self.returns, self.return_envs
        self.returns, self.return_envs, self.loop_marks, self.pending, self.args, self.loop_stack = saved
        self.exits = self.exits[:n_exits] + [x for x in self.exits[n_exits:] if x[0] == "throw"]
        self.depth -= 1
        del self.guards[mark:]
        seq = [(v, gds) for (v, gds, _s) in rets]
        if fell:
            seq.append((last if last is not None else S("undef"), None))
        if not seq:
            raise Terminated()
        val = seq[-1][0]
        for v, gds in reversed(seq[:-1]):
            cond = None
            for c, pol, _n in gds[mark:]:
                t = c if pol else ("!", c)
                cond = t if cond is None else ("&&", cond, t)
            val = v if cond is None else (v if self.same(v, val) else self.ite(cond, v, val))
        return val

    # ------------------------------------------------------------------ statements
    def block(self, op, env):
        """run the statements below op in order; returns the value of the last expression statement"""
        last = None
        mark = len(self.guards)
        try:
            for k in op.kids:
                if k.name in ("nextstate", "dbstate"):
                    m = re.search(r":(\d+)\)?$", k.arg or "")
                    if m:
                        self.line = int(m.group(1))
                    continue
                if k.name in NOISE:
                    continue
                last = self.stmt(k, env)
        finally:
            del self.guards[mark:]
        return last

    def stmt(self, op, env):
        n = op.name
        if n in ("lineseq", "leave", "scope", "leavesub", "ex-leavesub") or (n in ("null",) and len(self.kids(op)) != 1) or n == "root":
            return self.block(op, env)
        if n == "null" or n.startswith("ex-") and n not in ("ex-aelem",) and len(self.kids(op)) == 1:
            ks = self.kids(op)
            return self.stmt(ks[0], env) if ks else None
        if n in ("and", "or") and len(op.kids) == 2:
            return self.do_andor(op, env)
        if n == "cond_expr":
            return self.do_cond(op, env)
        if n == "leaveloop":
            return self.do_loop(op, env)
        if n == "next":
            if self.loop_marks:
                self.pending.append((self.loop_marks[-1], list(self.guards), env.copy()))
                self.exits.append(("continue", self.loop_marks[-1], list(self.guards)))
            raise LoopContinue()
        if n == "last":
            raise LoopBreak()
        if n == "return":
            ks = self.kids(op)
            v = self.ev(ks[-1], env) if ks else S("undef")
            self.returns.append((v, list(self.guards), op))
            self.return_envs.append(env.copy())
            if self.depth == 0:
                self.event({"kind": "return", "value": v, "node": op}, None)
            self.exits.append(("return", None, list(self.guards)))
            raise SubReturn()
        if n in ("die", "exit"):
            self.event({"kind": "throw", "node": op, "line": self.line}, None)
            self.exits.append(("throw", None, list(self.guards)))
            raise Terminated()
        if n == "aassign":
            return self.do_aassign(op, env)
        if n in BIN and "S" in op.flags.split("/")[0].replace("K", "").replace("v", "") and len(self.kids(op)) == 2 and self.target(self.kids(op)[0], env) is not None \
                and "TARGMY" not in op.flags and re.search(r"S", op.flags.split("/")[0]):
            # op-assign:  $a[$i] -= $z ;  $x += 1
            ks = self.kids(op)
            cur = self.ev(ks[0], env)
            rhs = self.ev(ks[1], env)
            val = {"+": cur + rhs, "-": cur - rhs, "*": cur * rhs, "/": cur / rhs, "**": cur ** rhs}[BIN[n]]
            return self.assign(ks[0], val, env, op, BIN[n] + "=")
        return self.ev(op, env)

    def merge(self, c, env, e1, e2, t1, t2, node):
        if t1 and t2:
            raise Terminated()
        if t1:
            env.clear(); env.update(e2)
            self.guards.append((c, False, node))
            return
        if t2:
            env.clear(); env.update(e1)
            self.guards.append((c, True, node))
            return
        for key in set(e1) | set(e2):
            a, b = e1.get(key), e2.get(key)
            if a is None or b is None:
                env[key] = a if a is not None else b
            elif self.same(a, b):
                env[key] = a
            else:
                env[key] = self.ite(c, a, b)

    def branch(self, c, pol, body, env, node):
        e = env.copy()
        mark = len(self.guards)
        self.guards.append((c, pol, node))
        term = False
        exc = None
        try:
            self.stmt(body, e)
        except Terminated as ex:
            term = True
            exc = ex
        del self.guards[mark:]
        return e, term, exc

    def do_andor(self, op, env):
        c = self.ev(op.kids[0], env)
        pol = op.name == "and"
        e1, t1, exc = self.branch(c, pol, op.kids[1], env, op)
        e2 = env.copy()
        if pol:
            self.merge(c, env, e1, e2, t1, False, op)
        else:
            self.merge(c, env, e2, e1, False, t1, op)
        return None

    def do_cond(self, op, env):
        ks = op.kids
        c = self.ev(ks[0], env)
        e1, t1, _ = self.branch(c, True, ks[1], env, op)
        if len(ks) > 2:
            e2, t2, _ = self.branch(c, False, ks[2], env, op)
        else:
            e2, t2 = env.copy(), False
        self.merge(c, env, e1, e2, t1, t2, op)
        return None

    def do_aassign(self, op, env):
        ks = [k for k in op.kids]
        if len(ks) < 2:
            return None
        rhs_ops = [k for k in ks[0].kids if k.name not in NOISE]
        lhs_ops = [k for k in ks[1].kids if k.name not in NOISE]
        rvals = []
        for r in rhs_ops:
            r2 = P.strip(r)
            if r2.name in ("rv2av", "ex-rv2av") and any(x.name == "gv" and (x.arg or "") == "*_" for x in P.walk(r2)):
                rvals += list(self.args or [])
                if self.args is None:
                    rvals.append(S("@_"))
            else:
                rvals.append(self.ev(r, env))
        for i, l in enumerate(lhs_ops):
            l2 = P.strip(l)
            if l2.name == "padsv":
                env[padname(l2)] = rvals[i] if i < len(rvals) else S("undef")
        # @a = @b : a whole-array copy; elements of @a that are not stored afterwards keep the elements of @b
        if len(lhs_ops) == 1 and len(rhs_ops) == 1 and P.strip(lhs_ops[0]).name == "padav" and P.strip(rhs_ops[0]).name == "padav":
            self.array_copies = getattr(self, "array_copies", {})
            if not self.loop_stack and self.depth == 0:
                if not any(e_.get("array") == padname(P.strip(lhs_ops[0])) for e_ in self.events):      # nothing stored into it before the copy
                    self.array_copies[padname(P.strip(lhs_ops[0]))] = padname(P.strip(rhs_ops[0]))
        return None

    def assigned_scalars(self, op):
        out = set()
        for k in P.walk(op):
            if k.name == "sassign" and len(k.kids) == 2:
                t = P.strip(k.kids[1])
                if t.name == "padsv":
                    out.add(padname(t))
            elif k.name == "padsv_store":
                out.add(padname(k))
            elif "TARGMY" in k.flags and (k.arg or "").startswith("$"):
                out.add(padname(k))
            elif k.name in ("preinc", "postinc", "predec", "postdec", "i_preinc", "i_postinc", "i_predec", "i_postdec") and k.kids:
                t = P.strip(k.kids[0])
                if t.name == "padsv":
                    out.add(padname(t))
            elif k.name in BIN and k.kids and re.search(r"S", k.flags.split("/")[0]):
                t = P.strip(k.kids[0])
                if t.name == "padsv":
                    out.add(padname(t))
        return out

    def do_loop(self, op, env):
        self.loop_id += 1
        heads = [k for k in op.kids if k.name in ("enteriter", "enterloop")]
        head = heads[0] if heads else op.kids[0]
        lid = "L%d#%d" % (self.line, self.loop_id)
        desc = {"id": lid, "line": self.line, "kind": head.name}
        body_and = [k for k in P.walk(op) if k.name == "and" and k.kids and (P.strip(k.kids[0]).name == "iter" or k.parent is not None and k.parent.parent is op or k.parent is op)]
        andop = None
        for k in [k_ for k_ in op.kids if k_ is not head]:
            for x in P.walk(k):
                if x.name == "and":
                    andop = x
                    break
            if andop:
                break
        if andop is None:
            return self.block(op, env)       # bare block
        carried = self.assigned_scalars(op)
        if head.name == "enteriter":
            var = padname(head) if (head.arg or "").startswith("$") else "$_"
            rng = [k for k in head.kids if k.name not in NOISE]
            items = []
            for r in rng:
                for x in ([k for k in r.kids if k.name not in NOISE] if r.name in ("ex-list", "list") else [r]):
                    items.append(x)
            desc["var"] = var
            # the iterated list as segments: ("range", lo, hi, reversed) | ("item", value); `reverse` applies to the list it wraps only
            def seg_of(x, rev):
                x0 = x
                while x0.name in ("null", "ex-list", "list", "ex-reverse", "flop", "flip") and len([k for k in x0.kids if k.name not in NOISE]) == 1:
                    x0 = [k for k in x0.kids if k.name not in NOISE][0]
                if x0.name == "range":
                    ks_ = [k for k in x0.kids if k.name not in NOISE]
                    if len(ks_) == 2:
                        return [("range", self.ev(ks_[0], env), self.ev(ks_[1], env), rev)]
                if x0.name == "reverse":
                    inner_ = []
                    for k in [k for k in x0.kids if k.name not in NOISE]:
                        inner_ += seg_of(k, not rev)
                    return inner_[::-1]
                if x0.name in ("ex-list", "list"):
                    inner_ = []
                    for k in [k for k in x0.kids if k.name not in NOISE]:
                        inner_ += seg_of(k, rev)
                    return inner_[::-1] if rev else inner_
                return [("item", self.ev(x, env), P.strip(x).name in ("padav", "rv2av", "ex-padav"), rev)]
            segs = []
            for x in items:
                segs += seg_of(x, False)
            if "S" in head.flags.split("/")[0] and len(segs) == 2 and all(sg[0] == "item" and not sg[2] for sg in segs):
                segs = [("range", segs[0][1], segs[1][1], False)]         # foreach (a..b): the optimiser leaves the two bounds, OPf_STACKED set
            if "REVERSED" in head.flags:
                segs = [(sg[0],) + tuple(sg[1:-1]) + (not sg[-1],) for sg in segs][::-1]
            desc["segments"] = segs
            if len(segs) == 1 and segs[0][0] == "range":
                desc["items"] = [segs[0][1], segs[0][2]]
                desc["range"] = True
                desc["reversed"] = segs[0][3]
            elif any(sg[0] == "range" for sg in segs):
                desc["items"] = None                      # several pieces: clients must read desc["segments"]
                desc["range"] = False
                desc["reversed"] = False
            else:
                desc["items"] = [sg[1] for sg in segs]
                desc["range"] = False
                desc["reversed"] = any(sg[-1] for sg in segs)
            carried.add(var)
            cond = None
        else:
            desc["var"] = None
            cond_op = andop.kids[0]
        start = {}
        for name in carried:
            old = env.get(name, S(name))
            a = S("%s@%s" % (name, lid))
            start[name] = (old, a)
            env[name] = a
        desc["init"] = {nm: old for nm, (old, a) in start.items()}
        if head.name == "enteriter":
            desc["sym"] = env[desc["var"]]
            desc["syms"] = {nm: a for nm, (old, a) in start.items()}
        else:
            cond = self.ev(cond_op, env)
            desc["cond"] = cond
            desc["syms"] = {nm: a for nm, (old, a) in start.items()}
        self.loops.append(desc)
        benv = env.copy()
        mark = len(self.guards)
        self.guards.append((("loop", lid, cond), True, op))
        self.loop_stack.append(lid)
        self.begin_loop()
        body = andop.kids[1]
        tail = []
        if head.name == "enterloop" and body.name == "lineseq":
            # for (init; cond; incr): `next` jumps to the increment, which follows the body block inside the same lineseq
            bk = [k for k in body.kids if k.name not in NOISE]
            if len(bk) >= 2 and bk[0].name in ("leave", "scope", "null"):
                body, tail = bk[0], bk[1:]
        try:
            self.stmt(body, benv)
        except Terminated:
            pass
        self.end_loop(benv)
        for t_ in tail:
            try:
                self.stmt(t_, benv)
            except Terminated:
                pass
        self.loop_stack.pop()
        if getattr(self, "array_versions", False) and not self.loop_stack:
            self.aver = getattr(self, "aver", {})
            for arr_ in getattr(self, "loop_stores", {}).get(lid, ()):
                self.aver[arr_] = self.aver.get(arr_, 0) + 1
        del self.guards[mark:]
        desc["step"] = {nm: benv.get(nm) for nm in carried if nm in benv}
        desc["after"] = {}
        for name, (old, a) in start.items():
            new = benv.get(name)
            if not (new is None or new == a):
                desc["after"][name] = S(name) if not self.loop_stack and self.depth == 0 else S("%s_after_%s" % (name, lid))
            env[name] = old if (new is None or new == a) else (S(name) if not self.loop_stack and self.depth == 0 else S("%s_after_%s" % (name, lid)))
        return None

    # ------------------------------------------------------------------ entry
    def run(self, env=None):
        env = env if env is not None else Env()
        self.fell_through = True
        try:
            self.block(self.main, env)
        except Terminated:
            self.fell_through = False
        self.final_env = env
        return self


def inner(e, lid=None):
    """the event seen from inside its (innermost or given) loop: guards after the loop marker, exits taken inside the loop"""
    if lid is None:
        own = [g[0][1] for g in e["guards"] if isinstance(g[0], tuple) and g[0] and g[0][0] == "loop"]
        lid = own[-1] if own else None

    def cut(gl):
        ix = [i for i, g in enumerate(gl) if isinstance(g[0], tuple) and g[0] and g[0][0] == "loop" and g[0][1] == lid]
        return gl[ix[-1] + 1:] if ix else None
    g = cut(e["guards"]) if lid is not None else None
    out = dict(e)
    out["guards"] = g if g is not None else list(e["guards"])
    out["not"] = [c for c in (cut(x) for x in e.get("not", [])) if c is not None]
    return out
