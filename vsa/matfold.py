"""ALG extension: dynamic Eigen matrices as non-commutative terms, dynamic Eigen vectors element-wise.

Values of dynamic Eigen matrix / expression-template types are non-commutative sympy terms: named atoms for locals that
have no definition, `name(args)` applications for Eigen and project calls (transpose(A), eigenvectors(M), y(B), ...).
Products keep their order, so  A^T A  and  A A^T  differ.  Locals of type VectorXd are element-wise values (vecfold.EVec);
when such a vector enters matrix algebra (v.asDiagonal(), M * v) it is represented by a registered atom `vec#k`."""
import re
import sympy as sp
from .alg import S, F, Fold, is_vec3, is_mat3
from .vecfold import VecFold, EVec, K, VEC_RX
from .facts import unwrap, show

DYNVEC_RX = re.compile(r"^(const )?Eigen::Matrix<double, -1, 1(, 0)?(, -1, 1)?>( &)?$")
NC_RX = re.compile(r"Eigen::")


def NCF(name):
    return sp.Function(name, commutative=False)


def NCS(name):
    return sp.Symbol(name, commutative=False)


def is_nc_type(t):
    return bool(t) and bool(NC_RX.search(t)) and not is_vec3(t) and not is_mat3(t) and "vector<" not in t


class MatFold(VecFold):
    def __init__(self, func, **kw):
        super().__init__(func, **kw)
        self.vecs = {}

    def is_vec_type(self, t):
        return bool(t) and (bool(VEC_RX.match(t.strip())) or bool(DYNVEC_RX.match(t.strip())))

    def vecsym(self, v):
        for nm, e in self.vecs.items():
            if e.e == v.e:
                return NCS(nm)
        nm = "vec#%d" % (len(self.vecs) + 1)
        self.vecs[nm] = v
        return NCS(nm)

    def scalarize(self, v):
        if isinstance(v, EVec):
            return self.vecsym(v)
        return super().scalarize(v)

    def devec(self, e):
        """replace registered vector atoms that are plain views of a matrix-algebra value (element k of X) by X itself"""
        rep_ = {}
        for nm, v in self.vecs.items():
            x = v.e
            if str(getattr(x, "func", "")) == "at" and len(x.args) == 2 and x.args[1] == K and getattr(x.args[0], "is_commutative", True) is False:
                rep_[NCS(nm)] = x.args[0]
        return e.xreplace(rep_) if rep_ and hasattr(e, "xreplace") else e

    def atom_for(self, n, env):
        t = n.get("type") or ""
        if is_nc_type(t):
            if self.atom_hook:
                v = self.atom_hook(self, n, env)
                if v is not NotImplemented:
                    return v
            return NCS(show(n))
        return super().atom_for(n, env)

    def arith(self, op, a, b):
        if isinstance(a, EVec):
            a = self.vecsym(a)
        if isinstance(b, EVec):
            b = self.vecsym(b)
        return super().arith(op, a, b)

    def ev_construct(self, n, env):
        t = n.get("type") or ""
        if "EigenSolver" in t and len(n.get("args", [])) >= 1:
            return NCF("eigensolver")(self.scalarize(self.ev(n["args"][0], env)))
        return super().ev_construct(n, env)

    def builtin(self, n, callee, k, obj, args, env):
        short = callee.split("::")[-1]
        t = n.get("type") or ""
        if "Eigen::" in callee and short in ("Zero", "Ones", "Constant") and re.search(r"Matrix<double, -1, 1", t):
            if short == "Zero":
                return EVec(sp.Integer(0))
            if short == "Ones":
                return EVec(sp.Integer(1))
            if short == "Constant" and len(args) == 2 and not isinstance(args[1], (tuple, sp.Matrix, EVec)):
                return EVec(args[1])
        if k == "opcall" and n.get("op") in ("[]", "()") and len(args) == 2 and not isinstance(args[0], (sp.Matrix, EVec, tuple)) \
                and getattr(args[0], "is_commutative", True) is False:
            return F("at")(args[0], self.scalarize(args[1]))
        if k == "opcall" and n.get("op") == "-" and len(args) == 1:
            return -self.scalarize(args[0]) if isinstance(args[0], EVec) else -args[0]
        if is_nc_type(t) or (obj is not None and getattr(obj, "is_commutative", True) is False and k == "mcall" and is_nc_type(t)):
            # Eigen call producing a matrix / expression: a non-commutative application, arguments in order
            if k == "opcall":
                return super().builtin(n, callee, k, obj, args, env)
            parts = []
            if obj is not None:
                parts.append(self.scalarize(obj))
            parts += [self.scalarize(a) for a in args]
            if short in ("eval", "derived", "matrix", "array", "noalias") and len(parts) == 1:
                return parts[0]
            return NCF(short)(*parts) if parts else NCS(short + "()")
        return super().builtin(n, callee, k, obj, args, env)

    def do_call(self, n, env):
        # methods of an element-wise vector local that produce matrix-algebra values
        if n["k"] == "mcall":
            d = self.vec_decl_of(n.get("obj"), env)
            short = (n.get("callee") or "").split("::")[-1]
            if d is not None and short in ("asDiagonal", "transpose", "array", "matrix", "cwiseAbs", "sum", "norm", "squaredNorm", "minCoeff", "maxCoeff", "eval"):
                args = [self.scalarize(self.ev(a, env)) for a in n.get("args", [])]
                t = n.get("type") or ""
                fn = NCF(short) if is_nc_type(t) else F(short)
                return fn(self.vecsym(env[d]), *args)
        return super().do_call(n, env)


def nc_factors(e):
    """(scalar coefficient, [ordered non-commutative factors]) of a product"""
    e = sp.expand(e) if isinstance(e, sp.Add) else e
    if isinstance(e, sp.Mul):
        c, nc = e.args_cnc()
        return sp.Mul(*c), list(nc)
    if getattr(e, "is_commutative", True) is False:
        return sp.Integer(1), [e]
    return e, []


def nc_is_zero(e):
    """exact zero test for sum_k c_k * (ordered non-commutative monomial_k) with commutative rational coefficients"""
    e = sp.expand(e)
    if e == 0:
        return True
    groups = {}
    for t in (e.args if isinstance(e, sp.Add) else [e]):
        c, nc = t.args_cnc() if hasattr(t, "args_cnc") else ([t], [])
        key = tuple(str(x) for x in nc)
        groups[key] = groups.get(key, 0) + sp.Mul(*c)
    return all(sp.simplify(sp.together(c)) == 0 for c in groups.values())
