"""RANGE: interval analysis with one symbolic size N (N >= nmin) over the clang CFG.
Bounds are k*N + c with integer k, c or +-infinity."""
from .cfg import CFG
from .facts import unwrap, show, lit_value
from .front import AnalysisBroken

INF = "inf"
NINF = "-inf"


class Dom:
    """comparison of linear bounds for all N >= nmin"""

    def __init__(self, nmin=1):
        self.nmin = nmin

    def le(self, a, b):
        """a <= b for all N >= nmin"""
        if a == NINF or b == INF:
            return True
        if a == INF or b == NINF:
            return False
        k, c = a[0] - b[0], a[1] - b[1]
        if k == 0:
            return c <= 0
        if k < 0:
            return k * self.nmin + c <= 0
        return False

    def add(self, a, b):
        if a in (INF, NINF):
            return a
        if b in (INF, NINF):
            return b
        return (a[0] + b[0], a[1] + b[1])

    def neg(self, a):
        if a == INF:
            return NINF
        if a == NINF:
            return INF
        return (-a[0], -a[1])

    def bmin(self, a, b, prefer_tight=True):
        """greatest provable lower of the two (for intersecting upper bounds)"""
        if self.le(a, b):
            return a
        if self.le(b, a):
            return b
        return a

    def lo_join(self, a, b):
        if self.le(a, b):
            return a
        if self.le(b, a):
            return b
        if a not in (INF, NINF) and b not in (INF, NINF) and a[0] >= 0 and b[0] >= 0:
            # incomparable for some N: k*N + c >= k*nmin + c for k >= 0, a constant lower bound is sound
            return (0, min(a[0] * self.nmin + a[1], b[0] * self.nmin + b[1]))
        return NINF

    def hi_join(self, a, b):
        if self.le(a, b):
            return b
        if self.le(b, a):
            return a
        if a not in (INF, NINF) and b not in (INF, NINF):
            # lift both to the larger coefficient of N: ka*N + ca <= k*N + ca - (k-ka)*nmin for N >= nmin
            k = max(a[0], b[0])
            return (k, max(a[1] - (k - a[0]) * self.nmin, b[1] - (k - b[0]) * self.nmin))
        return INF


TOP = (NINF, INF)


def const(c):
    return ((0, c), (0, c))


def fmt_b(b):
    if b in (INF, NINF):
        return b
    k, c = b
    if k == 0:
        return str(c)
    s = "N" if k == 1 else "%d*N" % k
    if c > 0:
        s += "+%d" % c
    elif c < 0:
        s += "%d" % c
    return s


def fmt(iv):
    return "[%s, %s]" % (fmt_b(iv[0]), fmt_b(iv[1]))


class Range:
    """
    func: facts.Func; is_size(node) -> True if the expression denotes the symbolic size N.
    After run(), value_at(node) gives the interval of an integer expression at its program point.
    """

    def __init__(self, func, is_size, nmin=1, param_init=None, depth=0):
        self.param_init = param_init or {}
        self.depth = depth
        self._summaries = {}
        self.f = func
        self.cfg = CFG(func)
        self.is_size = is_size
        self.D = Dom(nmin)
        self.at = {}      # node id -> joined interval of the expression at that point
        self.float_casts = []

    # ---- expression evaluation ----------------------------------------------------------
    def ev(self, n, st):
        D = self.D
        n = unwrap(n)
        if n is None:
            return TOP
        if self.is_size(n):
            return ((1, 0), (1, 0))
        k = n.get("k")
        if k == "int":
            return const(int(n["v"]))
        if k == "ref":
            if n.get("dk") in ("local", "param") and n.get("decl") in st:
                return st[n["decl"]]
            if n.get("cval") not in (None, "?"):
                try:
                    return const(int(n["cval"]))
                except ValueError:
                    return TOP
            return TOP
        if k == "cast":
            t = n.get("type", "")
            sub = unwrap(n["sub"])
            if n.get("ck") in ("FloatingToIntegral",):
                return TOP
            if "double" in (sub.get("type") or "") or "float" in (sub.get("type") or ""):
                return TOP
            return self.ev(sub, st)
        if k == "unop":
            v = self.ev(n["sub"], st)
            if n["op"] == "-":
                return (D.neg(v[1]), D.neg(v[0]))
            if n["op"] == "+":
                return v
            if n["op"] in ("++", "--"):
                d = 1 if n["op"] == "++" else -1
                if n.get("postfix"):
                    return v
                return (D.add(v[0], (0, d)), D.add(v[1], (0, d)))
            return TOP
        if k == "binop":
            op = n["op"]
            a, b = self.ev(n["lhs"], st), self.ev(n["rhs"], st)
            if op == "+":
                return (D.add(a[0], b[0]), D.add(a[1], b[1]))
            if op == "-":
                return (D.add(a[0], D.neg(b[1])), D.add(a[1], D.neg(b[0])))
            if op == "%":
                return self.mod(a, b)
            if op == "*":
                if a[0] == a[1] and b[0] == b[1] and a[0] not in (INF, NINF) and b[0] not in (INF, NINF):
                    if a[0][0] == 0:
                        return ((a[0][1] * b[0][0], a[0][1] * b[0][1]),) * 2
                    if b[0][0] == 0:
                        return ((b[0][1] * a[0][0], b[0][1] * a[0][1]),) * 2
                return TOP
            return TOP
        if k == "cond":
            cn = self.f.nodes.get(n["cond"]) if not isinstance(n.get("cond"), dict) else n["cond"]
            st_t = self.refine(st, cn, True) if cn is not None else st
            st_e = self.refine(st, cn, False) if cn is not None else st
            if st_t is None and st_e is None:
                st_t = st_e = st
            if st_t is None:
                return self.ev(n["else"], st_e)
            if st_e is None:
                return self.ev(n["then"], st_t)
            a, b = self.ev(n["then"], st_t), self.ev(n["else"], st_e)
            return (D.lo_join(a[0], b[0]), D.hi_join(a[1], b[1]))
        if k == "assign":
            return self.assigned_value(n, st)
        if k == "call":
            return self.call_summary(n, st)
        return TOP

    def call_summary(self, n, st):
        """interval of the value returned by a local helper (internal linkage, same file), analysed with the argument intervals"""
        facts = getattr(self.f, "facts", None)
        if facts is None or self.depth >= 2:
            return TOP
        q = n.get("callee") or ""
        cands = [g for g in facts.find(q) if g.j.get("body") and g.j.get("internal") and g.file == self.f.file
                 and g.j.get("template") != "pattern" and len(g.j.get("params", [])) == len(n.get("args", [])) and g is not self.f]
        if len(cands) != 1 or not cands[0].j.get("cfg"):
            return TOP
        g = cands[0]
        args = [self.ev(a, st) for a in n["args"]]
        sizes = frozenset(p["decl"] for p, a in zip(g.j["params"], n["args"]) if self.is_size(unwrap(a)))
        key = (g.qname, tuple(args), sizes)
        if key not in self._summaries:
            from .facts import walk
            written = {unwrap(x["lhs"]).get("decl") for x in walk(g.j["body"]) if x.get("k") == "assign"} | \
                      {unwrap(x["sub"]).get("decl") for x in walk(g.j["body"]) if x.get("k") == "unop" and x["op"] in ("++", "--")}
            szs = {d for d in sizes if d not in written}
            sub = Range(g, lambda x, szs=szs: x.get("k") == "ref" and x.get("decl") in szs, nmin=self.D.nmin,
                        param_init={p["decl"]: a for p, a in zip(g.j["params"], args)}, depth=self.depth + 1).run()
            out = None
            for r in walk(g.j["body"]):
                if r.get("k") == "return" and r.get("value") is not None:
                    vid = unwrap(r["value"])["id"]
                    if vid in sub.reached or r["id"] in sub.reached:
                        v = sub.at.get(vid, TOP)
                        out = v if out is None else (self.D.lo_join(out[0], v[0]), self.D.hi_join(out[1], v[1]))
            self._summaries[key] = out if out is not None else TOP
        return self._summaries[key]

    def mod(self, a, b):
        """C++ truncated remainder a % b, for b > 0"""
        D = self.D
        if not D.le((0, 1), b[0]):
            return TOP          # divisor not provably positive
        m_hi = D.add(b[1], (0, -1))          # |result| <= b-1
        if D.le((0, 0), a[0]):               # a >= 0  ->  [0, min(a.hi, b-1)]
            hi = m_hi
            if D.le(a[1], m_hi):
                hi = a[1]
            return ((0, 0), hi)
        if D.le(a[1], (0, 0)):               # a <= 0  ->  [-(b-1), 0]
            return (D.neg(m_hi), (0, 0))
        return (D.neg(m_hi), m_hi)

    def assigned_value(self, n, st):
        D = self.D
        op = n["op"]
        r = self.ev(n["rhs"], st)
        if op == "=":
            return r
        l = self.ev(n["lhs"], st)
        if op == "+=":
            return (D.add(l[0], r[0]), D.add(l[1], r[1]))
        if op == "-=":
            return (D.add(l[0], D.neg(r[1])), D.add(l[1], D.neg(r[0])))
        if op == "%=":
            return self.mod(l, r)
        return TOP

    # ---- transfer -----------------------------------------------------------------------
    def transfer(self, st, e, b):
        if not isinstance(e, int):
            return st
        n = self.f.nodes.get(e)
        if n is None:
            return st
        k = n.get("k")
        # record value of every integer-valued expression node at this point (joined over visits)
        if k in ("ref", "binop", "unop", "cast", "int", "cond", "mcall", "member", "call", "opcall"):
            v = self.ev(n, st)
            old = self.at.get(e)
            self.at[e] = v if old is None else (self.D.lo_join(old[0], v[0]), self.D.hi_join(old[1], v[1]))
        if k == "decl":
            st2 = dict(st)
            for d in n["decls"]:
                if d.get("init") is not None:
                    st2[d["decl"]] = self.ev(d["init"], st)
                    i0 = unwrap(d["init"])
                    if d.get("type") in ("bool", "const bool") and i0.get("k") in ("binop", "unop"):
                        st2[("b", d["decl"])] = i0["id"]     # boolean local defined by a condition
                else:
                    st2[d["decl"]] = TOP
            return st2
        if k == "assign":
            l = unwrap(n["lhs"])
            if l.get("k") == "ref" and l.get("dk") in ("local", "param"):
                st2 = dict(st)
                st2[l["decl"]] = self.assigned_value(n, st)
                self.kill_bools(st2, l["decl"])
                return st2
            return st
        if k == "unop" and n["op"] in ("++", "--"):
            l = unwrap(n["sub"])
            if l.get("k") == "ref" and l.get("dk") in ("local", "param") and l["decl"] in st:
                d = 1 if n["op"] == "++" else -1
                v = st[l["decl"]]
                st2 = dict(st)
                st2[l["decl"]] = (self.D.add(v[0], (0, d)), self.D.add(v[1], (0, d)))
                self.kill_bools(st2, l["decl"])
                return st2
            return st
        if k in ("call", "mcall", "opcall"):
            # a local passed by non-const reference / address may be modified: forget it
            st2 = None
            for a in n.get("args", []):
                a = unwrap(a)
                if a and a.get("k") == "unop" and a["op"] == "&":
                    a = unwrap(a["sub"])
                    if a.get("k") == "ref" and a.get("decl") in st:
                        st2 = st2 or dict(st)
                        st2[a["decl"]] = TOP
            return st2 or st
        return st

    def kill_bools(self, st, decl):
        from .facts import walk
        for key in [k for k in st if isinstance(k, tuple) and k[0] == "b"]:
            dn = self.f.nodes.get(st[key])
            if dn is None or any(x.get("k") == "ref" and x.get("decl") == decl for x in walk(dn)) or key[1] == decl:
                del st[key]

    # ---- edge refinement ------------------------------------------------------------------
    def refine(self, st, cond, truth):
        D = self.D
        cond = unwrap(cond)
        if cond is None:
            return st
        k = cond.get("k")
        if k == "unop" and cond["op"] == "!":
            return self.refine(st, cond["sub"], not truth)
        if k == "ref" and ("b", cond.get("decl")) in st:
            return self.refine(st, self.f.nodes.get(st[("b", cond["decl"])]), truth)
        if k == "binop" and cond["op"] in ("&&", "||"):
            # only reached for conditions the CFG did not split (should not happen); be conservative
            if (cond["op"] == "&&" and truth) or (cond["op"] == "||" and not truth):
                st = self.refine(st, cond["lhs"], truth)
                if st is None:
                    return None
                return self.refine(st, cond["rhs"], truth)
            return st
        if k != "binop" or cond["op"] not in ("<", "<=", ">", ">=", "==", "!="):
            return st
        op = cond["op"]
        if not truth:
            op = {"<": ">=", "<=": ">", ">": "<=", ">=": "<", "==": "!=", "!=": "=="}[op]
        l, r = unwrap(cond["lhs"]), unwrap(cond["rhs"])
        st2 = dict(st)
        for var, other, o in ((l, r, op), (r, l, {"<": ">", "<=": ">=", ">": "<", ">=": "<=", "==": "==", "!=": "!="}[op])):
            # look through integral casts on the variable side
            v = var
            while v.get("k") == "cast" and "double" not in (unwrap(v["sub"]).get("type") or ""):
                v = unwrap(v["sub"])
            if v.get("k") == "ref" and v.get("dk") in ("local", "param") and v.get("decl") in st2:
                cur = st2[v["decl"]]
                ov = self.ev(other, st)
                lo, hi = cur
                if o == "<":
                    nh = D.add(ov[1], (0, -1))
                    if D.le(nh, hi):
                        hi = nh
                elif o == "<=":
                    if D.le(ov[1], hi):
                        hi = ov[1]
                elif o == ">":
                    nl = D.add(ov[0], (0, 1))
                    if D.le(lo, nl):
                        lo = nl
                elif o == ">=":
                    if D.le(lo, ov[0]):
                        lo = ov[0]
                elif o == "==":
                    if D.le(lo, ov[0]):
                        lo = ov[0]
                    if D.le(ov[1], hi):
                        hi = ov[1]
                # infeasible edge?
                if lo not in (NINF, INF) and hi not in (NINF, INF) and D.le(D.add(hi, (0, 1)), lo):
                    return None
                st2[v["decl"]] = (lo, hi)
        return st2

    def edge(self, st, b, si, s):
        t = self.cfg.term(b)
        if not t or t.get("cond") is None:
            return st
        cls = t.get("class")
        if cls in ("IfStmt", "ForStmt", "WhileStmt", "DoStmt", "ConditionalOperator", "BinaryOperator"):
            if len(self.cfg.succs[b]) != 2:
                return st
            cond = self.f.nodes.get(t["cond"])
            return self.refine(st, cond, si == 0)
        return st

    def join(self, a, b):
        out = {}
        for k in a:
            if k in b:
                if isinstance(k, tuple):
                    if a[k] == b[k]:
                        out[k] = a[k]
                    continue
                out[k] = (self.D.lo_join(a[k][0], b[k][0]), self.D.hi_join(a[k][1], b[k][1]))
        return out

    def widen(self, old, new):
        out = {}
        for k in new:
            if isinstance(k, tuple):
                out[k] = new[k]
                continue
            if k in old:
                lo = old[k][0] if self.D.le(old[k][0], new[k][0]) else NINF
                hi = old[k][1] if self.D.le(new[k][1], old[k][1]) else INF
                out[k] = (lo, hi)
            else:
                out[k] = new[k]
        return out

    def run(self):
        init = {}
        for p in self.f.j.get("params", []):
            init[p["decl"]] = self.param_init.get(p["decl"], TOP)
        IN, OUT = self.cfg.forward(init, self.transfer, self.join, self.edge, widen=self.widen)
        IN = self.cfg.narrow(IN, self.transfer, self.join, self.edge, rounds=3)
        # final recording pass from the narrowed fixpoint
        self.at = {}
        self.reached = set()
        for b in self.cfg.rpo():
            if b not in IN:
                continue
            st = IN[b]
            for e in self.cfg.elems[b]:
                if isinstance(e, int):
                    self.reached.add(e)
                st = self.transfer(st, e, b)
        return self

    def value_at(self, node):
        i = unwrap(node)["id"]
        return self.at.get(i)

    def in_range(self, iv, lo=(0, 0), hi=(1, -1)):
        """lo <= iv <= hi for all N >= nmin"""
        return self.D.le(lo, iv[0]) and self.D.le(iv[1], hi)
