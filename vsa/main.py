import sys, os, argparse, importlib, json, traceback
from .front import AnalysisBroken
from .report import Report

def main():
    ap = argparse.ArgumentParser()
    ap.add_argument("pid")
    ap.add_argument("--tier", default=os.environ.get("VERIF_TIER", "quick"))
    ap.add_argument("--replay", default=None)
    a = ap.parse_args()
    seed = int(os.environ.get("VERIF_SEED", "0") or 0)
    mod = importlib.import_module("rules." + a.pid)
    rep = Report(a.pid, a.tier, mod.LEVEL, seed)
    try:
        mod.run(rep, a.tier)
    except AnalysisBroken as e:
        rep.broken("engine", str(e))
    except Exception as e:
        traceback.print_exc()
        rep.broken("engine", "internal error: %r" % (e,))
    rc = rep.finish()
    if a.replay:
        r = json.load(open(a.replay))
        hit = [o for o in rep.obligations if o["rule"] == r["rule"] and o["key"] == r["instance_key"]]
        for o in hit:
            print("REPLAY %s %s -> %s: %s (%s)" % (o["rule"], o["key"], o["status"], o["detail"], o["loc"]))
        if not hit:
            print("REPLAY: instance %s of rule %s no longer located" % (r["instance_key"], r["rule"]))
    sys.exit(rc)

if __name__ == "__main__":
    sys.path.insert(0, os.path.dirname(os.path.dirname(os.path.abspath(__file__))))
    main()
