import sys, os, argparse, importlib, json, traceback
from .front import AnalysisBroken
from .report import Report

def main():
    ap = argparse.ArgumentParser()
    ap.add_argument("pid")
    ap.add_argument("--tier", default=os.environ.get("VERIF_TIER", "quick"))
    ap.add_argument("--replay", default=None)
    a = ap.parse_args()
    seed = int(os.environ.get("VERIF_SEED", "0") or 0)
    mod = importlib.import_module("rules." + a.pid)
    rep = Report(a.pid, a.tier, mod.LEVEL, seed)
    try:
        mod.run(rep, a.tier)
    except AnalysisBroken as e:
        rep.broken("engine", str(e))
    except Exception as e:
        traceback.print_exc()
        rep.broken("engine", "internal error: %r" % (e,))
    if a.tier == "thorough" and not rep.broken_msgs and not os.environ.get("VSA_REPO"):
        # armed-ness corpus: every one-instance mutant of this property must be reported, every benign twin must pass
        sys.path.insert(0, os.path.join(os.path.dirname(os.path.dirname(os.path.abspath(__file__))), "selftest"))
        import run as selftest
        muts = selftest.select({a.pid})
        res = selftest.run_many(muts, jobs=6)
        rep.rule("SELFTEST", "armed-ness: each seeded/one-instance mutant of the corpus is reported by its rule; each behaviour-preserving twin stays silent")
        for r in res:
            if r.get("stale"):
                rep.broken("SELFTEST", "mutant %s is stale: %s" % (r["name"], r.get("detail")))
            elif r["ok"]:
                rep.holds("SELFTEST", r["name"], "%s mutant -> rc %s %s" % (r.get("kind"), r.get("rc"), r.get("expect", "")), sample=(r.get("kind") == "break" and len(rep.samples) < 30))
            else:
                rep.broken("SELFTEST", "mutant %s (%s) gave rc %s, expected %s" % (r["name"], r.get("kind"), r.get("rc"), r.get("expect") or "rc 0"))
    if os.environ.get("VSA_REFGEN"):
        from . import align
        align.dump()
    rc = rep.finish()
    if a.replay:
        r = json.load(open(a.replay))
        hit = [o for o in rep.obligations if o["rule"] == r["rule"] and o["key"] == r["instance_key"]]
        for o in hit:
            print("REPLAY %s %s -> %s: %s (%s)" % (o["rule"], o["key"], o["status"], o["detail"], o["loc"]))
        if not hit:
            print("REPLAY: instance %s of rule %s no longer located" % (r["instance_key"], r["rule"]))
    sys.exit(rc)

if __name__ == "__main__":
    sys.path.insert(0, os.path.dirname(os.path.dirname(os.path.abspath(__file__))))
    main()
