"""Access layer over the JSON facts written by bin/vsa-export."""
import re
from .front import AnalysisBroken

CHILD_KEYS_SKIP = ("cfg",)


def walk(n):
    """pre-order over every node (dict with 'k') below n, n included"""
    if isinstance(n, dict):
        if "k" in n:
            yield n
        for key, v in n.items():
            if key in CHILD_KEYS_SKIP:
                continue
            if isinstance(v, (dict, list)):
                yield from walk(v)
    elif isinstance(n, list):
        for v in n:
            yield from walk(v)


def children(n):
    """direct child nodes (dicts with 'k') of n in source order"""
    out = []

    def rec(v):
        if isinstance(v, dict):
            if "k" in v:
                out.append(v)
            else:
                for x in v.values():
                    rec(x)
        elif isinstance(v, list):
            for x in v:
                rec(x)

    for key, v in n.items():
        if key in CHILD_KEYS_SKIP:
            continue
        rec(v)
    return out


def unwrap(n):
    """strip 'expr' statement wrappers"""
    while isinstance(n, dict) and n.get("k") == "expr":
        n = n["e"]
    return n


def _rename_locals(j, suffix):
    """robustness experiment (VSA_RENAME): consistently rename every local variable and parameter of a function"""
    def rec(n):
        if isinstance(n, dict):
            if n.get("k") == "ref" and n.get("dk") in ("local", "param", "staticlocal") and n.get("name"):
                n["name"] = n["name"] + suffix
            if "decl" in n and "name" in n and n.get("k") is None and isinstance(n.get("name"), str) and n["name"]:
                n["name"] = n["name"] + suffix
            for k, v in n.items():
                if k != "cfg":
                    rec(v)
        elif isinstance(n, list):
            for v in n:
                rec(v)
    rec(j.get("body"))
    for p in j.get("params", []):
        if p.get("name"):
            p["name"] = p["name"] + suffix
    for ci in j.get("ctor_inits", []) or []:
        rec(ci)


def rshow(func, node, decl=None, depth=0):
    """name-free rendering: parameters by position, locals by their (unique) definition"""
    pidx = {p["decl"]: i for i, p in enumerate(func.j.get("params", []))}
    defs = func.definitions()
    rng = func._rng

    def namer(n, depth=depth):
        d = n.get("decl")
        if d in pidx:
            return "P%d" % pidx[d]
        return "(%s)" % sig(d, depth + 1)

    def sig(d, depth):
        if depth > 5:
            return "L"
        if d in rng:
            return "each:" + show(rng[d], 0, lambda x: namer(x, depth))
        ds = defs.get(d, [])
        if len(ds) == 1 and ds[0] is not None:
            return "=" + show(ds[0], 0, lambda x: namer(x, depth))
        if not ds:
            return "undef"
        return "multi:" + "|".join(sorted(("upd" if x is None else show(x, 0, lambda y: "V")) for x in ds))
    if decl is not None:
        if decl in pidx:
            return "P%d" % pidx[decl]
        return sig(decl, depth)
    return show(node, 0, namer)


class Func:
    def __init__(self, j, unit):
        import os
        if os.environ.get("VSA_RENAME"):
            _rename_locals(j, os.environ["VSA_RENAME"])
        self.j = j
        self.unit = unit
        self.qname = j["qname"]
        self.file = j["file"]
        self.nodes = {}
        self.parent = {}
        self._index(j["body"], None)
        for ci in j.get("ctor_inits", []) or []:
            if ci.get("init"):
                self._index(ci["init"], None)
        self.decls = {}
        for p in j.get("params", []):
            self.decls[p["decl"]] = p
        for n in self.nodes.values():
            if n.get("k") == "decl":
                for d in n["decls"]:
                    self.decls[d["decl"]] = d
            elif n.get("k") == "rangefor" and n.get("var"):
                self.decls[n["var"]["decl"]] = n["var"]
        self._defs = None
        from . import align, front
        root = front.REPO.rstrip("/") + "/"
        if os.environ.get("VSA_REFGEN"):
            align.collect(self, root)
        else:
            try:
                if align.align(self, root):
                    self._defs = None
            except Exception:
                pass

    def _index(self, n, parent):
        if isinstance(n, dict):
            pid = parent
            if "k" in n and "id" in n:
                self.nodes[n["id"]] = n
                self.parent[n["id"]] = parent
                pid = n["id"]
            for key, v in n.items():
                if key == "cfg":
                    continue
                if isinstance(v, (dict, list)):
                    self._index(v, pid)
        elif isinstance(n, list):
            for v in n:
                self._index(v, parent)

    # ---- name-free signatures / renaming (see vsa/align.py) ---------------------------------
    def decl_order(self):
        out = []
        for i, p in enumerate(self.j.get("params", [])):
            q = dict(p)
            q["_param"] = True
            out.append((p["decl"], q))
        seen = {p["decl"] for p in self.j.get("params", [])}
        for n in walk(self.j["body"]):
            k = n.get("k")
            if k == "decl":
                for d in n["decls"]:
                    if d["decl"] not in seen:
                        seen.add(d["decl"]); out.append((d["decl"], d))
            elif k == "rangefor" and n.get("var") and n["var"]["decl"] not in seen:
                seen.add(n["var"]["decl"]); out.append((n["var"]["decl"], n["var"]))
            elif k == "lambda":
                for lp in n.get("params", []):
                    if lp["decl"] not in seen:
                        seen.add(lp["decl"]); out.append((lp["decl"], lp))
            elif k == "catch" and n.get("decl") is not None and n["decl"] not in seen:
                seen.add(n["decl"]); out.append((n["decl"], n))
        return out

    def definitions(self):
        """decl id -> list of defining expression nodes (decl init, assignments); None entries mark non-simple updates"""
        if getattr(self, "_defs", None) is None:
            defs = {}
            rng = {}
            for n in walk(self.j["body"]):
                k = n.get("k")
                if k == "decl":
                    for d in n["decls"]:
                        if d.get("init") is not None:
                            defs.setdefault(d["decl"], []).append(d["init"])
                elif k == "rangefor" and n.get("var"):
                    rng[n["var"]["decl"]] = n.get("range")
                elif k == "assign":
                    t = unwrap(n["lhs"])
                    if t.get("k") == "ref" and "decl" in t:
                        defs.setdefault(t["decl"], []).append(n["rhs"] if n["op"] == "=" else None)
                elif k == "opcall" and n.get("op") in ("=", "+=", "-=", "*=", "/=", "++", "--") and n.get("args"):
                    t = unwrap(n["args"][0])
                    if t.get("k") == "ref" and "decl" in t:
                        defs.setdefault(t["decl"], []).append(n["args"][1] if n["op"] == "=" and len(n["args"]) > 1 else None)
                elif k == "unop" and n.get("op") in ("++", "--"):
                    t = unwrap(n["sub"])
                    if t.get("k") == "ref" and "decl" in t:
                        defs.setdefault(t["decl"], []).append(None)
            self._defs, self._rng = defs, rng
        return self._defs

    def rename(self, mapping):
        """mapping: decl id -> new name; applied to declarations and every reference"""
        def rec(n):
            if isinstance(n, dict):
                if "decl" in n and n["decl"] in mapping and "name" in n and isinstance(n.get("name"), str):
                    n["name"] = mapping[n["decl"]]
                for k, v in n.items():
                    if k != "cfg":
                        rec(v)
            elif isinstance(n, list):
                for v in n:
                    rec(v)
        rec(self.j.get("body"))
        for p in self.j.get("params", []):
            if p["decl"] in mapping:
                p["name"] = mapping[p["decl"]]
        for ci in self.j.get("ctor_inits", []) or []:
            rec(ci)

    @property
    def body(self):
        return self.j["body"]

    def loc(self, n=None):
        line = (n or {}).get("line") or self.j["line"]
        return "%s:%s" % (self.file, line)

    def walk(self):
        return walk(self.j["body"])

    def calls(self, rx=None, exact=None):
        out = []
        for n in self.walk():
            if n["k"] in ("call", "mcall", "opcall", "construct") and n.get("callee"):
                c = n["callee"]
                if exact is not None:
                    if c == exact or (isinstance(exact, (set, tuple, list)) and c in exact):
                        out.append(n)
                elif rx is None or re.search(rx, c):
                    out.append(n)
        return out

    def ancestors(self, n):
        i = self.parent.get(n["id"])
        while i is not None:
            yield self.nodes[i]
            i = self.parent.get(i)

    def __repr__(self):
        return "<Func %s %s:%s>" % (self.qname, self.file, self.j["line"])


class Facts:
    """facts of several units, de-duplicated by (qname, file, line)"""

    def __init__(self, by_unit):
        self.by_unit = by_unit
        self.funcs = []
        self.records = {}
        self.enums = {}
        self.globals = {}
        seen = set()
        for unit, d in by_unit.items():
            for f in d["functions"]:
                key = (f["qname"], f["file"], f["line"], f.get("qname_targs"), f.get("sig"))
                if key in seen:
                    continue
                seen.add(key)
                self.funcs.append(Func(f, unit))
                self.funcs[-1].facts = self
            for r in d["records"]:
                self.records.setdefault(r.get("type") or r["qname"], r)
            for e in d["enums"]:
                self.enums.setdefault(e["qname"], e)
            for g in d["globals"]:
                self.globals.setdefault(g["qname"], g)

    def units(self):
        return list(self.by_unit)

    def find(self, qname, template=None):
        out = [f for f in self.funcs if f.qname == qname]
        if template is not None:
            out = [f for f in out if f.j["template"] in template]
        return out

    def find_rx(self, rx):
        return [f for f in self.funcs if re.search(rx, f.qname)]

    def one(self, qname, template=None, nparams=None, sig_rx=None):
        fs = self.find(qname, template)
        if nparams is not None:
            fs = [f for f in fs if len(f.j["params"]) == nparams]
        if sig_rx is not None:
            fs = [f for f in fs if re.search(sig_rx, f.j["sig"])]
        if len(fs) != 1:
            raise AnalysisBroken("expected exactly one definition of %s, found %d" % (qname, len(fs)))
        return fs[0]

    def overriders(self, base_method_qname):
        """functions (with bodies) whose override set contains base_method_qname, transitively"""
        out = []
        work = {base_method_qname}
        changed = True
        while changed:
            changed = False
            for f in self.funcs:
                if f in out:
                    continue
                if set(f.j.get("overrides") or []) & work:
                    out.append(f)
                    work.add(f.qname)
                    changed = True
        return out

    def record(self, qname):
        r = self.records.get(qname)
        if r is None:
            raise AnalysisBroken("record %s not found" % qname)
        return r

    def enum(self, qname):
        e = self.enums.get(qname)
        if e is None:
            raise AnalysisBroken("enum %s not found" % qname)
        return e


# ---- small expression helpers -------------------------------------------------

def is_call(n, callee=None, rx=None):
    if not isinstance(n, dict) or n.get("k") not in ("call", "mcall", "opcall", "construct"):
        return False
    c = n.get("callee") or ""
    if callee is not None:
        return c == callee
    if rx is not None:
        return re.search(rx, c) is not None
    return True


def lit_value(n):
    """python number for int/float literal nodes (through unary minus and casts), else None"""
    from fractions import Fraction
    n = unwrap(n)
    if not isinstance(n, dict):
        return None
    k = n.get("k")
    if k == "int":
        return Fraction(int(n["v"]))
    if k == "float":
        t = n.get("text") or n["v"]
        t = t.rstrip("fFlL")
        try:
            return Fraction(t)
        except Exception:
            try:
                return Fraction(n["v"])
            except Exception:
                return None
    if k == "bool":
        return Fraction(1 if n["v"] else 0)
    if k == "unop" and n["op"] == "-":
        v = lit_value(n["sub"])
        return None if v is None else -v
    if k == "unop" and n["op"] == "+":
        return lit_value(n["sub"])
    if k == "cast":
        return lit_value(n["sub"])
    if k == "ref" and n.get("cval") not in (None, "?"):
        try:
            return Fraction(n["cval"])
        except Exception:
            return None
    return None


def show(n, depth=0, namer=None):
    """compact, human readable rendering of an expression tree (for evidence samples and reports);
    namer(ref node) -> str overrides how references to variables are printed"""
    n = unwrap(n)
    if n is None:
        return "<null>"
    if not isinstance(n, dict):
        return str(n)
    if depth > 12:
        return "..."
    k = n.get("k")
    s = lambda x: show(x, depth + 1, namer)
    if k in ("int", "float"):
        return n.get("text") or n["v"]
    if k == "str":
        return '"%s"' % n["v"]
    if k == "char":
        return "'%s'" % chr(n["v"]) if 31 < n["v"] < 127 else str(n["v"])
    if k == "bool":
        return "true" if n["v"] else "false"
    if k == "null":
        return "nullptr"
    if k == "this":
        return "this"
    if k == "ref":
        if namer is not None and n.get("dk") in ("local", "param", "staticlocal"):
            return namer(n)
        return n.get("name") or n.get("qname", "?")
    if k == "member":
        if "base" not in n or unwrap(n["base"]).get("k") == "this":
            return n["fname"]
        return "%s%s%s" % (s(n["base"]), "->" if n.get("arrow") else ".", n["fname"])
    if k == "mcall":
        name = (n.get("callee") or "?").split("::")[-1]
        obj = n.get("obj")
        pre = ""
        if obj is not None and unwrap(obj).get("k") != "this":
            pre = s(obj) + ("->" if n.get("arrow") else ".")
        if n.get("conversion"):
            return pre.rstrip(".->") or "this"
        return "%s%s(%s)" % (pre, name, ", ".join(s(a) for a in n["args"]))
    if k == "call":
        name = n.get("callee") or s(n.get("callee_expr"))
        return "%s(%s)" % (name.split("::")[-1] if "::" in name else name, ", ".join(s(a) for a in n["args"]))
    if k == "opcall":
        a = n["args"]
        op = n["op"]
        if op == "()":
            return "%s(%s)" % (s(a[0]), ", ".join(s(x) for x in a[1:]))
        if op == "[]":
            return "%s[%s]" % (s(a[0]), s(a[1]))
        if len(a) == 1:
            return "%s%s" % (op, s(a[0]))
        if len(a) == 2:
            return "(%s %s %s)" % (s(a[0]), op, s(a[1]))
        return "%s(%s)" % (op, ", ".join(s(x) for x in a))
    if k in ("binop", "assign"):
        return "(%s %s %s)" % (s(n["lhs"]), n["op"], s(n["rhs"]))
    if k == "unop":
        return ("%s%s" % (s(n["sub"]), n["op"])) if n.get("postfix") else ("%s%s" % (n["op"], s(n["sub"])))
    if k == "cond":
        return "(%s ? %s : %s)" % (s(n["cond"]), s(n["then"]), s(n["else"]))
    if k == "cast":
        return s(n["sub"]) if n.get("implicit") else "(%s)%s" % (n["type"], s(n["sub"]))
    if k == "subscript":
        return "%s[%s]" % (s(n["base"]), s(n["index"]))
    if k == "construct":
        t = n["type"]
        if len(t) > 40:
            t = t[:37] + "..."
        return "%s(%s)" % (t, ", ".join(s(a) for a in n["args"]))
    if k == "throw":
        return "throw %s" % (s(n["sub"]) if n.get("sub") else "")
    if k == "initlist":
        return "{%s}" % ", ".join(s(a) for a in n["args"])
    if k == "stdinitlist":
        return s(n["sub"])
    if k == "lambda":
        return "[lambda]"
    if k == "new":
        return "new %s" % n["type"]
    return "<%s>" % k
