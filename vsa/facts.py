"""Access layer over the JSON facts written by bin/vsa-export."""
import re
from .front import AnalysisBroken

CHILD_KEYS_SKIP = ("cfg",)


def walk(n):
    """pre-order over every node (dict with 'k') below n, n included"""
    if isinstance(n, dict):
        if "k" in n:
            yield n
        for key, v in n.items():
            if key in CHILD_KEYS_SKIP:
                continue
            if isinstance(v, (dict, list)):
                yield from walk(v)
    elif isinstance(n, list):
        for v in n:
            yield from walk(v)


def children(n):
    """direct child nodes (dicts with 'k') of n in source order"""
    out = []

    def rec(v):
        if isinstance(v, dict):
            if "k" in v:
                out.append(v)
            else:
                for x in v.values():
                    rec(x)
        elif isinstance(v, list):
            for x in v:
                rec(x)

    for key, v in n.items():
        if key in CHILD_KEYS_SKIP:
            continue
        rec(v)
    return out


def unwrap(n):
    """strip 'expr' statement wrappers"""
    while isinstance(n, dict) and n.get("k") == "expr":
        n = n["e"]
    return n


class Func:
    def __init__(self, j, unit):
        self.j = j
        self.unit = unit
        self.qname = j["qname"]
        self.file = j["file"]
        self.nodes = {}
        self.parent = {}
        self._index(j["body"], None)
        for ci in j.get("ctor_inits", []) or []:
            if ci.get("init"):
                self._index(ci["init"], None)
        self.decls = {}
        for p in j.get("params", []):
            self.decls[p["decl"]] = p
        for n in self.nodes.values():
            if n.get("k") == "decl":
                for d in n["decls"]:
                    self.decls[d["decl"]] = d
            elif n.get("k") == "rangefor" and n.get("var"):
                self.decls[n["var"]["decl"]] = n["var"]

    def _index(self, n, parent):
        if isinstance(n, dict):
            pid = parent
            if "k" in n and "id" in n:
                self.nodes[n["id"]] = n
                self.parent[n["id"]] = parent
                pid = n["id"]
            for key, v in n.items():
                if key == "cfg":
                    continue
                if isinstance(v, (dict, list)):
                    self._index(v, pid)
        elif isinstance(n, list):
            for v in n:
                self._index(v, parent)

    @property
    def body(self):
        return self.j["body"]

    def loc(self, n=None):
        line = (n or {}).get("line") or self.j["line"]
        return "%s:%s" % (self.file, line)

    def walk(self):
        return walk(self.j["body"])

    def calls(self, rx=None, exact=None):
        out = []
        for n in self.walk():
            if n["k"] in ("call", "mcall", "opcall", "construct") and n.get("callee"):
                c = n["callee"]
                if exact is not None:
                    if c == exact or (isinstance(exact, (set, tuple, list)) and c in exact):
                        out.append(n)
                elif rx is None or re.search(rx, c):
                    out.append(n)
        return out

    def ancestors(self, n):
        i = self.parent.get(n["id"])
        while i is not None:
            yield self.nodes[i]
            i = self.parent.get(i)

    def __repr__(self):
        return "<Func %s %s:%s>" % (self.qname, self.file, self.j["line"])


class Facts:
    """facts of several units, de-duplicated by (qname, file, line)"""

    def __init__(self, by_unit):
        self.by_unit = by_unit
        self.funcs = []
        self.records = {}
        self.enums = {}
        self.globals = {}
        seen = set()
        for unit, d in by_unit.items():
            for f in d["functions"]:
                key = (f["qname"], f["file"], f["line"], f.get("qname_targs"), f.get("sig"))
                if key in seen:
                    continue
                seen.add(key)
                self.funcs.append(Func(f, unit))
            for r in d["records"]:
                self.records.setdefault(r.get("type") or r["qname"], r)
            for e in d["enums"]:
                self.enums.setdefault(e["qname"], e)
            for g in d["globals"]:
                self.globals.setdefault(g["qname"], g)

    def units(self):
        return list(self.by_unit)

    def find(self, qname, template=None):
        out = [f for f in self.funcs if f.qname == qname]
        if template is not None:
            out = [f for f in out if f.j["template"] in template]
        return out

    def find_rx(self, rx):
        return [f for f in self.funcs if re.search(rx, f.qname)]

    def one(self, qname, template=None, nparams=None, sig_rx=None):
        fs = self.find(qname, template)
        if nparams is not None:
            fs = [f for f in fs if len(f.j["params"]) == nparams]
        if sig_rx is not None:
            fs = [f for f in fs if re.search(sig_rx, f.j["sig"])]
        if len(fs) != 1:
            raise AnalysisBroken("expected exactly one definition of %s, found %d" % (qname, len(fs)))
        return fs[0]

    def overriders(self, base_method_qname):
        """functions (with bodies) whose override set contains base_method_qname, transitively"""
        out = []
        work = {base_method_qname}
        changed = True
        while changed:
            changed = False
            for f in self.funcs:
                if f in out:
                    continue
                if set(f.j.get("overrides") or []) & work:
                    out.append(f)
                    work.add(f.qname)
                    changed = True
        return out

    def record(self, qname):
        r = self.records.get(qname)
        if r is None:
            raise AnalysisBroken("record %s not found" % qname)
        return r

    def enum(self, qname):
        e = self.enums.get(qname)
        if e is None:
            raise AnalysisBroken("enum %s not found" % qname)
        return e


# ---- small expression helpers -------------------------------------------------

def is_call(n, callee=None, rx=None):
    if not isinstance(n, dict) or n.get("k") not in ("call", "mcall", "opcall", "construct"):
        return False
    c = n.get("callee") or ""
    if callee is not None:
        return c == callee
    if rx is not None:
        return re.search(rx, c) is not None
    return True


def lit_value(n):
    """python number for int/float literal nodes (through unary minus and casts), else None"""
    from fractions import Fraction
    n = unwrap(n)
    if not isinstance(n, dict):
        return None
    k = n.get("k")
    if k == "int":
        return Fraction(int(n["v"]))
    if k == "float":
        t = n.get("text") or n["v"]
        t = t.rstrip("fFlL")
        try:
            return Fraction(t)
        except Exception:
            try:
                return Fraction(n["v"])
            except Exception:
                return None
    if k == "bool":
        return Fraction(1 if n["v"] else 0)
    if k == "unop" and n["op"] == "-":
        v = lit_value(n["sub"])
        return None if v is None else -v
    if k == "unop" and n["op"] == "+":
        return lit_value(n["sub"])
    if k == "cast":
        return lit_value(n["sub"])
    if k == "ref" and n.get("cval") not in (None, "?"):
        try:
            return Fraction(n["cval"])
        except Exception:
            return None
    return None


def show(n, depth=0):
    """compact, human readable rendering of an expression tree (for evidence samples and reports)"""
    n = unwrap(n)
    if n is None:
        return "<null>"
    if not isinstance(n, dict):
        return str(n)
    if depth > 12:
        return "..."
    k = n.get("k")
    s = lambda x: show(x, depth + 1)
    if k in ("int", "float"):
        return n.get("text") or n["v"]
    if k == "str":
        return '"%s"' % n["v"]
    if k == "char":
        return "'%s'" % chr(n["v"]) if 31 < n["v"] < 127 else str(n["v"])
    if k == "bool":
        return "true" if n["v"] else "false"
    if k == "null":
        return "nullptr"
    if k == "this":
        return "this"
    if k == "ref":
        return n.get("name") or n.get("qname", "?")
    if k == "member":
        if "base" not in n or unwrap(n["base"]).get("k") == "this":
            return n["fname"]
        return "%s%s%s" % (s(n["base"]), "->" if n.get("arrow") else ".", n["fname"])
    if k == "mcall":
        name = (n.get("callee") or "?").split("::")[-1]
        obj = n.get("obj")
        pre = ""
        if obj is not None and unwrap(obj).get("k") != "this":
            pre = s(obj) + ("->" if n.get("arrow") else ".")
        if n.get("conversion"):
            return pre.rstrip(".->") or "this"
        return "%s%s(%s)" % (pre, name, ", ".join(s(a) for a in n["args"]))
    if k == "call":
        name = n.get("callee") or s(n.get("callee_expr"))
        return "%s(%s)" % (name.split("::")[-1] if "::" in name else name, ", ".join(s(a) for a in n["args"]))
    if k == "opcall":
        a = n["args"]
        op = n["op"]
        if op == "()":
            return "%s(%s)" % (s(a[0]), ", ".join(s(x) for x in a[1:]))
        if op == "[]":
            return "%s[%s]" % (s(a[0]), s(a[1]))
        if len(a) == 1:
            return "%s%s" % (op, s(a[0]))
        if len(a) == 2:
            return "(%s %s %s)" % (s(a[0]), op, s(a[1]))
        return "%s(%s)" % (op, ", ".join(s(x) for x in a))
    if k in ("binop", "assign"):
        return "(%s %s %s)" % (s(n["lhs"]), n["op"], s(n["rhs"]))
    if k == "unop":
        return ("%s%s" % (s(n["sub"]), n["op"])) if n.get("postfix") else ("%s%s" % (n["op"], s(n["sub"])))
    if k == "cond":
        return "(%s ? %s : %s)" % (s(n["cond"]), s(n["then"]), s(n["else"]))
    if k == "cast":
        return s(n["sub"]) if n.get("implicit") else "(%s)%s" % (n["type"], s(n["sub"]))
    if k == "subscript":
        return "%s[%s]" % (s(n["base"]), s(n["index"]))
    if k == "construct":
        t = n["type"]
        if len(t) > 40:
            t = t[:37] + "..."
        return "%s(%s)" % (t, ", ".join(s(a) for a in n["args"]))
    if k == "throw":
        return "throw %s" % (s(n["sub"]) if n.get("sub") else "")
    if k == "initlist":
        return "{%s}" % ", ".join(s(a) for a in n["args"])
    if k == "stdinitlist":
        return s(n["sub"])
    if k == "lambda":
        return "[lambda]"
    if k == "new":
        return "new %s" % n["type"]
    return "<%s>" % k
