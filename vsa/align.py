"""Rename-invariance: the rule modules refer to local variables and parameters by the names they have in the tree the
rules were written against.  To keep the rules silent under a pure renaming refactor, every analysed function is first
*aligned* with a committed reference table (reference/locals.json): each local is identified by a name-free signature
(its type and the rendering of its definition with parameters replaced by their positions and other locals by their own
definitions) and renamed back to the reference name when the signature matches.  The table carries no semantics: when
nothing matches, names are left as they are (exactly the behaviour without this module)."""
import json, os, re


VERIF = os.path.dirname(os.path.dirname(os.path.abspath(__file__)))
REF = os.path.join(VERIF, "reference", "locals.json")
_table = None
_collect = {}


def table():
    global _table
    if _table is None:
        _table = json.load(open(REF)) if os.path.exists(REF) else {}
    return _table


def fkey(j, root):
    f = j["file"]
    if f.startswith(root):
        f = f[len(root):]
    return "%s|%d|%s|%s" % (j["qname"], len(j.get("params", [])), f.lstrip("/"), re.sub(r"\s+", "", j.get("sig") or ""))


def local_entries(func):
    from .facts import rshow
    """[(decl id, name, type, signature)] for every local (decl statements, range-for variables, lambda params) in source order"""
    out = []
    counts = {}
    for d_id, d in func.decl_order():
        if d.get("_param"):
            continue
        sig0 = "%s|%s" % (norm_type(d.get("type") or ""), rshow(func, None, decl=d_id))
        k = counts.get(sig0, 0)
        counts[sig0] = k + 1
        out.append((d_id, d.get("name") or "", d.get("type") or "", "%s#%d" % (sig0, k)))
    return out


def norm_type(t):
    return re.sub(r"\s+", "", t)


def collect(func, root):
    if func.j.get("template") == "pattern":
        key = fkey(func.j, root) + "|pattern"
    else:
        key = fkey(func.j, root)
    ent = {"params": [p.get("name") or "" for p in func.j.get("params", [])],
           "locals": [[name, sig] for _, name, _, sig in local_entries(func)]}
    _collect[key] = ent


def dump():
    os.makedirs(os.path.dirname(REF), exist_ok=True)
    old = json.load(open(REF)) if os.path.exists(REF) else {}
    old.update(_collect)
    json.dump(old, open(REF, "w"), indent=0, sort_keys=True)


def align(func, root):
    """rename params/locals of func back to the reference names where their signature matches; returns #renamed"""
    key = fkey(func.j, root) + ("|pattern" if func.j.get("template") == "pattern" else "")
    ent = table().get(key)
    if not ent:
        return 0
    mapping = {}
    ps = func.j.get("params", [])
    if len(ps) == len(ent["params"]):
        for p, ref in zip(ps, ent["params"]):
            if ref and p.get("name") and p["name"] != ref:
                mapping[p["decl"]] = ref
    cur = local_entries(func)
    ref_by_sig = {}
    for name, sig in ent["locals"]:
        ref_by_sig.setdefault(sig, name)
    used = {name for name, _ in ent["locals"]}
    for d_id, name, _, sig in cur:
        ref = ref_by_sig.get(sig)
        if ref and name and ref != name:
            mapping[d_id] = ref
    if not mapping:
        return 0
    # a target name must not collide with a different, unrenamed local
    names_now = {d_id: name for d_id, name, _, _ in cur}
    targets = set(mapping.values())
    for d_id, name in names_now.items():
        if d_id not in mapping and name in targets:
            # somebody else already owns that name: drop the conflicting renames
            mapping = {k: v for k, v in mapping.items() if v != name}
    func.rename(mapping)
    return len(mapping)
