"""Front end driver: synthesises clang flags for votca units and runs bin/vsa-export in parallel."""
import os, glob, re, json, subprocess, hashlib, tempfile, shutil, sys, time
from concurrent.futures import ThreadPoolExecutor

VERIF = os.path.dirname(os.path.dirname(os.path.abspath(__file__)))
REPO = os.environ.get("VSA_REPO", "/repo")
_tag = hashlib.sha1(REPO.encode()).hexdigest()[:8]
GEN = os.path.join(VERIF, "cache", "gen-" + _tag)
OUT = os.path.join(VERIF, "cache", "facts-" + _tag)
EXPORTER = os.path.join(VERIF, "bin", "vsa-export")


class AnalysisBroken(Exception):
    """anchor vanished, unit does not parse, unrecognised shape: exit code 2, never pass, never violation"""


def _cmake_in(src, dst, defines):
    txt = open(src).read()
    def sub(m):
        name = m.group(1)
        return "#define %s" % name if defines.get(name) else "/* #undef %s */" % name
    txt = re.sub(r"#cmakedefine\s+(\w+)", sub, txt)
    txt = re.sub(r"@(\w+)@", lambda m: str(defines.get(m.group(1), "verif")), txt)
    os.makedirs(os.path.dirname(dst), exist_ok=True)
    open(dst, "w").write(txt)


def ensure_gen():
    """config headers generated from the .in files of the current tree (same defines as the real build)"""
    d = {"FFTW3_FOUND": 1, "H5MD": 1, "PROJECT_VERSION": "verif", "PROJECT_CONTACT": "verif"}
    _cmake_in(REPO + "/tools/include/votca/tools/votca_tools_config.h.in",
              GEN + "/tools/votca/tools/votca_tools_config.h", d)
    # the tools sources include it both as <votca/tools/votca_tools_config.h> and "votca_tools_config.h"
    shutil.copy(GEN + "/tools/votca/tools/votca_tools_config.h", GEN + "/tools/votca_tools_config.h")
    _cmake_in(REPO + "/csg/src/libcsg/votca_csg_config.h.in", GEN + "/csg/votca_csg_config.h", d)
    _cmake_in(REPO + "/xtp/include/votca/xtp/votca_xtp_config.h.in",
              GEN + "/xtp/votca/xtp/votca_xtp_config.h", d)


def flags_for(unit):
    f = ["-std=gnu++17", "-UNDEBUG", "-Wno-everything", "-fsyntax-only",
         "-DBOOST_PROGRAM_OPTIONS_DYN_LINK", "-DBOOST_PROGRAM_OPTIONS_NO_LIB",
         "-I" + REPO + "/tools/include", "-I" + GEN + "/tools", "-I" + GEN + "/tools/votca/tools",
         "-I" + REPO + "/csg/include", "-I" + GEN + "/csg",
         "-I" + REPO + "/csg/src/libcsg", "-I" + REPO + "/csg/src/libcsg/modules/io",
         "-I" + REPO + "/csg/src/tools", "-I" + REPO + "/csg/src/csg_boltzmann",
         "-isystem", "/usr/include/eigen3", "-isystem", "/usr/include/hdf5/serial",
         "-isystem", "/usr/lib/llvm-14/lib/clang/14.0.6/include"]
    if "/xtp/" in unit or unit.startswith(os.path.join(VERIF, "hosts", "xtp")):
        f += ["-I" + REPO + "/xtp/include", "-I" + GEN + "/xtp", "-I" + GEN + "/xtp/votca/xtp", "-I" + VERIF + "/stubs"]
    f += ["-I" + os.path.dirname(unit)]
    return f


def _one(unit, names, tag):
    os.makedirs(OUT, exist_ok=True)
    key = hashlib.sha1((unit + "|" + (names or "") + "|" + tag).encode()).hexdigest()[:16]
    import threading
    out = os.path.join(OUT, "%s-%d-%d.json" % (key, os.getpid(), threading.get_ident()))     # concurrent checks export the same unit: one file per exporter run
    cmd = [EXPORTER, "--out=" + out, "--root=" + REPO.rstrip("/") + "/"]
    if names:
        cmd.append("--names=" + names)
    if unit.startswith(VERIF):
        pass
    cmd += [unit, "--"] + flags_for(unit)
    t = time.time()
    p = subprocess.run(cmd, capture_output=True, text=True)
    if p.returncode != 0 or not os.path.exists(out):
        raise AnalysisBroken("unit %s does not parse: %s" % (unit, (p.stderr or p.stdout)[-1500:]))
    with open(out) as fh:
        d = json.load(fh)
    os.unlink(out)
    d["_wall"] = time.time() - t
    return d


LAST_SKIPPED = []


def export(units, names=None, jobs=16, tag="", skip_unavailable=False):
    """units: list of absolute paths (under /repo or /verif/hosts). Returns {unit: facts}.
    skip_unavailable: a unit that includes a header of an optional third-party package that is not installed here (the build of this tree does
    not compile it either) is left out and listed in LAST_SKIPPED instead of breaking the analysis."""
    if not os.path.exists(EXPORTER):
        raise AnalysisBroken("bin/vsa-export missing: run ./setup.sh")
    ensure_gen()
    for u in units:
        if not os.path.exists(u):
            raise AnalysisBroken("anchor unit vanished: " + u)
    del LAST_SKIPPED[:]
    with ThreadPoolExecutor(max_workers=jobs) as ex:
        futs = {u: ex.submit(_one, u, names, tag) for u in units}
        out = {}
        for u, f in futs.items():
            try:
                out[u] = f.result()
            except AnalysisBroken as e:
                m = re.search(r"fatal error: '([^']+)' file not found", str(e))
                if skip_unavailable and m and not os.path.exists(os.path.join(REPO, m.group(1))) and not glob.glob(os.path.join(REPO, "*", "include", m.group(1))):
                    LAST_SKIPPED.append((u, m.group(1)))
                    continue
                raise
        return out


def repo(path):
    return os.path.join(REPO, path)
