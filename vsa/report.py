"""Verdict protocol: obligations, floors, known findings, evidence and replay files."""
import json, os, sys, time

VERIF = os.path.dirname(os.path.dirname(os.path.abspath(__file__)))
EVDIR = os.environ.get("VSA_EVIDENCE", os.path.join(VERIF, "evidence"))


class Report:
    def __init__(self, pid, tier, level, seed=0, checker_cmd=""):
        self.pid = pid
        self.tier = tier
        self.level = level
        self.seed = seed
        self.t0 = time.time()
        self.obligations = []   # dicts: rule,key,status(holds|violation|known|broken),detail,loc
        self.samples = []
        self.rules = {}         # rule id -> text
        self.units = []
        self.functions = set()
        self.assumptions = []
        self.trusted = ["clang 14 front end (parse, overload/virtual resolution, constant evaluator, CFG builder)",
                        "tools/vsa-export.cc (fact exporter)", "vsa/ python rule engine"]
        self.checker_cmd = checker_cmd or "./check %s --tier %s" % (pid, tier)
        self.explanation = ""
        self.broken_msgs = []
        self.notes = []
        kf = os.path.join(VERIF, "known_findings.json")
        self.known = []
        if os.path.exists(kf):
            self.known = [k for k in json.load(open(kf)) if k["property"] == pid and k["status"] == "known"]
        self.known_hit = set()

    # -- registration -------------------------------------------------------------------
    def rule(self, rid, text):
        self.rules[rid] = text

    def analysed(self, func):
        self.functions.add("%s (%s:%s)" % (func.qname, func.file, func.j["line"]))

    def holds(self, rule, key, detail="", loc=None, sample=False):
        self.obligations.append({"rule": rule, "key": key, "status": "holds", "detail": detail, "loc": loc})
        if sample and len(self.samples) < 40:
            self.samples.append({"rule": rule, "instance": key, "verdict": "holds", "detail": detail, "loc": loc})

    def violation(self, rule, key, what, loc=None, path=None):
        for k in self.known:
            if k["rule"] == rule and k["key"] == key:
                self.obligations.append({"rule": rule, "key": key, "status": "known", "detail": what, "loc": loc})
                if key not in self.known_hit:
                    self.known_hit.add(key)
                    print("KNOWN-FINDING: property=%s %s [%s %s] %s" % (self.pid, k["what"], rule, key, loc or ""))
                return
        self.obligations.append({"rule": rule, "key": key, "status": "violation", "detail": what, "loc": loc,
                                 "path": path})

    def check(self, cond, rule, key, detail_ok="", what_bad="", loc=None, sample=False):
        if cond:
            self.holds(rule, key, detail_ok, loc, sample)
        else:
            self.violation(rule, key, what_bad or detail_ok, loc)
        return cond

    def broken(self, rule, msg):
        self.broken_msgs.append("%s: %s" % (rule, msg))

    def floor(self, rule, found, minimum, what="instances"):
        if found < minimum:
            self.broken(rule, "only %d %s located, hand-confirmed floor is %d" % (found, what, minimum))

    def sample(self, obj):
        if len(self.samples) < 60:
            self.samples.append(obj)

    # -- finish -------------------------------------------------------------------------
    def finish(self, replay_filter=None):
        viol = [o for o in self.obligations if o["status"] == "violation"]
        held = [o for o in self.obligations if o["status"] == "holds"]
        known = [o for o in self.obligations if o["status"] == "known"]
        os.makedirs(os.path.join(EVDIR, "replay"), exist_ok=True)
        for old in os.listdir(os.path.join(EVDIR, "replay")):
            if old.startswith(self.pid + "-"):
                os.unlink(os.path.join(EVDIR, "replay", old))
        seen = set()
        k = 0
        for o in viol:
            ident = (o["rule"], o["key"])
            if ident in seen:
                continue
            seen.add(ident)
            k += 1
            rp = os.path.join(EVDIR, "replay", "%s-%d.json" % (self.pid, k))
            json.dump({"property": self.pid, "rule": o["rule"], "rule_text": self.rules.get(o["rule"], ""),
                       "instance_key": o["key"], "what": o["detail"], "loc": o["loc"], "path": o.get("path")},
                      open(rp, "w"), indent=1)
            print("VIOLATION property=%s replay=%s" % (self.pid, rp))
            print("  rule %s instance %s at %s: %s" % (o["rule"], o["key"], o["loc"], o["detail"]))
        for m in self.broken_msgs:
            print("ANALYSIS-BROKEN property=%s %s" % (self.pid, m))
        distinct = len({(o["rule"], o["key"]) for o in self.obligations})
        n_ob = len(self.obligations)
        cov = {
            "evaluations": max(n_ob, 1),
            "distinct_nontrivial": distinct,
            "rule": "one obligation per rule instance located in /repo's current source (function, call site, "
                    "subscript, kernel, table entry); distinct = distinct (rule, instance key); an instance counts "
                    "only if its construct was found and fully recognised",
            "samples": self.samples[:40] or [{"note": "no sample recorded"}],
            "obligations": n_ob - len(known),
            "discharged": len(held),
            "known_findings": len(known),
            "programs": max(len(self.functions), 1),
            "disagreements_checked": len(seen) + len(known),
            "checker_cmd": self.checker_cmd,
            "trusted_base": self.trusted,
            "explanation": self.explanation,
            "rules": self.rules,
            "units_parsed": self.units,
            "functions_analysed": sorted(self.functions),
            "per_rule": self._per_rule(),
            "analysis_broken": self.broken_msgs,
            "exhaustive": False,
        }
        ev = {"property_id": self.pid, "tier": self.tier, "seed": int(self.seed), "level": self.level,
              "coverage": cov, "assumptions": self.assumptions, "wall_s": round(time.time() - self.t0, 2),
              "violations": len(seen)}
        json.dump(ev, open(os.path.join(EVDIR, self.pid + ".json"), "w"), indent=1)
        print("%s: %d obligations, %d hold, %d known findings, %d violations, %d analysis-broken (%.1fs)" % (
            self.pid, n_ob, len(held), len(known), len(seen), len(self.broken_msgs), time.time() - self.t0))
        if viol:
            return 1
        if self.broken_msgs:
            return 2
        return 0

    def _per_rule(self):
        d = {}
        for o in self.obligations:
            r = d.setdefault(o["rule"], {"holds": 0, "violation": 0, "known": 0})
            r[o["status"]] += 1
        return d
