"""Perl front end: the compiler's op-tree (`perl -MO=Concise`, compile phase only - the script body is never run)
parsed into expression trees, with the guards (cond_expr / and / or ancestors) of every assignment."""
import os, re, subprocess
import sympy as sp
from .front import AnalysisBroken, REPO
from .alg import S, F as Fn

LINE_RX = re.compile(r"^(\S+)\s+(<.>)\s+(\S.*?)\s+(\S+)\s+->(\S+)\s*$")
LINE_RX2 = re.compile(r"^(\S+)(\s+)(<.>) (.*)$")


class Op:
    def __init__(self, name, arg, flags, depth, line, klass):
        self.name, self.arg, self.flags, self.depth, self.line, self.klass = name, arg, flags, depth, line, klass
        self.kids = []
        self.parent = None

    def __repr__(self):
        return "%s[%s]" % (self.name, self.arg or "")


def concise(script, incdir):
    env = dict(os.environ, PERL5LIB=incdir)
    p = subprocess.run(["perl", "-MO=Concise", script], capture_output=True, text=True, env=env, cwd=incdir)
    if "syntax OK" not in p.stderr:
        raise AnalysisBroken("perl cannot compile %s: %s" % (script, p.stderr[-400:]))
    return p.stdout


def parse(text):
    """returns the root Op of the main program"""
    root = Op("root", None, "", -1, 0, "")
    stack = [root]
    cur_line = 0
    for raw in text.splitlines():
        m = LINE_RX2.match(raw)
        if not m:
            continue
        label, pad, klass, rest = m.groups()
        depth = len(label) + len(pad)
        # rest: "opname[arg] flags ->next"  (arg may contain spaces and brackets)
        mm = re.match(r"^(\S+?)(\[.*\]|\(.*\))?\s+(\S+)\s+->\S+\s*$", rest) or re.match(r"^(\S+?)(\[.*\]|\(.*\))?\s+->\S+\s*$", rest)
        if not mm:
            continue
        g = mm.groups()
        name, arg = g[0], g[1]
        flags = g[2] if len(g) > 2 else ""
        if name == "nextstate" or name == "dbstate":
            lm = re.search(r":(\d+)\)", arg or "")
            if lm:
                cur_line = int(lm.group(1))
        op = Op(name, arg[1:-1] if arg else None, flags or "", depth, cur_line, klass)
        while stack and stack[-1].depth >= depth:
            stack.pop()
        op.parent = stack[-1]
        stack[-1].kids.append(op)
        stack.append(op)
    return root


def walk(op):
    yield op
    for k in op.kids:
        yield from walk(k)


NOISE = ("pushmark", "nextstate", "enter", "ex-nextstate", "dbstate", "unstack", "ex-pushmark")


def strip(op):
    """skip null/ex- wrappers with a single meaningful child"""
    while op is not None and (op.name.startswith("ex-") or op.name in ("null", "scope", "lineseq", "leave", "enter")) and len([k for k in op.kids if k.name not in NOISE]) == 1 \
            and not op.name.startswith("ex-aelem") and op.name not in ("ex-rv2av",):
        op = [k for k in op.kids if k.name not in NOISE][0]
    return op


BIN = {"add": "+", "subtract": "-", "multiply": "*", "divide": "/", "pow": "**"}
CMP = {"lt": "<", "gt": ">", "le": "<=", "ge": ">=", "eq": "==", "ne": "!=", "seq": "eq", "sne": "ne", "i_lt": "<", "i_gt": ">", "i_le": "<=", "i_ge": ">=", "i_eq": "==", "i_ne": "!="}


def elem_of_multideref(arg):
    """'$a[$i]' / '$a[0]' / '$a[$#r]'(not multideref) -> (array, index expr string)"""
    m = re.match(r"^\$(\w+)\[(.*)\]$", arg)
    if not m:
        return None
    return m.group(1), m.group(2)


def ev(op):
    """sympy value of an expression op-tree (uninterpreted where unknown)"""
    op = strip(op)
    n = op.name
    if n == "const":
        a = op.arg or ""
        m = re.match(r"^(NV|IV|PV|PVIV|PVNV|SPECIAL)\s+(.*)$", a)
        if m:
            kind, val = m.groups()
            if kind in ("NV", "IV", "PVIV", "PVNV"):
                try:
                    return sp.Rational(val.strip('"'))
                except Exception:
                    try:
                        return sp.Rational(str(float(val)))
                    except Exception:
                        return S("const(%s)" % val)
            return S(val)
        return S("const(%s)" % a)
    if n == "padsv" or n == "padsv_store":
        nm = (op.arg or "").split(":")[0]
        if n == "padsv_store":
            return ev(op.kids[0])
        return S(nm)
    if n == "multideref":
        em = elem_of_multideref(op.arg or "")
        if em:
            arr, idx = em
            return Fn("elem")(S("@" + arr), idx_value(idx))
        return S("multideref(%s)" % op.arg)
    if n in ("aelem", "ex-aelem"):
        ks = [k for k in op.kids]
        if len(ks) == 1 and strip(ks[0]).name == "multideref":
            return ev(ks[0])
        if len(ks) >= 1 and strip(ks[0]).name in ("aelemfast", "aelemfast_lex"):
            return ev(ks[0])
        if len(ks) == 2:
            arr = strip(ks[0])
            an = (arr.arg or "").split(":")[0] if arr.name in ("padav", "ex-padav") else (arr.arg or arr.name)
            return Fn("elem")(S(an if an.startswith("@") else "@" + an.lstrip("@")), ev(ks[1]))
    if n in ("aelemfast", "aelemfast_lex"):
        a = (op.arg or "").split(":")[0]
        if a.startswith("*"):
            a = "@" + a[1:]
        im = re.search(r"key=(-?\d+)", op.flags)
        return Fn("elem")(S(a), sp.Integer(int(im.group(1))) if im else sp.Integer(0))
    if n == "av2arylen":
        arr = strip(op.kids[0])
        return Fn("last")(S((arr.arg or "").split(":")[0]))
    if n in BIN and len(op.kids) >= 2:
        a, b = ev(op.kids[0]), ev(op.kids[1])
        return {"+": a + b, "-": a - b, "*": a * b, "/": a / b, "**": a ** b}[BIN[n]]
    if n == "negate":
        return -ev(op.kids[0])
    if n in ("log", "exp", "sin", "cos", "sqrt", "abs", "int"):
        f = {"log": sp.log, "exp": sp.exp, "sin": sp.sin, "cos": sp.cos, "sqrt": sp.sqrt, "abs": sp.Abs}.get(n)
        v = ev(op.kids[0]) if op.kids else S("$_")
        return f(v) if f else Fn(n)(v)
    if n == "stringify":
        ks = [k for k in op.kids if k.name not in ("pushmark", "ex-pushmark")]
        if len(ks) == 1:
            return ev(ks[0])
    if n == "preinc" or n == "postinc":
        return ev(op.kids[0]) + 1
    if n == "predec" or n == "postdec":
        return ev(op.kids[0]) - 1
    if n == "defined":
        return Fn("defined")(ev(op.kids[0])) if op.kids else S("defined")
    if n == "undef":
        return S("undef")
    if n in ("entersub",):
        names = [k for k in walk(op) if k.name == "gv"]
        return Fn("call_" + ((names[-1].arg or "?").lstrip("*") if names else "?"))(S("@args%d" % op.line))
    return S("<%s:%s@%d>" % (n, op.arg or "", op.line))


def idx_value(s):
    s = s.strip()
    if re.match(r"^-?\d+$", s):
        return sp.Integer(int(s))
    if re.match(r"^\$\w+$", s):
        return S(s)
    return S(s)


def cond(op):
    """structured condition: tuples (op, a, b) / ('and', ..) / ('or', ..) / ('not', x) / ('match', x, regex)"""
    op = strip(op)
    n = op.name
    if n in CMP and len(op.kids) >= 2:
        return (CMP[n], ev(op.kids[0]), ev(op.kids[1]))
    if n == "and" and len(op.kids) == 2:
        return ("and", cond(op.kids[0]), cond(op.kids[1]))
    if n == "or" and len(op.kids) == 2:
        return ("or", cond(op.kids[0]), cond(op.kids[1]))
    if n == "not":
        return ("not", cond(op.kids[0]))
    if n == "match":
        rx = re.search(r"/(.*)/", op.arg or "")
        tgt = [k for k in op.kids]
        return ("match", ev(tgt[0]) if tgt else S("$_"), rx.group(1).strip('"') if rx else op.arg)
    if n == "defined":
        return ("defined", ev(op.kids[0]) if op.kids else S("?"))
    return ("truthy", ev(op))


def cstr(c):
    if isinstance(c, tuple):
        return "(" + " ".join(cstr(x) for x in c) + ")"
    return str(c)


def assignments(root):
    """[(target value, assigned value, op ('=', '+=', ...), guards[(cond, polarity)], line, loop depth)] in tree order"""
    out = []
    for op in walk(root):
        tgt = val = None
        kind = None
        if op.name == "sassign" and len(op.kids) == 2:
            val, tgt, kind = op.kids[0], op.kids[1], "="
        elif op.name == "padsv_store" and op.kids:
            val, tgt, kind = op.kids[0], op, "="
        elif "TARGMY" in op.flags and op.arg and op.arg.startswith("$"):
            tgt, val, kind = op, op, "targmy"
        elif op.name in BIN and "S" in op.flags.split("/")[0] and len(op.kids) == 2:
            # op-assign (STACKED): $a[$i] -= $z
            tgt, val, kind = op.kids[0], op.kids[1], BIN[op.name] + "="
        if tgt is None:
            continue
        guards = []
        a, child = op.parent, op
        depth = 0
        while a is not None:
            if a.name == "cond_expr" and len(a.kids) >= 2:
                idx = a.kids.index(child)
                if idx == 1:
                    guards.append((cond(a.kids[0]), True))
                elif idx == 2:
                    guards.append((cond(a.kids[0]), False))
            elif a.name in ("and", "or") and len(a.kids) == 2 and a.kids[1] is child and strip(child).name not in CMP and not is_cond_context(a):
                guards.append((cond(a.kids[0]), a.name == "and"))
            if a.name in ("leaveloop", "enterloop", "enteriter"):
                depth += 1
            child, a = a, a.parent
        if kind == "=" and op.name == "padsv_store":
            t = S((op.arg or "").split(":")[0])
        elif kind == "targmy":
            t = S(op.arg.split(":")[0])
            kind = "="
        else:
            t = ev(tgt)
        out.append({"target": t, "value": ev(val), "op": kind, "guards": list(reversed(guards)), "line": op.line, "node": op})
    return out


def is_cond_context(a):
    """an and/or that is itself (part of) a condition rather than a statement-level guard"""
    p = a.parent
    while p is not None and (p.name.startswith("ex-") or p.name == "null"):
        p = p.parent
    return p is not None and p.name in ("cond_expr", "and", "or", "not") and (p.name != "cond_expr" or p.kids[0] is a or strip(p.kids[0]) is a)


def calls(root):
    """[(sub name, [arg renderings], line)]"""
    out = []
    for op in walk(root):
        if op.name == "entersub":
            gvs = [k for k in walk(op) if k.name == "gv"]
            name = (gvs[-1].arg or "").lstrip("*") if gvs else "?"
            args = []
            for k in walk(op):
                if k is op:
                    continue
                if k.name in ("padav", "padsv") and k.arg:
                    args.append(k.arg.split(":")[0])
            out.append((name, args, op.line))
    return out


def load(script_rel):
    incdir = os.path.join(REPO, "csg/share/scripts/inverse")
    path = os.path.join(REPO, script_rel)
    if not os.path.exists(path):
        raise AnalysisBroken("script vanished: " + script_rel)
    return parse(concise(path, incdir))


def load_sub(module_rel, sub):
    """op-tree of one sub of a module (compile phase only): perl -MO=Concise,<Module>::<sub> -e 'use <Module>;'"""
    incdir = os.path.join(REPO, os.path.dirname(module_rel))
    mod = os.path.splitext(os.path.basename(module_rel))[0]
    if not os.path.exists(os.path.join(REPO, module_rel)):
        raise AnalysisBroken("module vanished: " + module_rel)
    env = dict(os.environ, PERL5LIB=incdir)
    p = subprocess.run(["perl", "-MO=Concise,%s::%s" % (mod, sub), "-e", "use %s;" % mod], capture_output=True, text=True, env=env, cwd=incdir)
    if "syntax OK" not in p.stderr or not p.stdout.strip():
        raise AnalysisBroken("perl cannot compile %s::%s: %s" % (mod, sub, p.stderr[-300:]))
    return parse(p.stdout)


def push_table(root, array="parts"):
    """{index of the target array reference in @_ : index of the source element of @<array> ('last' for $array[$#array])} for every
    push(@{$_[K]}, $array[..]) of the sub; plus the list of source indices that are matched against a pattern (validation)"""
    def src_index(op):
        for k in walk(op):
            if k.name == "aelemfast_lex" and (k.arg or "").startswith("@" + array):
                m = re.search(r"key=(-?\d+)", k.flags or "")
                return int(m.group(1)) if m else 0
            if k.name == "aelem" and any(x.name == "av2arylen" for x in walk(k)) and any(x.name == "padav" and (x.arg or "").startswith("@" + array) for x in walk(k)):
                return "last"
        return None
    table, matched = {}, []
    for op in walk(root):
        if op.name == "push":
            tgt = None
            kids = [k for k in op.kids if k.name not in ("pushmark", "ex-pushmark")]
            if len(kids) < 2:
                continue
            for k in walk(kids[0]):
                # @{$_[K]}: aelem(rv2av(gv[*_]), const[IV K])  or the folded form aelemfast[*_] key=K
                if k.name == "aelem" and any(x.name == "gv" and (x.arg or "") == "*_" for x in walk(k)):
                    cs = [x for x in k.kids if x.name == "const" and re.match(r"^IV -?\d+$", x.arg or "")]
                    if cs:
                        tgt = int(cs[0].arg.split()[1])
                        break
                if k.name == "aelemfast" and (k.arg or "") == "*_":
                    m = re.search(r"key=(-?\d+)", k.flags or "")
                    tgt = int(m.group(1)) if m else 0
                    break
            si = None
            for kid in kids[1:]:
                si = src_index(kid) if si is None else si
            if tgt is not None and si is not None:
                table.setdefault(tgt, []).append((si, op.line))
        if op.name == "match" and op.kids:
            si = src_index(op)
            if si is not None:
                matched.append((si, op.line))
    return table, matched
