"""DENSE - folding of straight-line fixed-size Eigen code into sympy matrices.

Same family as vsa/alg.py (expression DAG from the AST, no execution of the program): every local fixed-size Eigen object is a table of
sympy expressions, block accessors (segment/head/tail/col/row/leftCols/rightCols/operator()/x/y/z) are index views into that table, products
and sums are sympy matrix algebra.  Control flow must be decidable from the bindings the caller supplies (template arguments are literals in an
instantiation, ranks are bound to concrete integers per case); a condition that does not fold to a constant makes the analysis give up
(AnalysisBroken), it is never guessed.  Methods of repository classes (small accessors, AxA) are folded from their own bodies.
"""
import re
import sympy as sp
from vsa.front import AnalysisBroken


class Mat:
    """a mutable rows x cols table of sympy expressions (a fixed-size Eigen object)"""

    def __init__(self, rows, cols, name=None, data=None):
        self.rows, self.cols = rows, cols
        self.d = data if data is not None else [[sp.Symbol("%s[%d,%d]?" % (name or "m", i, j)) for j in range(cols)] for i in range(rows)]

    def value(self):
        return sp.Matrix(self.rows, self.cols, lambda i, j: self.d[i][j])


class View:
    def __init__(self, base, rows, cols, elem=False):
        self.base, self.rows, self.cols, self.elem = base, list(rows), list(cols), elem

    def value(self):
        if self.elem:
            return self.base.d[self.rows[0]][self.cols[0]]
        return sp.Matrix(len(self.rows), len(self.cols), lambda i, j: self.base.d[self.rows[i]][self.cols[j]])

    def assign(self, m):
        if not isinstance(m, sp.MatrixBase):
            if len(self.rows) * len(self.cols) != 1:
                raise AnalysisBroken("dense: scalar assigned to a %dx%d block" % (len(self.rows), len(self.cols)))
            m = sp.Matrix([[m]])
        if m.shape != (len(self.rows), len(self.cols)):
            if m.shape == (len(self.cols), len(self.rows)) and 1 in m.shape:
                m = m.T                                  # Eigen lets a row be assigned from a column of the same length
            else:
                raise AnalysisBroken("dense: shape mismatch in assignment: %s into %dx%d" % (m.shape, len(self.rows), len(self.cols)))
        for i, r in enumerate(self.rows):
            for j, c in enumerate(self.cols):
                self.base.d[r][c] = m[i, j]

    def sub(self, rows, cols, elem=False):
        return View(self.base, [self.rows[i] for i in rows], [self.cols[j] for j in cols], elem)


class Obj:
    def __init__(self, cls, fields):
        self.cls, self.fields = cls, fields


class Box:
    """a scalar lvalue (local or field)"""

    def __init__(self, env, key):
        self.env, self.key = env, key

    def value(self):
        return self.env[self.key]

    def assign(self, v):
        self.env[self.key] = v


class Sym:
    """marker: Lower/Upper symmetric completion of a square table"""

    def __init__(self, m, lower):
        self.m, self.lower = m, lower


class CommaInit:
    """Eigen's `m << a, b, c`: fills the target in row-major order"""

    def __init__(self, view):
        self.view, self.k = view, 0

    def push(self, x):
        nr, nc = len(self.view.rows), len(self.view.cols)
        if isinstance(x, sp.MatrixBase):
            raise AnalysisBroken("dense: block in a comma initialiser")
        if self.k >= nr * nc:
            raise AnalysisBroken("dense: too many coefficients in a comma initialiser")
        self.view.sub([self.k // nc], [self.k % nc]).assign(x)
        self.k += 1
        return self


class _Return(Exception):
    def __init__(self, v):
        self.v = v


def fixed_shape(t):
    m = re.search(r"Eigen::Matrix<double, (\d+), (\d+)", t or "")
    return (int(m.group(1)), int(m.group(2))) if m else None


class Dense:
    def __init__(self, facts, reduce=None, max_depth=6):
        self.F = facts
        self.reduce = reduce or (lambda e: e)
        self.max_depth = max_depth
        self.depth = 0

    # ------------------------------------------------------------------ values
    def val(self, x):
        if isinstance(x, (Mat, View, Box)):
            v = x.value()
            return v
        return x

    def scalar(self, x):
        x = self.val(x)
        if isinstance(x, sp.MatrixBase):
            if x.shape != (1, 1):
                raise AnalysisBroken("dense: %s matrix used as a scalar" % (x.shape,))
            return x[0, 0]
        return x

    def whole(self, x):
        if isinstance(x, Mat):
            return View(x, range(x.rows), range(x.cols))
        return x

    # ------------------------------------------------------------------ calls
    def call_function(self, f, this, args):
        if self.depth >= self.max_depth:
            raise AnalysisBroken("dense: call depth exceeded at %s" % f.qname)
        env = {}
        for p, a in zip(f.j["params"], args):
            sh = fixed_shape(p.get("type"))
            if sh and not (p.get("type") or "").rstrip().endswith("&"):
                a = Mat(sh[0], sh[1], data=[list(r) for r in self.val(a).tolist()])          # by value: a copy
            env[p["decl"]] = a
        self.depth += 1
        try:
            self.block(f.j["body"], env, this)
            r = None
        except _Return as e:
            r = e.v
        finally:
            self.depth -= 1
        return r

    def run(self, f, this, args):
        return self.call_function(f, this, args)

    def new_object(self, qname):
        rec = self.F.records.get(qname)
        if rec is None:
            raise AnalysisBroken("dense: no record facts for %s" % qname)
        fields = {}
        for fl in rec.get("fields", []):
            sh = fixed_shape(fl.get("type"))
            fields[fl["name"]] = Mat(sh[0], sh[1], name=fl["name"]) if sh else sp.Symbol(fl["name"] + "?")
        return Obj(qname, fields)

    # ------------------------------------------------------------------ statements
    def block(self, s, env, this):
        if s is None:
            return
        k = s.get("k")
        if k == "compound":
            for x in s.get("stmts", []):
                self.block(x, env, this)
        elif k == "expr":
            self.ev(s["e"], env, this)
        elif k == "decl":
            for d in s["decls"]:
                t = d.get("type") or ""
                init = d.get("init")
                sh = fixed_shape(t)
                if init is None:
                    env[d["decl"]] = Mat(sh[0], sh[1], name=d["name"]) if sh else sp.Symbol(d["name"] + "?")
                    continue
                v = self.ev(init, env, this)
                if t.rstrip().endswith("&") or isinstance(v, Obj):
                    env[d["decl"]] = v                                    # an alias
                elif sh:
                    m = self.val(v)
                    if isinstance(m, Sym):
                        raise AnalysisBroken("dense: self-adjoint view stored in a local")
                    if not isinstance(m, sp.MatrixBase):
                        raise AnalysisBroken("dense: local %s of matrix type initialised from a scalar" % d["name"])
                    if m.shape != sh and m.shape == (sh[1], sh[0]):
                        m = m.T
                    env[d["decl"]] = Mat(sh[0], sh[1], data=[list(r) for r in m.tolist()])
                else:
                    v = self.val(v)
                    if isinstance(v, sp.MatrixBase) and "Eigen::Matrix<" in t:
                        env[d["decl"]] = Mat(v.shape[0], v.shape[1], data=[list(r) for r in v.tolist()])     # dynamic-size object of known size
                    else:
                        env[d["decl"]] = self.scalar(v) if isinstance(v, sp.MatrixBase) and v.shape == (1, 1) else v
        elif k == "if":
            c = self.ev(s["cond"], env, this)
            c = self.val(c)
            if c in (True, sp.true):
                self.block(s["then"], env, this)
            elif c in (False, sp.false):
                self.block(s.get("else"), env, this)
            else:
                raise AnalysisBroken("dense: condition at line %s does not fold to a constant: %s" % (s.get("line"), c))
        elif k == "return":
            raise _Return(self.ev(s["value"], env, this) if s.get("value") is not None else None)
        elif k in ("null",):
            return
        else:
            raise AnalysisBroken("dense: statement kind %s at line %s is not modelled" % (k, s.get("line")))

    # ------------------------------------------------------------------ expressions
    def ev(self, n, env, this):
        k = n.get("k")
        if k in ("cast", "paren", "bind", "materialize", "cleanup", "implicit"):
            return self.ev(n.get("sub") or n.get("e"), env, this)
        if k == "int":
            return sp.Integer(int(n["v"]))
        if k == "bool":
            return bool(n["v"] in (True, "true", "1"))
        if k == "float":
            return sp.Rational(n.get("text").rstrip("fFlL")) if re.match(r"^[0-9.]+$", (n.get("text") or "").rstrip("fFlL")) else sp.nsimplify(float(n["v"]), rational=True)
        if k == "ref":
            if n["decl"] not in env:
                raise AnalysisBroken("dense: reference to %s, which has no value here" % n.get("name"))
            v = env[n["decl"]]
            if isinstance(v, (Mat, View, Obj, Sym)):
                return v
            return Box(env, n["decl"])
        if k == "this":
            return this
        if k == "member":
            o = self.ev(n["base"], env, this)
            if not isinstance(o, Obj) or n["fname"] not in o.fields:
                raise AnalysisBroken("dense: member %s of something that is not a modelled object" % n.get("fname"))
            v = o.fields[n["fname"]]
            return v if isinstance(v, (Mat, View, Obj)) else Box(o.fields, n["fname"])
        if k == "unop":
            v = self.val(self.ev(n["sub"], env, this))
            if n["op"] == "-":
                return -v
            if n["op"] == "+":
                return v
            if n["op"] == "!":
                return not v if isinstance(v, bool) else sp.Not(v)
            raise AnalysisBroken("dense: unary %s" % n["op"])
        if k == "binop":
            op = n["op"]
            a = self.val(self.ev(n["lhs"], env, this))
            if op in ("&&", "||"):
                a = bool(a) if a in (True, False, sp.true, sp.false) else a
                if op == "&&" and a is False:
                    return False
                if op == "||" and a is True:
                    return True
                b = self.val(self.ev(n["rhs"], env, this))
                b = bool(b) if b in (True, False, sp.true, sp.false) else b
                if isinstance(a, bool) and isinstance(b, bool):
                    return (a and b) if op == "&&" else (a or b)
                raise AnalysisBroken("dense: condition does not fold: %s %s %s" % (a, op, b))
            b = self.val(self.ev(n["rhs"], env, this))
            return self.arith(op, a, b)
        if k == "assign":
            lhs = self.ev(n["lhs"], env, this)
            rhs = self.val(self.ev(n["rhs"], env, this))
            return self.store(lhs, n["op"], rhs)
        if k == "call":
            short = n["callee"].split("::")[-1]
            args = [self.val(self.ev(a, env, this)) for a in n["args"]]
            if n["callee"] in ("std::pow", "pow") and len(args) == 2:
                return self.scalar(args[0]) ** self.scalar(args[1])
            if n["callee"] in ("std::sqrt", "sqrt"):
                return sp.sqrt(self.scalar(args[0]))
            if n["callee"] in ("std::abs", "std::fabs", "abs", "fabs"):
                return sp.Abs(self.scalar(args[0]))
            if n["callee"].startswith("Eigen::") and short in ("Zero", "Identity", "Ones"):
                sh = fixed_shape(n["callee"]) or fixed_shape(n.get("type"))
                if sh is None and re.search(r"Eigen::Matrix<double, -1, 1", n["callee"]) and len(args) == 1:
                    sh = (int(self.scalar(args[0])), 1)
                if sh is None and re.search(r"Eigen::Matrix<double, -1, -1", n["callee"]) and len(args) == 2:
                    sh = (int(self.scalar(args[0])), int(self.scalar(args[1])))
                if sh is None:
                    raise AnalysisBroken("dense: %s with a size that is not a constant" % n["callee"][-60:])
                return sp.zeros(*sh) if short == "Zero" else sp.ones(*sh) if short == "Ones" else sp.eye(sh[0])
            fs = [f for f in self.F.find(n["callee"]) if len(f.j["params"]) == len(args) and f.j.get("body")]
            if len(fs) == 1:
                return self.call_function(fs[0], None, [self.ev(a, env, this) for a in n["args"]])
            raise AnalysisBroken("dense: call of %s is not modelled" % n["callee"])
        if k == "construct":
            cal = n["callee"]
            sh = fixed_shape(n.get("type") or cal)
            if sh:
                if not n["args"]:
                    return Mat(sh[0], sh[1], name="tmp%d" % n["id"])
                if len(n["args"]) == 1:
                    v = self.val(self.ev(n["args"][0], env, this))
                    if isinstance(v, sp.MatrixBase):
                        return v
                if len(n["args"]) == sh[0] * sh[1]:
                    vs = [self.scalar(self.ev(a, env, this)) for a in n["args"]]
                    return sp.Matrix(sh[0], sh[1], vs)
                raise AnalysisBroken("dense: construction %s with %d arguments" % (cal, len(n["args"])))
            cls = cal.rsplit("::", 1)[0]
            ctors = [f for f in self.F.find(cal) if len(f.j["params"]) == len(n["args"]) and f.j.get("body")]
            if len(ctors) == 1 and cls in self.F.records:
                o = self.new_object(cls)
                if ctors[0].j.get("inits"):
                    raise AnalysisBroken("dense: constructor %s has member initialisers" % cal)
                self.call_function(ctors[0], o, [self.ev(a, env, this) for a in n["args"]])
                return o
            if len(n["args"]) == 1:                                       # copy construction of something already modelled
                return self.ev(n["args"][0], env, this)
            raise AnalysisBroken("dense: construction of %s is not modelled" % cal)
        if k in ("mcall", "opcall"):
            return self.method(n, env, this)
        if k == "cond":
            c = self.val(self.ev(n["cond"], env, this))
            if c in (True, sp.true):
                return self.ev(n["then"], env, this)
            if c in (False, sp.false):
                return self.ev(n["else"], env, this)
            raise AnalysisBroken("dense: ?: condition does not fold")
        raise AnalysisBroken("dense: expression kind %s at line %s is not modelled" % (k, n.get("line")))

    def arith(self, op, a, b):
        am, bm = isinstance(a, sp.MatrixBase), isinstance(b, sp.MatrixBase)
        if isinstance(a, Sym) or isinstance(b, Sym):
            if op == "*" and isinstance(b, Sym) and not am:
                return Sym(self.scalar(a) * b.m, b.lower)
            if op == "*" and isinstance(a, Sym):
                full = self.complete(a)
                return self.arith("*", full, b)
            raise AnalysisBroken("dense: self-adjoint view in %s" % op)
        if op == "+":
            return a + b
        if op == "-":
            return a - b
        if op == "*":
            if am and bm:
                if a.shape[1] != b.shape[0]:
                    raise AnalysisBroken("dense: product of %s and %s" % (a.shape, b.shape))
                return a * b
            return a * b
        if op == "/":
            if bm:
                raise AnalysisBroken("dense: division by a matrix")
            return a / b
        if op in ("<", ">", "<=", ">=", "==", "!="):
            if am or bm:
                raise AnalysisBroken("dense: comparison of matrices")
            r = {"<": sp.Lt, ">": sp.Gt, "<=": sp.Le, ">=": sp.Ge, "==": sp.Eq, "!=": sp.Ne}[op](a, b)
            return bool(r) if r in (sp.true, sp.false) else r
        raise AnalysisBroken("dense: operator %s" % op)

    def complete(self, s):
        m = s.m
        n_ = m.shape[0]
        return sp.Matrix(n_, n_, lambda i, j: m[max(i, j), min(i, j)] if s.lower else m[min(i, j), max(i, j)])

    def store(self, lhs, op, rhs):
        if isinstance(rhs, Sym):
            raise AnalysisBroken("dense: self-adjoint view assigned")
        lhs = self.whole(lhs)
        if not isinstance(lhs, (View, Box)):
            raise AnalysisBroken("dense: assignment to something that is not an lvalue")
        if op != "=":
            cur = lhs.value()
            if isinstance(cur, sp.MatrixBase) and not isinstance(rhs, sp.MatrixBase) and op in ("+=", "-=") and cur.shape == (1, 1):
                rhs = sp.Matrix([[rhs]])
            if isinstance(cur, sp.MatrixBase) and isinstance(rhs, sp.MatrixBase) and cur.shape != rhs.shape and op in ("+=", "-="):
                if cur.shape == (rhs.shape[1], rhs.shape[0]) and 1 in cur.shape:
                    rhs = rhs.T
                else:
                    raise AnalysisBroken("dense: %s of %s onto %s" % (op, rhs.shape, cur.shape))
            rhs = self.arith(op[:-1], cur, rhs)
        if isinstance(lhs, Box) and isinstance(rhs, sp.MatrixBase):
            rhs = self.scalar(rhs)
        lhs.assign(rhs)
        return lhs

    def method(self, n, env, this):
        ct = n.get("callee_targs") or n["callee"].split("::")[-1]
        mo = re.match(r"^operator(<<=?|<=?|>>=?|>=?|\(\)|\[\]|[^<\s\w]+)", ct)
        short = ("operator" + mo.group(1)) if mo else re.sub(r"<.*$", "", ct)
        if n["k"] == "opcall":
            objn, argn = n["args"][0], n["args"][1:]
        else:
            objn, argn = n["obj"], n["args"]
        cal = n["callee"]
        if not cal.startswith("Eigen::") and not cal.startswith("std::"):
            o = self.ev(objn, env, this)
            if isinstance(o, Obj):
                fs = [f for f in self.F.find(cal) if len(f.j["params"]) == len(argn) and f.j.get("body")]
                if len(fs) != 1:
                    raise AnalysisBroken("dense: method %s not found (or ambiguous)" % cal)
                return self.call_function(fs[0], o, [self.ev(a, env, this) for a in argn])
            raise AnalysisBroken("dense: method %s on something that is not a modelled object" % cal)
        if short.startswith("operator") and short[8:] in ("=", "+=", "-=", "*=", "/=") and len(argn) == 1:
            lhs = self.ev(objn, env, this)
            rhs = self.val(self.ev(argn[0], env, this))
            return self.store(lhs, short[8:], rhs)
        if short == "operator<<" and len(argn) == 1:
            tgt = self.whole(self.ev(objn, env, this))
            if not isinstance(tgt, View):
                raise AnalysisBroken("dense: << on something that is not a matrix")
            return CommaInit(tgt).push(self.val(self.ev(argn[0], env, this)))
        if short == "operator," and len(argn) == 1:
            ci = self.ev(objn, env, this)
            if not isinstance(ci, CommaInit):
                raise AnalysisBroken("dense: comma operator outside a comma initialiser")
            return ci.push(self.val(self.ev(argn[0], env, this)))
        if short.startswith("operator") and short[8:] in ("+", "-", "*", "/"):
            a = self.val(self.ev(objn, env, this))
            if not argn:
                return -a if short[8:] == "-" else a
            b = self.val(self.ev(argn[0], env, this))
            return self.arith(short[8:], a, b)
        o = self.ev(objn, env, this)
        ints = lambda: [int(self.scalar(self.ev(a, env, this))) for a in argn]
        if short in ("operator()", "operator[]"):
            idx = ints()
            v = self.whole(o)
            if not isinstance(v, View):
                m = self.val(v)
                return m[idx[0], idx[1]] if len(idx) == 2 else (m[idx[0]] if 1 in m.shape else None)
            if len(idx) == 2:
                return v.sub([idx[0]], [idx[1]], True)
            if len(v.cols) == 1:
                return v.sub([idx[0]], [0], True)
            if len(v.rows) == 1:
                return v.sub([0], [idx[0]], True)
            raise AnalysisBroken("dense: single index into a matrix")
        if short in ("x", "y", "z", "w"):
            i = "xyzw".index(short)
            v = self.whole(o)
            if isinstance(v, View):
                return v.sub([i], [0], True) if len(v.cols) == 1 else v.sub([0], [i], True)
            m = self.val(v)
            return m[i]
        if short in ("segment", "head", "tail", "col", "row", "leftCols", "rightCols", "topRows", "bottomRows", "block"):
            a = ints()
            v = self.whole(o)
            if not isinstance(v, View):
                m = self.val(v)
                v = View(Mat(m.shape[0], m.shape[1], data=[list(r) for r in m.tolist()]), range(m.shape[0]), range(m.shape[1]))
            nr, nc = len(v.rows), len(v.cols)
            vec_len = nr if nc == 1 else nc

            def vecsub(first, cnt):
                if first < 0 or first + cnt > vec_len or 1 not in (nr, nc):
                    raise AnalysisBroken("dense: vector block [%d,%d) of a %dx%d object" % (first, first + cnt, nr, nc))
                return v.sub(range(first, first + cnt), [0]) if nc == 1 else v.sub([0], range(first, first + cnt))
            if short == "segment" and len(a) == 2:
                return vecsub(a[0], a[1])
            if short == "head" and len(a) == 1:
                return vecsub(0, a[0])
            if short == "tail" and len(a) == 1:
                return vecsub(vec_len - a[0], a[0])
            if short == "col" and len(a) == 1:
                return v.sub(range(nr), [a[0]])
            if short == "row" and len(a) == 1:
                return v.sub([a[0]], range(nc))
            if short == "leftCols" and len(a) == 1:
                return v.sub(range(nr), range(a[0]))
            if short == "rightCols" and len(a) == 1:
                return v.sub(range(nr), range(nc - a[0], nc))
            if short == "topRows" and len(a) == 1:
                return v.sub(range(a[0]), range(nc))
            if short == "bottomRows" and len(a) == 1:
                return v.sub(range(nr - a[0], nr), range(nc))
            if short == "block" and len(a) == 4:
                return v.sub(range(a[0], a[0] + a[2]), range(a[1], a[1] + a[3]))
            if short == "block" and len(a) == 2:
                mt = re.match(r"^block<(\d+), (\d+)", n.get("callee_targs") or "")
                if mt:
                    return v.sub(range(a[0], a[0] + int(mt.group(1))), range(a[1], a[1] + int(mt.group(2))))
            raise AnalysisBroken("dense: %s with %d arguments" % (short, len(a)))
        if short == "transpose":
            return self.val(o).T
        if short == "norm":
            m = self.val(o)
            return sp.sqrt(self.reduce(sp.expand(sum(x ** 2 for x in m))))
        if short == "squaredNorm":
            m = self.val(o)
            return self.reduce(sp.expand(sum(x ** 2 for x in m)))
        if short == "dot":
            a, b = self.val(o), self.val(self.ev(argn[0], env, this))
            if a.shape != b.shape and a.shape == (b.shape[1], b.shape[0]):
                b = b.T
            if a.shape != b.shape:
                raise AnalysisBroken("dense: dot of %s and %s" % (a.shape, b.shape))
            return sum(x * y for x, y in zip(a, b))
        if short == "selfadjointView":
            up = re.search(r"selfadjointView<(\d+)", n.get("callee_targs") or "")
            if not up or int(up.group(1)) not in (1, 2):
                raise AnalysisBroken("dense: selfadjointView mode %s" % (n.get("callee_targs")))
            return Sym(self.val(o), int(up.group(1)) == 1)                  # Eigen::Lower = 1, Eigen::Upper = 2
        if short.startswith("operator ") or short in ("eval", "derived", "value"):
            v = self.val(o)
            if isinstance(v, Sym):
                v = self.complete(v)
            return self.scalar(v) if short.startswith("operator ") else v
        if short == "trace":
            return self.val(o).trace()
        if short == "Zero" and fixed_shape(n.get("type") or cal):
            sh = fixed_shape(n.get("type") or cal)
            return sp.zeros(*sh)
        if short == "Identity" and fixed_shape(n.get("type") or cal):
            sh = fixed_shape(n.get("type") or cal)
            return sp.eye(sh[0])
        if short == "diagonal":
            v = self.whole(o)
            if isinstance(v, View) and len(v.rows) == len(v.cols):
                # a diagonal is not a rectangular index set: expose it through a scratch table written back by the caller is not supported
                raise AnalysisBroken("dense: diagonal() as an lvalue is not modelled")
        raise AnalysisBroken("dense: Eigen member %s (%s) is not modelled" % (short, cal[-60:]))
