"""ALG extension: element-wise folding of std::vector<scalar> locals.

A vector local is an `EVec(e)`: the value of its generic element as a sympy expression in the index symbol K.
  X[i], X.at(i)                         -> e[K := i]
  std::accumulate(X.begin(), X.end(), c)-> c + SUMK(e[K := KB])           (KB is the bound index)
  std::transform(X.b, X.e, Y.b, lambda) -> Y := lambda(e_X)               (single-return lambdas; captures by current value)
  std::copy(X.b, X.e, Y.b), Y = X       -> Y := e_X
  std::fill(X.b, X.e, v)                -> X := v
  for (i = 0; i < <n>; ++i) { .. Y[i] = v .. }   (full-range loop, i not written, no scalar carried)  -> body folded once with i := K
  for (auto& x : X) { x = f(x) }        -> X := f(e_X)
Anything else that may write a vector (unknown callee receiving it or its iterators, push_back, clear, ...) havocs it:
the element becomes a fresh atom `havoc..`, and a rule that meets such an atom reports "shape not recognised"
(analysis broken), never a violation.
"""
import re
import sympy as sp
from .alg import Fold, S, F, Terminated, LoopBreak, Env
from .facts import unwrap, show, walk, lit_value

K = S("_k")
KB = S("_kb")
SUMK = F("SUMK")
VEC_RX = re.compile(r"^(const )?(class )?std::vector<(double|float|long|int|votca::Index)(, std::allocator<[^>]*>)?\s*>( &)?$")


class EVec:
    def __init__(self, e):
        self.e = e

    def __eq__(self, o):
        return isinstance(o, EVec) and self.e == o.e

    def __hash__(self):
        return hash(("EVec", self.e))

    def __repr__(self):
        return "EVec(%s)" % (self.e,)


def is_vec(t):
    return bool(t) and bool(VEC_RX.match(t.strip()))


PURE_METHODS = {"size", "empty", "begin", "end", "cbegin", "cend", "at", "operator[]", "front", "back", "data", "capacity"}


class VecFold(Fold):
    def __init__(self, func, **kw):
        super().__init__(func, **kw)
        self.havocs = []

    def is_vec_type(self, t):
        return is_vec(t)

    # ---------------------------------------------------------------- helpers
    def vec_decl_of(self, n, env):
        """decl id when n is (a reference to) a tracked vector local"""
        n = unwrap(n)
        while n is not None and n.get("k") in ("cast",):
            n = unwrap(n["sub"])
        if n is not None and n.get("k") == "ref" and n.get("decl") in env and isinstance(env[n["decl"]], EVec):
            return n["decl"]
        if n is not None and n.get("k") == "member" and self.is_vec_type(n.get("type") or "") and unwrap(n.get("obj") or {"k": "this"}).get("k") in ("this", None):
            key = ("field", show(n))
            if key not in env:
                env[key] = EVec(F("at")(S(show(n)), K))
            if isinstance(env[key], EVec):
                return key
        return None

    def iter_of(self, n, env):
        """(decl, 'begin'|'end') when n is X.begin()/X.end() of a tracked vector"""
        n = unwrap(n)
        while n is not None and n.get("k") in ("cast", "construct") and (n.get("sub") is not None or n.get("args")):
            n = unwrap(n["sub"] if n.get("k") == "cast" else n["args"][0])
        if n is not None and n.get("k") == "mcall":
            short = (n.get("callee") or "").split("::")[-1]
            if short in ("begin", "end", "cbegin", "cend"):
                d = self.vec_decl_of(n.get("obj"), env)
                if d is not None:
                    return d, short.lstrip("c")
        return None

    def vec_type(self, n):
        n = unwrap(n)
        while n is not None and n.get("k") in ("cast", "construct") and (n.get("sub") is not None or n.get("args")):
            n = unwrap(n["sub"] if n.get("k") == "cast" else n["args"][0])
        if n is not None and n.get("k") == "mcall" and n.get("obj") is not None:
            o = unwrap(n["obj"])
            while o.get("k") == "cast":
                o = unwrap(o["sub"])
            return o.get("type") or ""
        return ""

    def havoc(self, decl, node, why):
        nm = "havoc:%s@%s" % (self.keyname(decl), node.get("id"))
        self.havocs.append((self.keyname(decl), why, node))
        return EVec(F("at")(S(nm), K))

    def wrap(self, v, name):
        if isinstance(v, EVec):
            return v
        return EVec(F("at")(self.scalarize(v), K))

    def scalarize(self, v):
        if isinstance(v, EVec):
            return S("vec{%s}" % v.e)
        return super().scalarize(v)

    def same(self, a, b):
        if isinstance(a, EVec) or isinstance(b, EVec):
            return isinstance(a, EVec) and isinstance(b, EVec) and a.e == b.e
        return super().same(a, b)

    def ite(self, c, a, b):
        if isinstance(a, EVec) and isinstance(b, EVec):
            return EVec(super().ite(c, a.e, b.e))
        return super().ite(c, a, b)

    def index(self, b, idx, n=None):
        if isinstance(b, EVec) and len(idx) == 1 and not isinstance(idx[0], (tuple, sp.Matrix)):
            return b.e.xreplace({K: idx[0]})
        return super().index(b, idx, n)

    # ---------------------------------------------------------------- statements
    def stmt(self, s, env):
        if s is not None and s.get("k") == "decl":
            for d in s["decls"]:
                if self.is_vec_type(d.get("type") or ""):
                    if d.get("init") is not None:
                        i0 = unwrap(d["init"])
                        while i0.get("k") in ("cast",) or (i0.get("k") == "construct" and len(i0.get("args", [])) == 1 and self.is_vec_type((unwrap(i0["args"][0]).get("type") or ""))):
                            i0 = unwrap(i0["sub"] if i0.get("k") == "cast" else i0["args"][0])
                        cargs = [a_ for a_ in i0.get("args", []) if "allocator" not in (unwrap(a_).get("type") or "")] if i0.get("k") == "construct" else []
                        if i0.get("k") == "construct" and self.is_vec_type(i0.get("type") or "") and len(cargs) in (0, 1, 2) \
                                and not any(self.is_vec_type(unwrap(a_).get("type") or "") for a_ in cargs) \
                                and not any(unwrap(a_).get("k") in ("initlist", "stdinitlist") for a_ in cargs):
                            # vector<T> v; v(n); v(n, value)
                            i0 = dict(i0, args=cargs)
                            fill = self.ev(i0["args"][1], env) if len(i0["args"]) == 2 else sp.Integer(0)
                            if len(i0["args"]) >= 1:
                                self.ev(i0["args"][0], env)
                            env[d["decl"]] = EVec(fill) if not isinstance(fill, (tuple, sp.Matrix, EVec)) else EVec(F("at")(S(d["name"] + "?"), K))
                            continue
                        v = self.ev(d["init"], env)
                        env[d["decl"]] = self.wrap(v, d["name"])
                    else:
                        env[d["decl"]] = EVec(F("at")(S(d["name"] + "?"), K))
                else:
                    super().stmt({"k": "decl", "decls": [d]}, env)
            return
        return super().stmt(s, env)

    def ev_member(self, n, env):
        if self.is_vec_type(n.get("type") or ""):
            key = self.vec_decl_of(n, env)
            if key is not None:
                return env[key]
        return super().ev_member(n, env)

    def ev_ref(self, n, env):
        if n.get("dk") in ("local", "param", "staticlocal") and self.is_vec_type(n.get("type") or "") and n.get("decl") not in env:
            env[n["decl"]] = EVec(F("at")(S(n["name"]), K))
        return super().ev_ref(n, env)

    def store(self, lhs, val, env, node):
        lhs = unwrap(lhs)
        k = lhs.get("k")
        if k == "ref" and lhs.get("dk") in ("local", "param", "staticlocal") and self.is_vec_type(lhs.get("type") or ""):
            env[lhs["decl"]] = self.wrap(val, lhs["name"])
            return
        if k == "member" and self.is_vec_type(lhs.get("type") or ""):
            key = ("field", show(lhs))
            env[key] = self.wrap(val, show(lhs))
            self.event({"kind": "store", "target": show(lhs), "field": lhs.get("field"), "value": val, "node": node}, env)
            return
        # element store  Y[i] = v
        base = idx = None
        if k == "opcall" and lhs.get("op") in ("[]",) and len(lhs["args"]) == 2:
            base, idx = lhs["args"][0], lhs["args"][1]
        elif k == "mcall" and (lhs.get("callee") or "").split("::")[-1] == "at" and len(lhs.get("args", [])) == 1:
            base, idx = lhs["obj"], lhs["args"][0]
        elif k == "subscript":
            base, idx = lhs["base"], lhs["index"]
        if base is not None:
            d = self.vec_decl_of(base, env)
            if d is not None:
                iv = self.ev(idx, env)
                if iv == K and not isinstance(val, (tuple, sp.Matrix, EVec)):
                    env[d] = EVec(val)
                else:
                    env[d] = self.havoc(d, node, "element store at index %s" % (iv,))
                self.event({"kind": "store", "target": show(lhs), "target_node": lhs, "value": val, "node": node, "idx": [iv]}, env)
                return
        super().store(lhs, val, env, node)

    # ---------------------------------------------------------------- calls
    def do_call(self, n, env):
        callee = n.get("callee") or ""
        short = callee.split("::")[-1]
        args_n = n.get("args", [])
        if callee.startswith("std::") and short in ("accumulate", "transform", "copy", "fill") and n["k"] == "call":
            its = [self.iter_of(a, env) for a in args_n]
            if short == "accumulate" and len(args_n) == 3 and its[0] and its[1] and its[0][0] == its[1][0] and (its[0][1], its[1][1]) == ("begin", "end"):
                init = self.ev(args_n[2], env)
                rt = (n.get("type") or n.get("ret") or "").replace("const ", "").strip()
                vt = self.vec_type(args_n[0])
                if rt in ("int", "long", "unsigned int", "unsigned long", "short", "char", "bool", "votca::Index", "size_t") and re.search(r"double|float", vt):
                    # the accumulator has the type of the initial value: an integral init truncates every partial sum
                    return init + F("INT_SUMK")(env[its[0][0]].e.xreplace({K: KB}))
                return init + SUMK(env[its[0][0]].e.xreplace({K: KB}))
            if short == "copy" and len(args_n) == 3 and its[0] and its[1] and its[2] and its[0][0] == its[1][0] \
                    and (its[0][1], its[1][1], its[2][1]) == ("begin", "end", "begin"):
                env[its[2][0]] = EVec(env[its[0][0]].e)
                return S("copy@%s" % n["id"])
            if short == "fill" and len(args_n) == 3 and its[0] and its[1] and its[0][0] == its[1][0] and (its[0][1], its[1][1]) == ("begin", "end"):
                v = self.ev(args_n[2], env)
                if not isinstance(v, (tuple, sp.Matrix, EVec)):
                    env[its[0][0]] = EVec(v)
                    return S("fill@%s" % n["id"])
            if short == "transform" and len(args_n) == 4 and its[0] and its[1] and its[2] and its[0][0] == its[1][0] \
                    and (its[0][1], its[1][1], its[2][1]) == ("begin", "end", "begin"):
                lam = unwrap(args_n[3])
                while lam.get("k") in ("construct", "cast") and (lam.get("args") or lam.get("sub") is not None):
                    lam = unwrap(lam["args"][0] if lam.get("k") == "construct" else lam["sub"])
                v = self.apply_lambda(lam, [env[its[0][0]].e], env)
                if v is not None:
                    env[its[2][0]] = EVec(v)
                    return S("transform@%s" % n["id"])
            # unrecognised use of a known algorithm: every vector whose iterators are passed is havocked
            for it in its:
                if it:
                    env[it[0]] = self.havoc(it[0], n, "std::%s in an unrecognised form" % short)
            return S("%s@%s" % (short, n["id"]))
        if n["k"] == "mcall":
            d = self.vec_decl_of(n.get("obj"), env)
            if d is not None:
                if short == "size":
                    return F("size")(S(self.keyname(d)))
                if short == "at" and len(args_n) == 1:
                    return self.index(env[d], [self.ev(args_n[0], env)], n)
                if short in ("resize", "reserve", "shrink_to_fit"):
                    for a in args_n:
                        self.ev(a, env)
                    return S("%s@%s" % (short, n["id"]))
                if short not in PURE_METHODS:
                    env[d] = self.havoc(d, n, "call of %s" % short)
                    return S("%s@%s" % (short, n["id"]))
        if n["k"] == "opcall" and n.get("op") == "[]" and len(args_n) == 2:
            d = self.vec_decl_of(args_n[0], env)
            if d is not None:
                return self.index(env[d], [self.ev(args_n[1], env)], n)
        # unknown callee that receives a tracked vector by (non-const) reference or its iterators
        n_inl = len(self.inlined)
        v = super().do_call(n, env)
        if len(self.inlined) > n_inl and self.inlined[n_inl][1] is n:
            return v                       # folded into the caller: its effects on the vectors are already modelled
        if n["k"] in ("call", "mcall"):
            for a in args_n:
                d = self.vec_decl_of(a, env)
                it = self.iter_of(a, env)
                if it:
                    env[it[0]] = self.havoc(it[0], n, "iterators passed to %s" % callee)
                elif d is not None and self.may_write_arg(n, a):
                    env[d] = self.havoc(d, n, "passed by non-const reference to %s" % callee)
        return v

    def may_write_arg(self, call, arg):
        pts = call.get("ptypes")
        if pts:
            try:
                i = call["args"].index(arg)
                t = pts[i]
                return t.rstrip().endswith("&") and not t.lstrip().startswith("const ")
            except (ValueError, IndexError):
                return True
        return False if call.get("k") == "mcall" and (call.get("callee") or "").split("::")[-1] in PURE_METHODS else True

    def apply_lambda(self, lam, argvals, env):
        if lam.get("k") == "ref" and lam.get("decl") in env:
            # a lambda kept in a local (`auto normalise = [norm](double w) {...}`)
            lam = getattr(self, "lambdas", {}).get(str(env[lam["decl"]])) or lam
        if lam.get("k") != "lambda" or len(lam.get("params", [])) != len(argvals) or lam.get("body") is None:
            return None
        rets = [x for x in walk(lam["body"]) if x.get("k") == "return"]
        body = lam["body"]
        stmts_ = body["stmts"] if body.get("k") == "compound" else [body]
        if len(rets) != 1 or len(stmts_) != 1 or stmts_[0] is not rets[0]:
            return None
        e2 = env.copy()
        for dcl_, val_ in getattr(self, "lambda_snap", {}).get("lambda@%s" % lam.get("id"), {}).items():
            e2[dcl_] = val_                # by-value captures: the value at creation
        for p, v in zip(lam["params"], argvals):
            e2[p["decl"]] = v
        v = self.ev(rets[0]["value"], e2)
        if isinstance(v, (tuple, sp.Matrix, EVec)):
            return None
        return v

    # ---------------------------------------------------------------- loops
    def full_range(self, s, env):
        """decl of the induction variable of `for (T i = 0; i < n; ++i)` with i not written in the body"""
        if s["k"] != "for" or not s.get("init") or not s.get("cond") or not s.get("inc"):
            return None
        init = s["init"]
        if init.get("k") != "decl" or len(init["decls"]) != 1 or init["decls"][0].get("init") is None:
            return None
        d = init["decls"][0]
        if lit_value(d["init"]) != 0:
            return None
        cond, inc = unwrap(s["cond"]), unwrap(s["inc"])
        if cond.get("k") != "binop" or cond["op"] not in ("<", "!="):
            return None
        l = unwrap(cond["lhs"])
        while l.get("k") == "cast":
            l = unwrap(l["sub"])
        if l.get("decl") != d["decl"]:
            return None
        if any(x.get("k") == "ref" and x.get("decl") == d["decl"] for x in walk(cond["rhs"])):
            return None
        ok_inc = (inc.get("k") == "unop" and inc["op"] == "++" and unwrap(inc["sub"]).get("decl") == d["decl"]) or \
                 (inc.get("k") == "assign" and inc["op"] == "+=" and unwrap(inc["lhs"]).get("decl") == d["decl"] and lit_value(inc["rhs"]) == 1)
        if not ok_inc or d["decl"] in self.assigned_in(s["body"]):
            return None
        return d["decl"]

    def do_loop(self, s, env):
        k = s["k"]
        body_decls = {d["decl"] for n in walk(s.get("body")) if n.get("k") == "decl" for d in n["decls"]}
        if k == "for":
            iv = self.full_range(s, env)
            carried = {c for c in self.assigned_in(s["body"]) if c not in body_decls}
            if iv is not None:
                # element-wise loop: every element store must use the induction variable itself (checked in store());
                # scalars carried around the loop are folded as in a generic loop (acc0 + SUM(term), the index being K)
                if any(x.get("k") in ("break",) for x in walk(s["body"])):
                    for c in carried:
                        if isinstance(env.get(c), EVec):
                            env[c] = self.havoc(c, s, "loop with break")
                    return
                lid = "L%d" % s.get("line", 0)
                cond = self.ev(s["cond"]["rhs"] if unwrap(s["cond"]).get("k") == "binop" else s["cond"], env)
                start = {}
                for c in carried:
                    if c in env and not isinstance(env[c], EVec):
                        old = env[c]
                        if isinstance(old, (sp.Matrix, tuple)):
                            continue
                        a_ = S("%s@%s" % (self.keyname(c), lid))
                        start[c] = (old, a_)
                        env[c] = a_
                env[iv] = K
                mark = len(self.guards)
                self.guards.append((("each", lid, cond), True, s))
                self.begin_loop()
                try:
                    self.stmt(s["body"], env)
                except Terminated:
                    pass
                self.end_loop(env)
                del self.guards[mark:]
                env.pop(iv, None)
                for bd in body_decls:
                    env.pop(bd, None)
                for c, (old, a_) in start.items():
                    new_ = env.get(c)
                    env[c] = old if new_ is None else self.loop_result(old, a_, new_, lid, c)
                return
        if k == "rangefor":
            d = self.vec_decl_of(s.get("range"), env)
            v = s.get("var")
            if d is not None and v is not None:
                carried = {c for c in self.assigned_in(s["body"]) if c not in body_decls and c != v["decl"]}
                if not carried and not any(x.get("k") == "break" for x in walk(s["body"])):
                    env[v["decl"]] = env[d].e
                    mark = len(self.guards)
                    self.guards.append((("each", "L%d" % s.get("line", 0), None), True, s))
                    self.begin_loop()
                    try:
                        self.stmt(s["body"], env)
                    except Terminated:
                        pass
                    self.end_loop(env)
                    del self.guards[mark:]
                    t = v.get("type") or ""
                    if v["decl"] in self.assigned_in(s["body"]):
                        nv = env.get(v["decl"])
                        if "&" in t and not t.lstrip().startswith("const ") and not isinstance(nv, (tuple, sp.Matrix, EVec)) and nv is not None:
                            env[d] = EVec(nv)
                        elif "&" in t:
                            env[d] = self.havoc(d, s, "range-for element store")
                    env.pop(v["decl"], None)
                    return
        # generic loop: any tracked vector written in it is havocked afterwards
        written = [c for c in self.assigned_in(s) if isinstance(env.get(c), EVec)]
        super().do_loop(s, env)
        for c in written:
            env[c] = self.havoc(c, s, "written in a loop that is not element-wise")


from .cases import resolve_ite  # noqa: E402  (kept importable from here)


def havoc_atoms(e):
    return sorted({str(a) for a in e.free_symbols if str(a).startswith("havoc:")})
