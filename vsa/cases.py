"""Deciding folded guards and ite-terms by cases.

Fold keeps conditions structured: (op, a, b) comparisons of sympy values, ("&&"|"||", l, r), ("!", x), boolean atoms
(sympy symbols), and marker tuples ("loop"|"each"|"switch", ...).  A value that is touched only through comparisons with
finitely many landmarks (0 and N, say) has finitely many orderings; `decide` evaluates a condition for one representative
of an ordering (symbols with sympy assumptions), returning True / False / None (unknown)."""
import itertools
import sympy as sp
from .alg import S


def subst(e, sub):
    if isinstance(e, tuple):
        return tuple(subst(x, sub) for x in e)
    if hasattr(e, "xreplace"):
        return e.xreplace(sub)
    return e


def sign_cmp(op, a, b):
    try:
        d = sp.simplify(a - b)
    except Exception:
        return None
    tests = {"<": ("is_negative", "is_nonnegative"), "<=": ("is_nonpositive", "is_positive"),
             ">": ("is_positive", "is_nonpositive"), ">=": ("is_nonnegative", "is_negative"),
             "==": ("is_zero", None), "!=": (None, "is_zero")}[op]
    t, f = tests
    if t and getattr(d, t) is True:
        return True
    if f and getattr(d, f) is True:
        return False
    if op == "==" and d.is_zero is False:
        return False
    if op == "!=" and d.is_zero is False:
        return True
    return None


def decide(c, sub=None, atoms=None, oracle=None, conds=None):
    """truth of a folded condition under the substitution `sub` (sympy xreplace map) and boolean atoms {str: bool};
    oracle(leaf) may name the leaf as (predicate name, polarity): its truth is then atoms[name] == polarity"""
    sub = sub or {}
    atoms = atoms or {}
    if c is sp.true or c is True:
        return True
    if c is sp.false or c is False:
        return False
    if oracle is not None and not (isinstance(c, tuple) and c and c[0] in ("&&", "||", "!", "ite", "loop", "each", "switch")) and not (isinstance(c, tuple) and not c):
        o = oracle(c)
        if o is not None:
            name, pol = o
            if name in atoms:
                return atoms[name] == pol
    if isinstance(c, tuple):
        if not c:
            return None
        op = c[0]
        if op == "ite" and len(c) == 4:
            t = decide(c[1], sub, atoms, oracle, conds)
            if t is None:
                a_, b_ = decide(c[2], sub, atoms, oracle, conds), decide(c[3], sub, atoms, oracle, conds)
                return a_ if a_ == b_ else None
            return decide(c[2] if t else c[3], sub, atoms, oracle, conds)
        if op in ("loop", "each"):
            return True
        if op == "switch":
            return True if oracle is None else (lambda o: True if o is None else (atoms.get(o[0]) == o[1] if o[0] in atoms else None))(oracle(c))
        if op == "!" and len(c) == 2:
            r = decide(c[1], sub, atoms, oracle, conds)
            return None if r is None else (not r)
        if op in ("&&", "||") and len(c) == 3:
            l, r = decide(c[1], sub, atoms, oracle, conds), decide(c[2], sub, atoms, oracle, conds)
            if op == "&&":
                if l is False or r is False:
                    return False
                return True if (l is True and r is True) else None
            if l is True or r is True:
                return True
            return False if (l is False and r is False) else None
        if op in ("<", "<=", ">", ">=", "==", "!=") and len(c) == 3:
            a, b = c[1], c[2]
            if isinstance(a, (tuple, sp.Matrix)) or isinstance(b, (tuple, sp.Matrix)):
                return None
            if conds:
                pick = lambda cs: decide(conds[cs], sub, atoms, oracle, conds) if cs in conds else None
                a = resolve_ite(a, pick) if hasattr(a, "args") else a
                b = resolve_ite(b, pick) if hasattr(b, "args") else b
                if oracle is not None and (a is not c[1] or b is not c[2]):
                    o = oracle((op, a, b))
                    if o is not None and o[0] in atoms:
                        return atoms[o[0]] == o[1]
            a, b = subst(a, sub), subst(b, sub)
            return sign_cmp(op, a, b)
        return None
    s = str(c)
    if s in atoms:
        return atoms[s]
    if conds and str(getattr(c, "func", "")) == "ite" and len(getattr(c, "args", ())) == 3:
        # a boolean-valued ite term: its condition and branches name registered conditions
        t = decide(conds.get(str(c.args[0]), c.args[0]), sub, atoms, oracle, conds)
        br = [decide(conds.get(str(x), x), sub, atoms, oracle, conds) if (str(x) in conds or x in (sp.true, sp.false, True, False) or hasattr(x, "func")) else None for x in c.args[1:]]
        if t is None:
            return br[0] if br[0] == br[1] else None
        return br[0] if t else br[1]
    if conds and s in conds and conds[s] is not c and not isinstance(c, tuple) and isinstance(conds[s], tuple):
        return decide(conds[s], sub, atoms, oracle, conds)
    if hasattr(c, "xreplace"):
        v = c.xreplace(sub)
        if v is sp.true or v is sp.false:
            return bool(v)
        if str(v) in atoms:
            return atoms[str(v)]
    return None


def executes(event, sub=None, atoms=None, oracle=None, conds=None):
    """does the event (store/call) happen?  all its guards hold and control has not left earlier on this path"""
    res = True
    for c, pol, _n in event["guards"]:
        r = decide(c, sub, atoms, oracle, conds)
        if r is None:
            res = None
            continue
        if r != pol:
            return False
    for gl in event.get("not", []):
        allt = True
        for c, pol, _n in gl:
            r = decide(c, sub, atoms, oracle, conds)
            if r is None:
                allt = None if allt is not False else False
            elif r != pol:
                allt = False
                break
        if allt is True:
            return False
        if allt is None:
            res = None
    return res


# ------------------------------------------------------------------ ite terms (conditions are rendered strings)
def split_top(s, sep):
    depth = 0
    i = 0
    while i < len(s):
        ch = s[i]
        if ch in "([{":
            depth += 1
        elif ch in ")]}":
            depth -= 1
        elif depth == 0 and s.startswith(sep, i):
            return s[:i], s[i + len(sep):]
        i += 1
    return None


def balanced(s):
    d = 0
    for i, ch in enumerate(s):
        if ch == "(":
            d += 1
        elif ch == ")":
            d -= 1
            if d == 0 and i != len(s) - 1:
                return False
    return d == 0


def truth(cstr, atoms):
    """truth of a rendered condition string given {atom string: bool}; handles !(..), (a && b), (a || b); None if unknown"""
    s = cstr.strip()
    if s in atoms:
        return atoms[s]
    if s.startswith("!(") and s.endswith(")") and balanced(s[1:]):
        r = truth(s[2:-1], atoms)
        return None if r is None else (not r)
    if s.startswith("!"):
        r = truth(s[1:], atoms)
        return None if r is None else (not r)
    if s.startswith("(") and s.endswith(")") and balanced(s):
        inner = s[1:-1]
        for sep, f in ((" || ", "or"), (" && ", "and")):
            sp_ = split_top(inner, sep)
            if sp_:
                l, r = truth(sp_[0], atoms), truth(sp_[1], atoms)
                if f == "and":
                    if l is False or r is False:
                        return False
                    return True if (l is True and r is True) else None
                if l is True or r is True:
                    return True
                return False if (l is False and r is False) else None
        return truth(inner, atoms) if inner in atoms else None
    return None


def resolve_ite(e, choose):
    """replace ite(c, a, b) by a / b where choose(str(c)) is True / False (None keeps the ite); choose may be a dict of atoms"""
    if isinstance(choose, dict):
        atoms = choose
        choose = lambda c: truth(c, atoms)

    def rec(x):
        if not getattr(x, "args", None):
            return x
        args = [rec(a) for a in x.args]
        if str(getattr(x, "func", "")) == "ite" and len(args) == 3:
            r = choose(str(args[0]))
            if r is True:
                return args[1]
            if r is False:
                return args[2]
        try:
            return x.func(*args)
        except Exception:
            return x
    return rec(e)


def ites(e):
    return [a for a in sp.preorder_traversal(e) if str(getattr(a, "func", "")) == "ite"]


def congruent(e, Z, N):
    """e == Z (mod N) on every branch: mod(x, N) -> x - N q, each ite resolved both ways"""
    cnt = [0]

    def unmod(x):
        if not getattr(x, "args", None):
            return x
        args = [unmod(a) for a in x.args]
        if str(getattr(x, "func", "")) in ("mod", "imod") and len(args) == 2 and args[1] == N:
            cnt[0] += 1
            return args[0] - N * S("_q%d" % cnt[0])
        if str(getattr(x, "func", "")).startswith("SUM_") and len(args) == 1 and sp.expand(args[0]).subs(N, 0) == 0 and not ites(args[0]):
            cnt[0] += 1                                  # a loop that adds multiples of N
            return N * S("_q%d" % cnt[0])
        return x.func(*args)
    e = unmod(e)
    conds = sorted({str(a.args[0]) for a in ites(e)})
    if len(conds) > 6:
        return False
    for choice in itertools.product((True, False), repeat=len(conds)):
        pick = dict(zip(conds, choice))
        r = resolve_ite(e, lambda c: pick.get(c))
        d = sp.expand(r - Z)
        if ites(d) or sp.expand(d.subs(N, 0)) != 0:
            return False
    return True


def truth_table(names, fn):
    """[(assignment dict, fn(assignment))] over all 2^n assignments of the named predicates"""
    out = []
    for vals in itertools.product((True, False), repeat=len(names)):
        a = dict(zip(names, vals))
        out.append((a, fn(a)))
    return out


def table_mismatch(names, got_fn, want_fn):
    """first assignment where got != want: (assignment, got, want) - got None means undecidable; None if the tables agree"""
    for a, g in truth_table(names, got_fn):
        w = want_fn(a)
        if g is None or g != w:
            return a, g, w
    return None


def leaf_conditions(event):
    """distinct leaf conditions (comparisons / boolean atoms) in the guards of an event and of the exits before it"""
    out = {}

    def rec(c):
        if isinstance(c, tuple):
            if c and c[0] in ("&&", "||", "!"):
                for x in c[1:]:
                    rec(x)
                return
            if c and c[0] == "ite" and len(c) == 4:
                for x in c[1:]:
                    rec(x)
                return
            if c and c[0] in ("loop", "each"):
                return
            out.setdefault(str(c), c)
            return
        if c is sp.true or c is sp.false or c is True or c is False:
            return
        out.setdefault(str(c), c)
    for c, _p, _n in event["guards"]:
        rec(c)
    for gl in event.get("not", []):
        for c, _p, _n in gl:
            rec(c)
    return list(out.values())


def decision_table(event, classify, conds=None):
    """truth table of `the event happens` over all leaf conditions of its path condition.
    classify(leaf) -> (name, polarity) for the predicates the rule knows; every other leaf becomes an extra predicate '?<text>'.
    Returns (names, [(assignment, happens)])"""
    known, extra = {}, {}
    for lf in leaf_conditions(event):
        o = classify(lf)
        if o is None:
            extra[str(lf)] = "?" + str(lf)[:60]
        else:
            known[o[0]] = True
    names = sorted(known) + sorted(set(extra.values()))

    def oracle(lf):
        o = classify(lf)
        if o is not None:
            return o
        s_ = str(lf)
        return (extra[s_], True) if s_ in extra else None
    if len(names) > 10:
        return names, None
    rows = []
    for vals in itertools.product((True, False), repeat=len(names)):
        a = dict(zip(names, vals))
        rows.append((a, executes(event, None, a, oracle, conds)))
    return names, rows


def executes_rel(event, atoms, oracle, relevant, conds=None, sub=None):
    """like executes(), but only the guards for which relevant(cond) holds are evaluated; the others are taken as passed.
    An earlier exit counts as taken only when all its relevant conditions hold and its other conditions are guards of the event itself."""
    own = [(str(c), pol) for c, pol, _n in event["guards"]]
    for c, pol, _n in event["guards"]:
        if relevant(c):
            r = decide(c, sub, atoms, oracle, conds)
            if r is None:
                return None
            if r != pol:
                return False
    for gl in event.get("not", []):
        taken = True
        for c, pol, _n in gl:
            if isinstance(c, tuple) and c and c[0] in ("loop", "each"):
                continue
            if relevant(c):
                r = decide(c, sub, atoms, oracle, conds)
                if r is None:
                    return None
                if r != pol:
                    taken = False
                    break
            elif (str(c), pol) not in own:
                taken = False
                break
        if taken and any(relevant(c) for c, _p, _n in gl):
            return False
    return True
