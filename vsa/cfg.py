"""CFG utilities over the clang CFG exported per function: dominance, reachability, paths, forward dataflow."""
from .front import AnalysisBroken
from .facts import unwrap


class CFG:
    def __init__(self, func):
        self.func = func
        j = func.j.get("cfg")
        if not j:
            raise AnalysisBroken("no CFG exported for %s" % func.qname)
        self.entry = j["entry"]
        self.exit = j["exit"]
        self.blocks = {int(k): v for k, v in j["blocks"].items()}
        self.succs = {}
        self.preds = {b: [] for b in self.blocks}
        for b, blk in self.blocks.items():
            ss = []
            for s in blk["succs"]:
                ss.append(s.get("to"))
            self.succs[b] = ss
            for s in ss:
                if s is not None and b not in self.preds[s]:
                    self.preds[s].append(b)
        # element list per block: node ids (ints) with consecutive duplicates removed; dict elems kept
        self.elems = {}
        for b, blk in self.blocks.items():
            out = []
            for e in blk["elems"]:
                if isinstance(e, int):
                    if out and out[-1] == e:
                        continue
                out.append(e)
            self.elems[b] = out
        self._dom = None
        self._pdom = None
        self.where = {}   # node id -> (block, index)
        for b, es in self.elems.items():
            for i, e in enumerate(es):
                if isinstance(e, int) and e not in self.where:
                    self.where[e] = (b, i)

    # -- classification -----------------------------------------------------------------
    def node(self, i):
        return self.func.nodes.get(i)

    def last_node(self, b):
        for e in reversed(self.elems[b]):
            if isinstance(e, int):
                return self.node(e)
        return None

    def is_throw_block(self, b):
        blk = self.blocks[b]
        if blk.get("noreturn"):
            return True
        for e in self.elems[b]:
            if isinstance(e, int):
                n = self.node(e)
                if n and n.get("k") == "throw":
                    return True
        return False

    def exit_blocks(self, normal=True):
        """blocks with an edge to EXIT; normal=True excludes throwing / noreturn blocks"""
        out = []
        for b in self.blocks:
            if b == self.exit:
                continue
            if self.exit in self.succs[b]:
                if normal and self.is_throw_block(b):
                    continue
                out.append(b)
        return out

    def term(self, b):
        return self.blocks[b].get("term")

    def cond_node(self, b):
        t = self.term(b)
        if t and t.get("cond") is not None:
            return self.node(t["cond"])
        return None

    # -- orders / dominance -----------------------------------------------------------------
    def rpo(self):
        seen, order = set(), []

        def dfs(b):
            stack = [(b, iter([s for s in self.succs[b] if s is not None]))]
            seen.add(b)
            while stack:
                n, it = stack[-1]
                adv = False
                for s in it:
                    if s not in seen:
                        seen.add(s)
                        stack.append((s, iter([x for x in self.succs[s] if x is not None])))
                        adv = True
                        break
                if not adv:
                    order.append(n)
                    stack.pop()
        dfs(self.entry)
        return list(reversed(order))

    def reachable(self):
        return set(self.rpo())

    def dominators(self):
        if self._dom is None:
            order = self.rpo()
            allb = set(order)
            dom = {b: set(allb) for b in order}
            dom[self.entry] = {self.entry}
            changed = True
            while changed:
                changed = False
                for b in order:
                    if b == self.entry:
                        continue
                    ps = [p for p in self.preds[b] if p in allb]
                    new = set(allb)
                    for p in ps:
                        new &= dom[p]
                    new |= {b}
                    if new != dom[b]:
                        dom[b] = new
                        changed = True
            self._dom = dom
        return self._dom

    def dominates_block(self, a, b):
        d = self.dominators()
        return b in d and a in d[b]

    def dominates(self, na, nb):
        """node id na dominates node id nb (position-wise)"""
        if na not in self.where or nb not in self.where:
            raise AnalysisBroken("node not in CFG of %s" % self.func.qname)
        (ba, ia), (bb, ib) = self.where[na], self.where[nb]
        if ba == bb:
            return ia <= ib
        return self.dominates_block(ba, bb)

    def reaches(self, src_blocks, avoid=()):
        """set of blocks reachable from src_blocks without entering blocks in avoid"""
        seen = set()
        work = [b for b in src_blocks if b not in avoid]
        while work:
            b = work.pop()
            if b in seen:
                continue
            seen.add(b)
            for s in self.succs[b]:
                if s is not None and s not in seen and s not in avoid:
                    work.append(s)
        return seen

    def back_edge_heads(self):
        heads = set()
        color = {}

        def dfs(b):
            stack = [(b, 0)]
            color[b] = 1
            while stack:
                n, i = stack.pop()
                ss = [s for s in self.succs[n] if s is not None]
                if i < len(ss):
                    stack.append((n, i + 1))
                    s = ss[i]
                    if color.get(s) == 1:
                        heads.add(s)
                    elif s not in color:
                        color[s] = 1
                        stack.append((s, 0))
                else:
                    color[n] = 2
        dfs(self.entry)
        return heads

    # -- generic forward dataflow ----------------------------------------------------------
    def forward(self, init, transfer, join, edge=None, equal=None, widen=None, max_iter=200):
        """
        init: state at entry; transfer(state, elem, block) -> state (must not mutate input);
        join(a, b) -> state; edge(state, block, succ_index, succ_block) -> state or None (infeasible);
        widen(old, new) applied at loop heads after a few rounds.  Returns (in_states, out_states).
        """
        order = self.rpo()
        heads = self.back_edge_heads()
        IN, OUT = {}, {}
        IN[self.entry] = init
        visits = {b: 0 for b in order}
        eq = equal or (lambda a, b: a == b)
        work = list(order)
        inwork = set(work)
        it = 0
        while work:
            it += 1
            if it > max_iter * max(1, len(order)):
                raise AnalysisBroken("dataflow did not converge in %s" % self.func.qname)
            b = work.pop(0)
            inwork.discard(b)
            if b not in IN:
                continue
            st = IN[b]
            for e in self.elems[b]:
                st = transfer(st, e, b)
            OUT[b] = st
            for si, s in enumerate(self.succs[b]):
                if s is None:
                    continue
                es = edge(st, b, si, s) if edge else st
                if es is None:
                    continue
                if s in IN:
                    new = join(IN[s], es)
                    if s in heads and widen is not None:
                        visits[s] += 1
                        if visits[s] > 3:
                            new = widen(IN[s], new)
                    if eq(new, IN[s]):
                        continue
                    IN[s] = new
                else:
                    IN[s] = es
                if s not in inwork:
                    work.append(s)
                    inwork.add(s)
        return IN, OUT

    def narrow(self, IN, transfer, join, edge=None, rounds=2):
        """descending iterations from a post-fixpoint IN: in reverse post-order each block's IN is recomputed
        from its predecessors' current OUT (no widening)"""
        order = self.rpo()
        pos = {b: i for i, b in enumerate(order)}

        def out_of(b, st):
            for e in self.elems[b]:
                st = transfer(st, e, b)
            return st
        OUT = {b: out_of(b, IN[b]) for b in order if b in IN}
        for _ in range(rounds):
            for b in order:
                if b == self.entry:
                    continue
                acc = None
                for p in self.preds[b]:
                    if p not in OUT:
                        continue
                    for si, s in enumerate(self.succs[p]):
                        if s != b:
                            continue
                        es = edge(OUT[p], p, si, s) if edge else OUT[p]
                        if es is None:
                            continue
                        acc = es if acc is None else join(acc, es)
                if acc is None:
                    IN.pop(b, None)
                    OUT.pop(b, None)
                    continue
                IN[b] = acc
                OUT[b] = out_of(b, acc)
        return IN

    # -- condition edges ----------------------------------------------------------------------
    def cond_blocks(self, node_id):
        """blocks whose terminator condition is node `node_id`, possibly under leading '!': [(block, negated)]"""
        out = []
        for b in self.blocks:
            c = self.cond_node(b)
            if c is None or len(self.succs[b]) != 2:
                continue
            c = unwrap(c)
            neg = False
            while c is not None and c.get("k") == "unop" and c.get("op") == "!":
                c = unwrap(c["sub"])
                neg = not neg
            # the block that decides `A && B` / `A || B` as a whole evaluates its rightmost operand
            while c is not None and c.get("k") == "binop" and c.get("op") in ("&&", "||") and not neg:
                c = unwrap(c["rhs"])
                while c is not None and c.get("k") == "unop" and c.get("op") == "!":
                    c = unwrap(c["sub"])
                    neg = not neg
            while c is not None and c.get("k") == "cast":
                c = unwrap(c["sub"])
            if c is not None and c.get("id") == node_id:
                out.append((b, neg))
        return out

    def implied_edges(self, node_id, value):
        """edges on which the operand `node_id` of a NEGATED conjunction/disjunction is known to have `value`.  clang materialises
        !(A && B): the short-circuit flows join at the block that tests the negation, so on its false edge every conjunct is true
        (on the true edge of !(A || B) every disjunct is false).  [(block, succ index)]"""
        out = []
        for b in self.blocks:
            c = self.cond_node(b)
            if c is None or len(self.succs[b]) != 2:
                continue
            c = unwrap(c)
            neg = False
            while c is not None and c.get("k") == "unop" and c.get("op") == "!":
                c = unwrap(c["sub"])
                neg = not neg
            if c is None or not neg or c.get("k") != "binop" or c.get("op") not in ("&&", "||"):
                continue
            op = c["op"]
            ops, todo = [], [c]
            while todo:
                x = unwrap(todo.pop())
                if x.get("k") == "binop" and x.get("op") == op:
                    todo += [x["lhs"], x["rhs"]]
                else:
                    ops.append(x)
            if any(o.get("id") == node_id for o in ops):
                if op == "&&" and value is True:
                    out.append((b, 1))
                if op == "||" and value is False:
                    out.append((b, 0))
        return out

    def reachable_blocks(self, removed_edges=(), assume=None):
        """blocks reachable from entry when the given (block, succ index) edges are removed and edges contradicted by
        assume(cond node) -> True/False/None are pruned"""
        removed = set(removed_edges)
        seen = set()
        work = [self.entry]
        while work:
            b = work.pop()
            if b in seen:
                continue
            seen.add(b)
            truth = None
            if assume is not None and len(self.succs[b]) == 2:
                c = self.cond_node(b)
                if c is not None:
                    c = unwrap(c)
                    neg = False
                    while c.get("k") == "unop" and c.get("op") == "!":
                        c = unwrap(c["sub"])
                        neg = not neg
                    v = assume(c)
                    if v is not None:
                        truth = (v != neg)
            for si, s in enumerate(self.succs[b]):
                if s is None or (b, si) in removed:
                    continue
                if truth is not None and (si == 0) != truth:
                    continue
                work.append(s)
        return seen

    def edge_required(self, cond_node_id, value, target_node_id, assume=None):
        """True iff the target node is reachable only through the edge on which the condition node evaluates to `value`
        (i.e. unreachable once that edge is removed), and reachable at all.  None if the condition is no terminator."""
        cbs = self.cond_blocks(cond_node_id)
        imp = self.implied_edges(cond_node_id, value)
        if (not cbs and not imp) or target_node_id not in self.where:
            return None
        tb = self.where[target_node_id][0]
        if tb not in self.reachable_blocks(assume=assume):
            return False
        removed = list(imp)
        for b, neg in cbs:
            cond_val = (value != neg)
            removed.append((b, 0 if cond_val else 1))
        return tb not in self.reachable_blocks(removed_edges=removed, assume=assume)
