// F13a: periodic HistogramNew, value whose raw bin index is a negative multiple of nbins
#include <votca/tools/histogramnew.h>
#include <iostream>
int main() {
  votca::tools::HistogramNew h;
  h.Initialize(0.0, 10.0, 10);
  h.setPeriodic(true);
  h.Initialize(0.0, 10.0, 10);       // step = 1
  double before = h.data().y().sum();
  h.Process(-10.0);                  // raw index -10 -> nbins - ((10) % 10) = 10 : one past the end
  double after = h.data().y().sum();
  std::cout << "sum before " << before << " after " << after << std::endl;
  if (after - before != 1.0) { std::cout << "weight lost: the value was written outside the 10 bins\n"; return 1; }
  return 0;
}
