#!/bin/bash
# ./run.sh C13_periodic_wrap   (needs /repo/_build)
set -e
cd "$(dirname "$0")"
R=${REPLAY_REPO:-/repo}
B=$R/_build
out=$(mktemp -d)
g++ -std=gnu++17 -O0 -g -march=native -I$R/tools/include -I$R/csg/include -I$B/tools/include -I$B/tools/include/votca/tools \
  -I$B/csg/src/libcsg -isystem /usr/include/eigen3 $1.cc -o $out/a.out -L$B/tools/src/libtools -L$B/csg/src/libcsg \
  -lvotca_csg -lvotca_tools -lboost_program_options -lboost_filesystem -lboost_system -Wl,-rpath,$B/tools/src/libtools -Wl,-rpath,$B/csg/src/libcsg
shift
( cd $out && ./a.out "$@" ); rc=$?
rm -rf $out
exit $rc
