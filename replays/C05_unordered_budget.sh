#!/bin/bash
# builds a 5-frame LAMMPS dump from the repository's one-frame reference and runs the replay against /repo/_build (or $REPLAY_REPO/_build)
cd "$(dirname "$0")"
R=${REPLAY_REPO:-/repo}
ref=$R/csg/src/tools/references/spce
t=$(mktemp -d)
for k in 0 100 200 300 400; do awk -v k=$k 'p==1{print k; p=0; next} /ITEM: TIMESTEP/{p=1} {print}' $ref/frame.dump; done > $t/traj.dump
./run.sh C05_unordered_budget $ref/topol.xml $t/traj.dump; rc=$?
rm -rf $t
exit $rc
