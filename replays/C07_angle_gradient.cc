// F07a: IAngle::Grad must equal the numerical gradient of EvaluateVar (unequal bonds, angle != 90 degrees)
#include <votca/csg/topology.h>
#include <votca/csg/interaction.h>
#include <iostream>
using namespace votca::csg;
int main() {
  Topology top;
  top.setBox(Eigen::Matrix3d::Zero());
  top.RegisterBeadType("A");
  top.CreateResidue("R");
  Eigen::Vector3d p[3] = {{0.3, 0.1, 0.0}, {0.0, 0.0, 0.0}, {0.2, 0.9, 0.4}};
  for (int i = 0; i < 3; i++) { Bead *b = top.CreateBead(Bead::spherical, "b", "A", 0, 1, 0); b->setPos(p[i]); }
  IAngle ang(0, 1, 2);
  int rc = 0;
  Eigen::Vector3d sum = Eigen::Vector3d::Zero();
  for (int k = 0; k < 3; k++) {
    Eigen::Vector3d g = ang.Grad(top, k), num;
    sum += g;
    for (int c = 0; c < 3; c++) {
      const double h = 1e-6;
      Eigen::Vector3d q = p[k];
      q[c] += h; top.getBead(k)->setPos(q); double up = ang.EvaluateVar(top);
      q[c] -= 2 * h; top.getBead(k)->setPos(q); double dn = ang.EvaluateVar(top);
      top.getBead(k)->setPos(p[k]);
      num[c] = (up - dn) / (2 * h);
    }
    std::cout << "bead " << k << " analytic " << g.transpose() << " numeric " << num.transpose() << std::endl;
    if ((g - num).norm() > 1e-5) { std::cout << "  gradient of bead " << k << " is wrong\n"; rc = 1; }
  }
  if (sum.norm() > 1e-9) { std::cout << "gradients do not sum to zero: " << sum.transpose() << "\n"; rc = 1; }
  return rc;
}
