#!/bin/bash
# ./run_xtp_h5.sh C17_overwrite : builds a replay against xtp's checkpoint code (xtp itself is not built here:
# checkpoint.cc is compiled together with the replay; needs /repo/_build for libvotca_tools and a prior ./check run for the generated config headers)
set -e
cd "$(dirname "$0")"
GEN=$(ls -d ../cache/gen-* | head -1)
out=$(mktemp -d)
g++ -std=gnu++17 -O0 -I/repo/xtp/include -I/repo/tools/include -I$GEN/xtp -I$GEN/xtp/votca/xtp -I$GEN/tools -I$GEN/tools/votca/tools \
  -isystem /usr/include/eigen3 -isystem /usr/include/hdf5/serial $1.cc /repo/xtp/src/libxtp/checkpoint.cc -o $out/a.out \
  -L/repo/_build/tools/src/libtools -lvotca_tools -L/usr/lib/x86_64-linux-gnu/hdf5/serial -lhdf5_cpp -lhdf5 -Wl,-rpath,/repo/_build/tools/src/libtools
( cd $out && ./a.out ); rc=$?
rm -rf $out
exit $rc
