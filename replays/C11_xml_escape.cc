// F11a: a property value with markup characters must survive XML write + load
#include <votca/tools/property.h>
#include <votca/tools/propertyiomanipulator.h>
#include <fstream>
#include <iostream>
using namespace votca::tools;
int main() {
  Property root;
  Property &o = root.add("options", "");
  Property &v = o.add("expr", "a<b && c>\"d\"");
  v.setAttribute("help", "use <tag> & \"quotes\"");
  {
    std::ofstream f("rt.xml");
    PropertyIOManipulator xml(PropertyIOManipulator::XML, 1, "");
    f << xml << root;
  }
  Property back;
  try {
    back.LoadFromXML("rt.xml");
  } catch (std::exception &e) {
    std::cout << "written XML does not load: " << e.what() << "\n";
    return 1;
  }
  std::string got = back.get("options.expr").as<std::string>();
  if (got != "a<b && c>\"d\"") { std::cout << "value changed: " << got << "\n"; return 1; }
  if (back.get("options.expr").getAttribute<std::string>("help") != "use <tag> & \"quotes\"") { std::cout << "attribute changed\n"; return 1; }
  std::cout << "round trip ok\n";
  return 0;
}
