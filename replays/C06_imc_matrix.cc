// F06a/F08c: a non-symmetric IMC matrix must come back unchanged from write + read
#include <votca/csg/imcio.h>
#include <iostream>
int main() {
  Eigen::MatrixXd m(2, 3);
  m << 1, 2, 3, 4, 5, 6;
  votca::csg::imcio_write_matrix("m.gmc", m);
  Eigen::MatrixXd r = votca::csg::imcio_read_matrix("m.gmc");
  std::cout << "written\n" << m << "\nread back\n" << r << std::endl;
  if (r.rows() != 2 || r.cols() != 3 || !r.isApprox(m)) { std::cout << "matrix changed by the round trip\n"; return 1; }
  return 0;
}
