// Replay of the unchanged-tree report  C01 R1.2 setMass|Map_Ellipsoid :
// Map_Ellipsoid::Apply never calls out_->setMass, so a coarse-grained bead with <symmetry>3</symmetry>
// keeps the mass 0 that CGMoleculeDef::CreateMolecule created it with, while the same mapping with
// <symmetry>1</symmetry> (Map_Sphere) gets the sum of the parent masses.
// exit 0: both beads carry the sum of the parent masses (1+2+4 = 7); exit 1: the ellipsoidal bead does not.
#include <cmath>
#include <fstream>
#include <iostream>
#include <votca/csg/cgengine.h>
#include <votca/csg/topology.h>
using namespace votca;
using namespace votca::csg;

static double mapped_mass(int symmetry) {
  std::string fn = "map_sym" + std::to_string(symmetry) + ".xml";
  std::ofstream o(fn);
  o << "<cg_molecule><name>CG</name><ident>MOL</ident><topology><cg_beads><cg_bead><name>B1</name><type>B</type>"
       "<symmetry>" << symmetry << "</symmetry><mapping>M</mapping><beads>1:MOL:A1 1:MOL:A2 1:MOL:A3</beads>"
       "</cg_bead></cg_beads></topology><maps><map><name>M</name><weights>1 2 4</weights></map></maps></cg_molecule>\n";
  o.close();
  Topology top;
  top.setBox(Eigen::Matrix3d::Identity() * 10.0);
  top.CreateResidue("MOL");
  Molecule *mol = top.CreateMolecule("MOL");
  double m[3] = {1.0, 2.0, 4.0};
  Eigen::Vector3d p[3] = {{1, 1, 1}, {1.2, 1, 1}, {1, 1.3, 1.1}};
  for (int i = 0; i < 3; ++i) {
    std::string n = "A" + std::to_string(i + 1);
    if (!top.BeadTypeExist("C")) top.RegisterBeadType("C");
    Bead *b = top.CreateBead(Bead::spherical, n, "C", 0, m[i], 0.0);
    b->setPos(p[i]);
    mol->AddBead(b, "1:MOL:" + n);
  }
  CGEngine cg;
  cg.LoadMoleculeType(fn);
  Topology top_cg;
  std::unique_ptr<TopologyMap> map = cg.CreateCGTopology(top, top_cg);
  map->Apply();
  return top_cg.getBead(0)->getMass();
}

int main() {
  double ms = mapped_mass(1), me = mapped_mass(3);
  std::cout << "sphere bead mass " << ms << ", ellipsoid bead mass " << me << " (parents: 1+2+4 = 7)\n";
  if (std::abs(ms - 7) > 1e-12 || std::abs(me - 7) > 1e-12) {
    std::cout << "FAIL: mapped mass is not the sum of the parent masses\n";
    return 1;
  }
  std::cout << "ok\n";
  return 0;
}
