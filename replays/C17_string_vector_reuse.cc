// Replay of the unchanged-tree report  C17 R17.3 reader-target-reset|vector<string> :
// CheckpointReader::ReadData(std::vector<std::string>&) appends the stored strings to whatever the destination already
// holds (reserve + push_back, no clear) and returns at once for an empty stored list - so reading a name into an object
// that was loaded before does not return the stored value.  exit 0: the value read equals the stored one.
#include <votca/xtp/checkpoint.h>
#include <votca/xtp/checkpointwriter.h>
#include <votca/xtp/checkpointreader.h>
#include <iostream>
using namespace votca::xtp;
int main() {
  int rc = 0;
  std::vector<std::string> two = {"alpha", "beta"}, none;
  {
    CheckpointFile f("s.h5", CheckpointAccessLevel::CREATE);
    CheckpointWriter w = f.getWriter("/g");
    w(two, "two");
    w(none, "none");
  }
  CheckpointFile f("s.h5", CheckpointAccessLevel::READ);
  CheckpointReader r = f.getReader("/g");
  std::vector<std::string> dst = {"old1", "old2", "old3"};
  r(dst, "two");
  std::cout << "stored 2 strings, destination held 3: read back " << dst.size() << "\n";
  if (dst != two) { std::cout << "FAIL: value read differs from the stored one\n"; rc = 1; }
  dst = {"old"};
  r(dst, "none");
  std::cout << "stored 0 strings, destination held 1: read back " << dst.size() << "\n";
  if (dst != none) { std::cout << "FAIL: stale content survives reading an empty list\n"; rc = 1; }
  return rc;
}
