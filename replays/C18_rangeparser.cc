// F18a/b: stride 0 must be rejected; a descending range accepted by the parser must be enumerated completely
#include <votca/tools/rangeparser.h>
#include <iostream>
#include <vector>
int main() {
  int rc = 0;
  votca::tools::RangeParser rp;
  rp.Parse("5:-1:1");
  std::vector<long> got;
  for (votca::Index i : rp) { got.push_back(i); if (got.size() > 20) break; }
  std::cout << "5:-1:1 ->";
  for (long v : got) std::cout << " " << v;
  std::cout << std::endl;
  if (got != std::vector<long>{5, 4, 3, 2, 1}) { std::cout << "descending range not enumerated as 5 4 3 2 1\n"; rc = 1; }
  try {
    votca::tools::RangeParser z;
    z.Parse("1:0:5");
    std::cout << "stride 0 accepted (iteration would never terminate)\n";
    rc = 1;
  } catch (std::exception &e) { std::cout << "stride 0 rejected: " << e.what() << "\n"; }
  return rc;
}
