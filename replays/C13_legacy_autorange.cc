// F13b: legacy Histogram with automatic range on all-negative data; F13c: 'bond' scaling with max == 0
#include <votca/tools/histogram.h>
#include <votca/tools/datacollection.h>
#include <iostream>
using namespace votca::tools;
int main() {
  DataCollection<double> dc;
  auto *a = dc.CreateArray("a");
  for (double v : {-5.0, -4.0, -3.5, -3.0}) a->push_back(v);
  DataCollection<double>::selection *sel = dc.select("a");
  Histogram::options_t op;
  op.auto_interval_ = true; op.n_ = 5; op.normalize_ = false;
  Histogram h(op);
  h.ProcessData(sel);
  std::cout << "auto range [" << h.getMin() << ", " << h.getMax() << "] for data in [-5,-3]\n";
  int rc = 0;
  if (h.getMax() > -2.99) { std::cout << "automatic range does not cover exactly the data\n"; rc = 1; }
  delete sel;
  return rc;
}
