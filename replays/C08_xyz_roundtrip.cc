// Replay: an xyz frame written by XYZWriter::Write(Topology*) is read back by XYZReader (trajectory mode).
// exit 0: positions come back (within the printed precision); exit 1: the reader rejects the writer's own file or positions differ.
#include <votca/csg/topology.h>
#include <votca/csg/xyzwriter.h>
#include <votca/csg/xyzreader.h>
#include <iostream>
using namespace votca::csg;
static void fill(Topology &top, double shift) {
  top.setBox(Eigen::Matrix3d::Identity() * 5.0);
  top.CreateResidue("R");
  top.RegisterBeadType("C");
  for (int i = 0; i < 3; ++i) {
    Bead *b = top.CreateBead(Bead::spherical, "C", "C", 0, 12.0, 0.0);
    b->setPos(Eigen::Vector3d(0.1 * i + shift, 0.2 * i, 0.3 * i));
  }
}
int main() {
  Topology a, b;
  fill(a, 0.0);
  fill(b, 1.0);
  XYZWriter w;
  w.Open("t.xyz", false);
  w.Write(&a);
  w.Close();
  XYZReader r;
  r.Open("t.xyz");
  try {
    r.FirstFrame(b);
  } catch (std::exception &e) {
    std::cout << "FAIL: reader rejects the writer's file: " << e.what() << "\n";
    return 1;
  }
  for (int i = 0; i < 3; ++i)
    if ((a.getBead(i)->getPos() - b.getBead(i)->getPos()).norm() > 1e-4) { std::cout << "FAIL: bead " << i << " differs: wrote " << a.getBead(i)->getPos().transpose() << " read " << b.getBead(i)->getPos().transpose() << "\n"; return 1; }
  std::cout << "ok\n";
  return 0;
}
