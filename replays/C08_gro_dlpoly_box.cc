// F08b/F08d: a triclinic box must survive a gro and a dlpoly write/read round trip
#include <votca/csg/topology.h>
#include <votca/csg/trajectorywriter.h>
#include <votca/csg/trajectoryreader.h>
#include <iostream>
using namespace votca::csg;
static int roundtrip(const std::string &file) {
  Topology top;
  Eigen::Matrix3d box;
  box << 4, 1, -1.5, 0, 3, 1.4, 0, 0, 3.5;
  top.setBox(box);
  top.RegisterBeadType("A"); top.CreateResidue("R");
  for (int i = 0; i < 2; i++) { Bead *b = top.CreateBead(Bead::spherical, "A", "A", 0, 1, 0); b->setPos(Eigen::Vector3d(0.1 * i, 0.2, 0.3)); b->setVel(Eigen::Vector3d::Zero()); b->setF(Eigen::Vector3d::Zero()); }
  top.setStep(1); top.setTime(1.0);
  auto w = TrjWriterFactory().Create(file);
  w->Open(file); w->Write(&top); w->Close();
  Topology back;
  back.RegisterBeadType("A"); back.CreateResidue("R");
  for (int i = 0; i < 2; i++) back.CreateBead(Bead::spherical, "A", "A", 0, 1, 0);
  auto r = TrjReaderFactory().Create(file);
  r->Open(file); r->FirstFrame(back); r->Close();
  std::cout << file << ": box read back\n" << back.getBox() << std::endl;
  if (!back.getBox().isApprox(box, 1e-4)) { std::cout << "  box changed by the round trip\n"; return 1; }
  return 0;
}
int main() {
  TrajectoryWriter::RegisterPlugins();
  TrajectoryReader::RegisterPlugins();
  int rc = roundtrip("t.gro");
  rc |= roundtrip("t.dlph");
  return rc;
}
