// C05, unordered mode (SynchronizeThreads() == false) with a frame budget (--nframes K): the master's worker holds the first frame of interest,
// read before the threads start; every other worker reads the *following* frames and decrements the same budget.  If the other workers use the
// budget up before the master's first ProcessData call, the master returns without evaluating the frame it holds: the set of processed frames is
// {2..K+1} instead of {1..K}, i.e. it depends on the schedule.  The replay makes that schedule deterministic by letting thread 0 start late
// (Worker::Run is a protected virtual: the delay is in the replay, not in the library).
//   ./run.sh C05_unordered_budget <topol.xml> <traj> ; exit 0 = frames {first K} processed, exit 1 = schedule-dependent set
#include <votca/csg/csgapplication.h>
#include <algorithm>
#include <chrono>
#include <iostream>
#include <thread>
using namespace votca::csg;
using votca::Index;

class W : public CsgApplication::Worker {
 public:
  void EvalConfiguration(Topology *top, Topology *) override { seen_.push_back(top->getStep()); }
  std::vector<Index> seen_;

 protected:
  void Run() override {
    if (getId() == 0) std::this_thread::sleep_for(std::chrono::milliseconds(300));
    CsgApplication::Worker::Run();
  }
};

class App : public CsgApplication {
 public:
  std::string ProgramName() override { return "replay"; }
  void HelpText(std::ostream &) override {}
  bool DoTrajectory() override { return true; }
  bool DoMapping() override { return true; }
  bool DoMappingDefault() override { return false; }
  bool DoThreaded() override { return true; }
  bool SynchronizeThreads() override { return false; }
  void BeginEvaluate(Topology *top, Topology *) override { first_ = top->getStep(); }
  std::unique_ptr<Worker> ForkWorker() override { return std::make_unique<W>(); }
  void MergeWorker(Worker *w) override {
    for (Index s : static_cast<W *>(w)->seen_) merged_.push_back(s);
  }
  void EndEvaluate() override { std::sort(merged_.begin(), merged_.end()); }
  std::vector<Index> merged_;
  Index first_ = -1;
};

int main(int argc, char **argv) {
  if (argc < 3) return 2;
  App app;
  const char *av[] = {"replay", "--top", argv[1], "--trj", argv[2], "--nt", "3", "--nframes", "1"};
  int rc = app.Exec(9, const_cast<char **>(av));
  if (rc != 0) return 2;
  std::cout << "first frame of interest: step " << app.first_ << "; processed:";
  for (Index s : app.merged_) std::cout << " " << s;
  std::cout << "\n";
  bool ok = app.merged_.size() == 1 && app.merged_[0] == app.first_;
  std::cout << (ok ? "OK: the one budgeted frame is the first frame of interest\n"
                   : "DEFECT: with --nframes 1 the frame the master holds was dropped and a later frame was processed instead\n");
  return ok ? 0 : 1;
}
