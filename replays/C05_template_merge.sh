#!/bin/bash
# C05, ordered mode: csg/share/template/template_threaded (an anchored threaded application) must write the same rdf.dat for every --nt.
# Before fix 183aadea9 the worker histogram was never emptied after a merge, so every merge re-added the frames already merged:
# 5 identical frames gave 15 / 9 / 7 frame-units for --nt 1 / 2 / 3.   exit 0 = identical files, exit 1 = they differ
R=${REPLAY_REPO:-/repo}
ref=$R/csg/src/tools/references/spce
t=$(mktemp -d)
for k in 0 100 200 300 400; do awk -v k=$k 'p==1{print k; p=0; next} /ITEM: TIMESTEP/{p=1} {print}' $ref/frame.dump; done > $t/traj.dump
rc=0
for nt in 1 2 3; do
  mkdir $t/nt$nt
  ( cd $t/nt$nt && $R/_build/csg/share/template/template_threaded --top $ref/topol.xml --trj $t/traj.dump --nt $nt --c 1.0 > log 2>&1 )
  echo "--nt $nt: $(md5sum < $t/nt$nt/rdf.dat | cut -c1-12)  $(sed -n 20p $t/nt$nt/rdf.dat)"
  cmp -s $t/nt1/rdf.dat $t/nt$nt/rdf.dat || rc=1
done
[ $rc = 0 ] && echo "OK: rdf.dat does not depend on --nt" || echo "DEFECT: rdf.dat depends on the number of threads"
rm -rf $t
exit $rc
