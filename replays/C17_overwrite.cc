#include <votca/xtp/checkpoint.h>
#include <votca/xtp/checkpointwriter.h>
#include <votca/xtp/checkpointreader.h>
#include <iostream>
using namespace votca::xtp;
int main() {
  int rc = 0;
  {
    CheckpointFile f("t.h5", CheckpointAccessLevel::CREATE);
    CheckpointWriter w = f.getWriter("/g");
    Eigen::MatrixXd a = Eigen::MatrixXd::Constant(3, 2, 1.5);
    w(a, "m");
    Eigen::MatrixXd b = Eigen::MatrixXd::Constant(2, 4, 2.5);
    try { w(b, "m"); } catch (std::exception &e) { std::cout << "rewrite with another shape threw: " << e.what() << "\n"; rc = 1; }
    std::vector<Eigen::Vector3d> v3(3, Eigen::Vector3d::Ones());
    w(v3, "v");
    std::vector<Eigen::Vector3d> v1(1, Eigen::Vector3d::Zero());
    try { w(v1, "v"); } catch (std::exception &e) { std::cout << "rewrite v threw: " << e.what() << "\n"; rc = 1; }
  }
  {
    CheckpointFile f("t.h5", CheckpointAccessLevel::READ);
    CheckpointReader r = f.getReader("/g");
    Eigen::MatrixXd m;
    r(m, "m");
    std::cout << "m read back: " << m.rows() << "x" << m.cols() << " first " << (m.size() ? m(0, 0) : 0) << "\n";
    if (m.rows() != 2 || m.cols() != 4) { std::cout << "old value was not replaced\n"; rc = 1; }
    std::vector<Eigen::Vector3d> v;
    r(v, "v");
    std::cout << "v read back: " << v.size() << " elements\n";
    if (v.size() != 1) { std::cout << "stale list members survive the rewrite\n"; rc = 1; }
  }
  return rc;
}
