// host unit: header-only conversion helpers (convert_impl overloads live in tokenizer.h)
#include <votca/tools/tokenizer.h>
// instantiations of the arithmetic conversion (R11.9 looks at both the template pattern and these)
namespace vsa_host {
inline double to_double(const std::string &s) { return votca::tools::convertFromString<double>(s); }
inline long to_long(const std::string &s) { return votca::tools::convertFromString<long>(s); }
inline double (*keep_d)(const std::string &) = &to_double;
inline long (*keep_l)(const std::string &) = &to_long;
}  // namespace vsa_host
