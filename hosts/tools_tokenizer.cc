// host unit: header-only conversion helpers (convert_impl overloads live in tokenizer.h)
#include <votca/tools/tokenizer.h>
