// host unit: instantiates the header-only checkpoint reader/writer for the value kinds of the property
#include <votca/xtp/checkpoint.h>
#include <votca/xtp/checkpointreader.h>
#include <votca/xtp/checkpointwriter.h>
namespace {
void instantiate(votca::xtp::CheckpointWriter &w, votca::xtp::CheckpointReader &r) {
  int i = 0; votca::Index l = 0; double d = 0; bool b = false; std::string s;
  std::vector<double> vd; std::vector<votca::Index> vi; std::vector<std::string> vs;
  Eigen::MatrixXd m; Eigen::VectorXd v; Eigen::Vector3d v3; std::vector<Eigen::Vector3d> vv3;
  w(i, "i"); r(i, "i"); w(l, "l"); r(l, "l"); w(d, "d"); r(d, "d"); w(b, "b"); r(b, "b"); w(s, "s"); r(s, "s");
  w(vd, "vd"); r(vd, "vd"); w(vi, "vi"); r(vi, "vi"); w(vs, "vs"); r(vs, "vs");
  w(m, "m"); r(m, "m"); w(v, "v"); r(v, "v"); w(v3, "v3"); r(v3, "v3"); w(vv3, "vv3"); r(vv3, "vv3");
}
}  // namespace
