// host unit: header-only pair / triple lists and exclusion list
#include <votca/csg/beadpair.h>
#include <votca/csg/beadtriple.h>
#include <votca/csg/exclusionlist.h>
#include <votca/csg/pairlist.h>
#include <votca/csg/triplelist.h>
namespace {
void instantiate() {
  votca::csg::PairList<votca::csg::Bead *, votca::csg::BeadPair> pl;
  votca::csg::Bead *a = nullptr, *b = nullptr;
  pl.FindPair(a, b);
  votca::csg::TripleList<votca::csg::Bead *, votca::csg::BeadTriple> tl;
  tl.FindTriple(a, b, a);
}
}  // namespace
