// host unit: instantiates the header-only xyz/pdb reader and writer templates for csg topologies
#include <votca/csg/topology.h>
#include <votca/csg/xyzreader.h>
#include <votca/csg/xyzwriter.h>
#include <votca/csg/pdbwriter.h>
namespace {
void instantiate(votca::csg::Topology &top) {
  votca::csg::XYZWriter w;
  w.Write(&top);
  votca::csg::XYZReader r;
  r.NextFrame(top);
  r.ReadTopology("x", top);
  votca::csg::PDBWriter p;
  p.Write(&top);
}
}  // namespace
