// host unit: pulls the header-only unit/constant code into one translation unit
#include <votca/tools/constants.h>
#include <votca/tools/unitconverter.h>
#include <votca/csg/units.h>
