// host unit: pulls the header-only bonded interactions into one translation unit
#include <votca/csg/interaction.h>
#include <votca/csg/topology.h>
