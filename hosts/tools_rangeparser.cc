// host unit: header-only parts of RangeParser (printer, iterator helpers)
#include <votca/tools/rangeparser.h>
#include <sstream>
namespace { void use() { votca::tools::RangeParser r; std::ostringstream o; o << r; } }
