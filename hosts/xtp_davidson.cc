// host unit: instantiates the Davidson solver template for a dense matrix
#include <votca/xtp/davidsonsolver.h>
template void votca::xtp::DavidsonSolver::solve<Eigen::MatrixXd>(const Eigen::MatrixXd &, votca::Index, votca::Index);
