#!/usr/bin/env python3
"""Armed-ness self-test: applies each one-instance mutant of selftest/mutants.json to a scratch copy of the
sources (never to /repo), runs the property check against the copy and compares the verdict:
  kind=break  -> exit 1 and the expected rule id reported
  kind=benign -> exit 0 (behaviour-preserving twin: the rule must stay silent)
usage: selftest/run.py [pid ...]"""
import json, os, shutil, subprocess, sys, tempfile
HERE = os.path.dirname(os.path.abspath(__file__))
VERIF = os.path.dirname(HERE)
muts = json.load(open(os.path.join(HERE, "mutants.json")))
want = set(sys.argv[1:])
bad = 0
for m in muts:
    if want and m["pid"] not in want and m["name"] not in want:
        continue
    d = tempfile.mkdtemp(prefix="vsa-mut-")
    try:
        for sub in ("tools", "csg", "xtp"):
            shutil.copytree(os.path.join("/repo", sub), os.path.join(d, sub), symlinks=True)
        if m.get("patch"):
            pr = subprocess.run(["patch", "-p1", "-s", "-d", d, "-i", os.path.join(VERIF, m["patch"])], capture_output=True, text=True)
            if pr.returncode != 0:
                print("MUTANT-STALE %s: patch does not apply: %s" % (m["name"], pr.stdout[-300:]))
                bad += 1
                continue
        for ed in m.get("edits", []):
            p = os.path.join(d, ed["file"])
            s = open(p).read()
            if s.count(ed["old"]) != 1:
                print("MUTANT-STALE %s: pattern occurs %d times in %s" % (m["name"], s.count(ed["old"]), ed["file"]))
                bad += 1
                break
            open(p, "w").write(s.replace(ed["old"], ed["new"]))
        else:
            env = dict(os.environ, VSA_REPO=d, VSA_EVIDENCE=os.path.join(d, "evidence"))
            r = subprocess.run([os.path.join(VERIF, "check"), m["pid"], "--tier", "quick"], env=env, capture_output=True, text=True, timeout=900)
            out = r.stdout + r.stderr
            if m["kind"] == "break":
                ok = r.returncode == 1 and ("rule %s " % m["expect"]) in out
            else:
                ok = r.returncode == 0
            print("%s %-8s %-40s rc=%d %s" % ("ok  " if ok else "FAIL", m["kind"], m["name"], r.returncode, m.get("expect", "")))
            if not ok:
                bad += 1
                print("\n".join(out.splitlines()[-12:]))
    finally:
        shutil.rmtree(d, ignore_errors=True)
sys.exit(1 if bad else 0)
