#!/usr/bin/env python3
"""Armed-ness self-test: applies each one-instance mutant of selftest/mutants.json to a scratch copy of the
sources (never to /repo), runs the property check against the copy and compares the verdict:
  kind=break  -> exit 1 and the expected rule id reported
  kind=benign -> exit 0 (behaviour-preserving twin: the rule must stay silent)
  kind=undetected -> a confirmed seeded break in a clause declared not decided (documented miss; only exit 2 counts as a failure)
usage: selftest/run.py [pid|mutant-name ...]"""
import json, os, shutil, subprocess, sys, tempfile
from concurrent.futures import ThreadPoolExecutor
HERE = os.path.dirname(os.path.abspath(__file__))
VERIF = os.path.dirname(HERE)


def run_one(m, repo="/repo"):
    d = tempfile.mkdtemp(prefix="vsa-mut-")
    try:
        for sub in ("tools", "csg", "xtp"):
            shutil.copytree(os.path.join(repo, sub), os.path.join(d, sub), symlinks=True)
        if m.get("patch"):
            pr = subprocess.run(["patch", "-p1", "-s", "-d", d, "-i", os.path.join(VERIF, m["patch"])], capture_output=True, text=True)
            if pr.returncode != 0:
                return {"name": m["name"], "ok": False, "stale": True, "detail": "patch does not apply: " + pr.stdout[-200:]}
        for ed in m.get("edits", []):
            p = os.path.join(d, ed["file"])
            s = open(p).read()
            if s.count(ed["old"]) != 1:
                return {"name": m["name"], "ok": False, "stale": True, "detail": "pattern occurs %d times in %s" % (s.count(ed["old"]), ed["file"])}
            open(p, "w").write(s.replace(ed["old"], ed["new"]))
        env = dict(os.environ, VSA_REPO=d, VSA_EVIDENCE=os.path.join(d, "evidence"))
        env.pop("VERIF_TIER", None)
        r = subprocess.run([os.path.join(VERIF, "check"), m["pid"], "--tier", "quick"], env=env, capture_output=True, text=True, timeout=900)
        out = r.stdout + r.stderr
        if m["kind"] == "break":
            ok = r.returncode == 1 and ("rule %s " % m["expect"]) in out
        elif m["kind"] == "undetected":
            # a confirmed seeded break in a clause the check declares as not decided: kept so that the miss stays visible (rc shows whether a later rule reports it)
            ok = r.returncode in (0, 1)
        else:
            ok = r.returncode == 0
        return {"name": m["name"], "kind": m["kind"], "expect": m.get("expect", ""), "rc": r.returncode, "ok": ok, "stale": False, "tail": "\n".join(out.splitlines()[-8:])}
    except subprocess.TimeoutExpired:
        return {"name": m["name"], "ok": False, "stale": False, "detail": "timeout"}
    finally:
        shutil.rmtree(d, ignore_errors=True)


def select(want):
    muts = json.load(open(os.path.join(HERE, "mutants.json")))
    return [m for m in muts if not want or m["pid"] in want or m["name"] in want]


def run_many(muts, jobs=4):
    with ThreadPoolExecutor(max_workers=jobs) as ex:
        return list(ex.map(run_one, muts))


if __name__ == "__main__":
    bad = 0
    for r in run_many(select(set(sys.argv[1:])), jobs=int(os.environ.get("SELFTEST_JOBS", "4"))):
        if r.get("stale"):
            print("MUTANT-STALE %s: %s" % (r["name"], r["detail"]))
            bad += 1
            continue
        print("%s %-8s %-40s rc=%s %s" % ("ok  " if r["ok"] else "FAIL", r.get("kind", "?"), r["name"], r.get("rc", "?"), r.get("expect", "")))
        if not r["ok"]:
            bad += 1
            print(r.get("tail") or r.get("detail", ""))
    sys.exit(1 if bad else 0)
