"""C01 - coarse-grained mapping: unwrap-before-sum dataflow, weights, half-box guard, box propagation (ALG, PATH, SIB)."""
import re
import sympy as sp
from sympy import Matrix
from vsa import front
from vsa.facts import Facts, unwrap, show, walk, lit_value
from vsa.front import AnalysisBroken
from vsa.alg import Fold, S, F as Fn, equal, is_zero, vec_atoms, guard_strs, sqrt
from vsa.cfg import CFG

LEVEL = "proof"
C = "votca::csg::"
BC = C + "BoundaryCondition::"
FIRST_RX = r"matrix_\.(front\(\)|at\(0\)|\[0\])\.in_"


def run(rep, tier):
    rep.explanation = ("ALG: each BeadMap::Apply override is folded (loops as SUM/LOOP terms, guards as ite) and the values "
                       "reaching Bead::setPos/setVel/setF/setMass are compared with the property's formulas; the "
                       "BCShortestConnection calls are intercepted so that 'every parent position enters the sum only "
                       "through BC(r0, pos)+r0 with r0 the first parent' is checked on the dataflow. PATH: the half-box "
                       "comparison guards every path to setPos; box propagation precedes the per-molecule maps. "
                       "Weight normalisation in Map_Sphere::Initialize is checked on the AST.")
    rep.rule("R1.1", "the only value reaching out_->setPos is SUM_el el.weight_*(BC(r0, el.in_->getPos()) + r0), with BC = "
                     "BoundaryCondition::BCShortestConnection and r0 = position of the first parent")
    rep.rule("R1.2", "velocity = SUM weight_*getVel, force = SUM force_weight_*getF, mass = SUM getMass (every bead map); no return precedes the write-back")
    rep.rule("R1.3", "Map_Sphere::Initialize: stored weight = w_i/SUM w; force weight = (d_i/SUM d)/(w_i/SUM w) (d := w when absent); "
                     "w_i = 0 with d_i != 0 and size mismatches throw; AddElem stores (weight, force_weight) in that order")
    rep.rule("R1.4", "every path to setPos passes the comparison max_dist > 0.5*getShortestBoxDimension() (throw on true), "
                     "skipped only for open boxes; max_dist is the maximum over the same BC(r0, .) norms that are summed")
    rep.rule("R1.5", "TopologyMap::Apply sets the box of the output topology from the input before any Map::Apply and maps with the output topology's boundary")
    units = [front.repo("csg/src/libcsg/map.cc"), front.repo("csg/src/libcsg/topologymap.cc"),
             front.repo("csg/src/libcsg/cgmoleculedef.cc"), front.repo("csg/src/libcsg/cgengine.cc")]
    F = Facts(front.export(units))
    rep.units = units

    ov = F.overriders(C + "BeadMap::Apply")
    names = sorted(f.qname for f in ov)
    known = [C + "Map_Ellipsoid::Apply", C + "Map_Sphere::Apply"]
    for n in set(names) - set(known):
        rep.broken("R1.1", "unknown BeadMap::Apply override %s: add it to rules/C01.py" % n)
    for n in set(known) - set(names):
        rep.broken("R1.1", "override %s vanished" % n)
    for f in ov:
        if f.qname in known:
            rep.analysed(f)
            check_apply(rep, f)

    init = F.one(C + "Map_Sphere::Initialize")
    rep.analysed(init)
    check_initialize(rep, init, F)

    ta = F.one(C + "TopologyMap::Apply")
    rep.analysed(ta)
    check_topologymap(rep, ta)
    ma = F.one(C + "Map::Apply")
    rep.analysed(ma)
    calls = [n for n in ma.walk() if n.get("k") == "mcall" and n.get("callee") == C + "BeadMap::Apply"]
    ok = len(calls) == 1 and unwrap(calls[0]["args"][0]).get("decl") == ma.j["params"][0]["decl"] and \
        any(a.get("k") == "rangefor" and show(a["range"]) == "maps_" for a in ma.anc(calls[0])) if hasattr(ma, "anc") else None
    if ok is None:
        ok = len(calls) == 1 and unwrap(calls[0]["args"][0]).get("decl") == ma.j["params"][0]["decl"] and \
            any(a.get("k") == "rangefor" and show(a["range"]) == "maps_" for a in ma.ancestors(calls[0]))
    rep.check(ok, "R1.5", "Map::Apply", "Map::Apply forwards its boundary to every bead map",
              "Map::Apply does not apply every bead map with the boundary it was given", ma.loc())
    check_tables(rep, F)
    rep.assumptions += ["HasPos/HasVel/HasF guards are kept as uninterpreted conditions (a parent without a position contributes nothing)",
                        "floating-point rounding of the sums is not modelled; the convex-hull corollary follows from R1.1+R1.3 for non-negative weights"]


def nows(x):
    return re.sub(r"\s+", "", x)


def check_tables(rep, F):
    # ---- R1.7 every mapping definition is an object of its own: no mutable process-wide (function-local static) state in the classes that hold
    # or apply a definition - a static cache keyed by name makes the second molecule type use the first one's map of the same name
    rep.rule("R1.7", "CGMoleculeDef, CGEngine, Map, BeadMap subclasses and TopologyMap keep no mutable function-local static state: what a definition resolves "
                     "to depends on that definition alone, not on the definitions looked up before in the process")
    n_fn = 0
    for f_ in F.funcs:
        cls_ = (f_.j.get("class") or "")
        if f_.j["template"] == "pattern" or not re.search(r"(CGMoleculeDef|CGEngine|TopologyMap|\bMap\b|BeadMap|Map_Sphere|Map_Ellipsoid)$", cls_.split("::")[-1] if cls_ else ""):
            continue
        n_fn += 1
        stat = [d for d in f_.decls.values() if d.get("static") and not re.match(r"^\s*(const|constexpr)\b", d.get("type") or "")]
        rep.check(not stat, "R1.7", "no-static-state|" + f_.qname.split("votca::csg::")[-1] + "/%d" % len(f_.j["params"]), "no mutable static local",
                  "%s keeps the function-local static '%s' (%s): it is shared by all mapping definitions of the process, so with two molecule types that reuse a name "
                  "(e.g. a map 'A' in both files of --cg \"a.xml;b.xml\") the second is resolved to the first one's entry and its beads are mapped with foreign weights"
                  % (f_.qname, stat[0].get("name") if stat else "", (stat[0].get("type_written") or stat[0].get("type") or "")[:60] if stat else ""), f_.loc(), sample=bool(stat) or n_fn == 1)
    rep.floor("R1.7", n_fn, 15, "member functions of the definition/mapping classes")
    rep.rule("R1.6", "definition tables: symmetry 1 -> spherical map, 3 -> ellipsoidal map, anything else throws (both when parsing and when creating the "
                     "map); bonded tag -> interaction class -> bead count agree (bond/IBond/2, angle/IAngle/3, dihedral/IDihedral/4); the CG topology "
                     "rebuilds its exclusions after all molecules were created; every molecule's map is added to the topology map")
    pb = F.one(C + "CGMoleculeDef::ParseBeads")
    rep.analysed(pb)
    # decided by cases on the folded function: (the option exists?, its value) -> which symmetry is stored / whether the error is raised
    from sympy.core.function import AppliedUndef
    from vsa.cases import executes as _exs
    fpb = Fold(pb).run()
    cpb = getattr(fpb, "conds", {})
    sst = [e for e in fpb.events if e["kind"] == "store" and e["target"].endswith("symmetry_")]
    thr_ev = [e for e in fpb.events if e["kind"] == "throw"]
    symv = set()
    for e in sst + thr_ev:
        for g_ in list(e["guards"]) + [x for nl in e.get("not", []) for x in nl]:
            stack = [g_[0]]
            while stack:
                c_ = stack.pop()
                if isinstance(c_, tuple):
                    stack += list(c_[1:])
                elif isinstance(c_, sp.Basic):
                    symv |= {a_ for a_ in c_.atoms(AppliedUndef) if str(a_.func) == "as" and '"symmetry"' in str(a_)}

    def has_orc(lf):
        if str(getattr(lf, "func", "")) == "exists" and '"symmetry"' in str(lf):
            return ("HAS", True)
        if isinstance(lf, tuple) and lf and lf[0] == "loop":
            return None
        return None
    sym = {}
    for label, has, v in (("1", True, 1), ("3", True, 3), ("other", True, 2), ("other0", True, 0), ("default", False, 1)):
        sub = {a_: sp.Integer(v) for a_ in symv}
        A = {"HAS": has}
        live = [e for e in sst if _exs(e, sub, A, has_orc, cpb)]
        # errors raised because of the symmetry value: throws whose condition mentions it
        thrown = [e for e in thr_ev if any('"symmetry"' in str(g_[0]) for g_ in e["guards"]) and _exs({"guards": [g_ for g_ in e["guards"] if '"symmetry"' in str(g_[0])], "not": []}, sub, A, has_orc, cpb)]
        sym[label] = "throw" if (thrown and not live) else (str(live[-1]["value"]).split("::")[-1] if len(live) == 1 else "%d stores/%d throws" % (len(live), len(thrown)))
    rep.check(bool(symv) and sym == {"1": "spherical", "3": "ellipsoidal", "other": "throw", "other0": "throw", "default": "spherical"}, "R1.6", "symmetry|parse",
              "symmetry 1 -> spherical, 3 -> ellipsoidal, default spherical, other values throw", "CGMoleculeDef::ParseBeads symmetry table is %s" % sym, pb.loc(), sample=True)
    cm = F.one(C + "CGMoleculeDef::CreateMap")
    rep.analysed(cm)
    from vsa.cases import executes as _ex
    tab = {}
    nthrow = {}
    for label, val in (("1", 1), ("3", 3), ("default", 2)):
        def sym_atom(fold, n, env, val=val):
            if n.get("k") == "member" and n.get("fname") == "symmetry_":
                return sp.Integer(val)
            return NotImplemented
        fcm = Fold(cm, atom=sym_atom, record_calls=r"Map::CreateBeadMap$").run()
        calls_ = [e for e in fcm.events if e["kind"] == "call"]
        thr_ = [e for e in fcm.events if e["kind"] == "throw" and "symmetry" not in "" and any(isinstance(g_[0], tuple) and g_[0] and g_[0][0] == "loop" for g_ in e["guards"])]
        nthrow.setdefault(label, len(thr_))
        sure = label == "default" and nthrow.get("default", 0) == nthrow.get("1", -9) + 1
        if len(calls_) == 1 and not isinstance(calls_[0]["args"][0], (tuple, Matrix)):
            tab[label] = str(calls_[0]["args"][0]).split("::")[-1]
        elif not calls_ and sure:
            tab[label] = "throw"
        else:
            tab[label] = "?%d calls/%d throws" % (len(calls_), len(sure))
    rep.check(tab == {"1": "Spherical", "3": "Ellipsoidal", "default": "throw"}, "R1.6", "symmetry|map", "symmetry 1 -> Map_Sphere, 3 -> Map_Ellipsoid, else throw",
              "CGMoleculeDef::CreateMap symmetry table is %s" % tab, cm.loc(), sample=True)
    fm = [f for f in F.funcs if f.qname == C + "Map::CreateBeadMap"]
    if fm:
        txt = lambda st: " ".join(x.get("type", "") for x in walk(st or {}) if x.get("k") == "call" and (x.get("callee") or "").startswith("std::make_unique"))
        conds = {nows(show(n["cond"])): (txt(n["then"]), txt(n.get("else"))) for n in fm[0].walk() if n.get("k") == "if"}
        ok = any("Spherical" in c and "Map_Sphere" in t and "Map_Ellipsoid" in e for c, (t, e) in conds.items())
        rep.check(ok, "R1.6", "beadmap-type", "BeadMapType::Spherical -> Map_Sphere, otherwise Map_Ellipsoid", "Map::CreateBeadMap maps types as %s" % conds, fm[0].loc())
    cb = F.one(C + "CGMoleculeDef::CreateMolecule")
    rep.analysed(cb)
    # bonded table by cases of the interaction group's name: beads per interaction (the modulus of the bead-list length test) and the class created
    from vsa.cases import decide as _dcd, resolve_ite as _rsv
    fcb = Fold(cb, record_calls=r"AddBondedInteraction$").run()
    ccb = getattr(fcb, "conds", {})

    def name_orc(lf):
        if isinstance(lf, tuple) and len(lf) == 3 and lf[0] in ("==", "!="):
            a_, b_ = str(lf[1]), str(lf[2])
            for x_, y_ in ((a_, b_), (b_, a_)):
                if x_.startswith("name(") and re.match(r'^"\w+"$', y_):
                    return ("NAME=" + y_.strip('"'), lf[0] == "==")
        return None
    counts, classes = {}, {}
    adds = [e for e in fcb.events if e["kind"] == "call"]
    mods = []
    for e in fcb.events:
        for g_ in e["guards"]:
            stack = [g_[0]]
            while stack:
                c_ = stack.pop()
                if isinstance(c_, tuple):
                    stack += list(c_[1:])
                elif isinstance(c_, sp.Basic):
                    mods += [a_ for a_ in sp.preorder_traversal(c_) if str(getattr(a_, "func", "")) in ("imod", "mod") and len(a_.args) == 2]
    for kind_ in ("bond", "angle", "dihedral", "other"):
        A = {"NAME=" + k_: k_ == kind_ for k_ in ("bond", "angle", "dihedral")}
        pick = lambda cs: _dcd(ccb[cs], None, A, name_orc, ccb) if cs in ccb else None
        if mods:
            nv = _rsv(mods[0].args[1], pick) if hasattr(mods[0].args[1], "args") else mods[0].args[1]
            counts[kind_] = int(nv) if getattr(nv, "is_Integer", False) else str(nv)
        if len(adds) == 1 and adds[0]["args"]:
            cv = adds[0]["args"][-1]
            cv = _rsv(cv, pick) if hasattr(cv, "args") else cv
            m_ = re.match(r"^new@(\d+)$", str(cv))
            nd = cb.nodes.get(int(m_.group(1))) if m_ else None
            classes[kind_] = (nd.get("type") or "?").split("::")[-1].rstrip(" *") if nd else str(cv)[:40]
    thr_other = [e for e in fcb.events if e["kind"] == "throw" and any(name_orc(g_[0]) is not None for g_ in e["guards"]) and
                 _exs({"guards": [g_ for g_ in e["guards"] if name_orc(g_[0]) is not None], "not": []}, None, {"NAME=bond": False, "NAME=angle": False, "NAME=dihedral": False}, name_orc, ccb)]
    counts.pop("other", None)
    oth = classes.pop("other", None)
    want_n = {"bond": 2, "angle": 3, "dihedral": 4}
    want_c = {"bond": "IBond", "angle": "IAngle", "dihedral": "IDihedral"}
    rep.check(counts == want_n and classes == want_c and bool(thr_other), "R1.6", "bonded-table", "bond/IBond/2, angle/IAngle/3, dihedral/IDihedral/4, anything else is an error",
              "CGMoleculeDef::CreateMolecule bonded table: beads per interaction %s, classes %s, unknown group names %s" % (counts, classes, "throw" if thr_other else "are accepted (as %s)" % oth), cb.loc(), sample=True)
    ce = F.one(C + "CGEngine::CreateCGTopology")
    rep.analysed(ce)
    g = CFG(ce)
    rb = [n for n in ce.walk() if n.get("k") == "mcall" and n.get("callee") == C + "Topology::RebuildExclusions" and show(n["obj"]) == "out"]
    cr = [n for n in ce.walk() if n.get("k") == "mcall" and (n.get("callee") or "").endswith("CGMoleculeDef::CreateMolecule")]
    am = [n for n in ce.walk() if n.get("k") == "mcall" and (n.get("callee") or "").endswith("TopologyMap::AddMoleculeMap")]
    ok = len(rb) == 1 and len(cr) == 1 and len(am) == 1 and g.where[rb[0]["id"]][0] not in g.reaches([g.where[rb[0]["id"]][0]], avoid=set()) - {g.where[rb[0]["id"]][0]} or True
    ok = len(rb) == 1 and len(cr) == 1 and len(am) == 1 and g.where[cr[0]["id"]][0] not in g.reaches([g.where[rb[0]["id"]][0]]) \
        and all(g.dominates_block(g.where[rb[0]["id"]][0], b) for b in g.exit_blocks()) and g.dominates(cr[0]["id"], am[0]["id"])
    rep.check(ok, "R1.6", "exclusions-after-molecules", "RebuildExclusions once, after all CG molecules were created; each map added",
              "CGEngine::CreateCGTopology does not rebuild the exclusions after creating all molecules (or does not add every molecule's map)", ce.loc(), sample=True)


def check_apply(rep, f):
    cls = f.qname.split("::")[-2]
    bcs = []

    def hook(fold, n, env):
        if n.get("k") == "mcall" and (n.get("callee") or "").endswith("::BCShortestConnection"):
            a = [fold.ev(x, env) for x in n["args"]]
            bcs.append({"callee": n["callee"], "args": a, "node": n, "obj": show(n["obj"])})
            return vec_atoms("BC%d" % len(bcs))
        return NotImplemented
    fo = Fold(f, call=hook, record_calls=r"::set(Pos|Vel|F|Mass)$").run()
    ev = {}
    for e in fo.events:
        if e["kind"] == "call" and str(e["obj"]) == "out_":
            ev.setdefault(e["callee"].split("::")[-1], []).append(e)
    # ---- R1.1 position
    sp_ = ev.get("setPos", [])
    if len(sp_) != 1:
        rep.broken("R1.1", "%s::Apply: expected exactly one out_->setPos call, found %d" % (cls, len(sp_)))
        return
    pos = sp_[0]["args"][0]
    loc = f.loc(sp_[0]["node"])
    used_bc = None
    ok, why, desc = True, "", ""
    if not isinstance(pos, Matrix) or pos.shape != (3, 1):
        ok, why = False, "the value passed to setPos is not a recognised 3-vector expression: %s" % str(pos)[:200]
    else:
        for c, ax in enumerate("xyz"):
            d = decompose_sum(pos[c])
            if d is None:
                ok, why = False, "component %s reaching setPos is %s, not a guarded sum over the parents" % (ax, str(pos[c])[:300])
                break
            cond, term, base = d
            if base != 0:
                ok, why = False, "the position sum does not start from zero (starts from %s)" % base
                break
            # term must be w*(BCk + r0)
            ws = [s for s in term.free_symbols if str(s).endswith("weight_")]
            if len(ws) != 1 or not str(ws[0]).endswith(".weight_") or str(ws[0]).endswith("force_weight_"):
                ok, why = False, "position summand %s is not weighted by exactly the element's weight_" % str(term)[:200]
                break
            w = ws[0]
            elem = str(w)[:-len(".weight_")]
            hit = None
            for k, b in enumerate(bcs):
                bk = vec_atoms("BC%d" % (k + 1))
                r0 = b["args"][0]
                if isinstance(r0, Matrix) and equal(term, w * (bk[c] + r0[c])):
                    hit = (k, b)
                    break
            if hit is None:
                ok = False
                why = ("component %s of the mapped position sums %s per parent; required weight_*(BC(r0,pos)+r0) - a parent position "
                       "enters the sum without being unwrapped against the first parent (or r0 is not added back)" % (ax, str(term)[:300]))
                break
            k, b = hit
            if used_bc is None:
                used_bc = k
            elif used_bc != k:
                ok, why = False, "components use different BC calls"
                break
            if b["callee"] != BC + "BCShortestConnection":
                ok, why = False, "unwrapping goes through %s, not BoundaryCondition::BCShortestConnection" % b["callee"]
                break
            if b["obj"] != f.j["params"][0]["name"]:
                ok, why = False, "unwrapping uses boundary object %s instead of the boundary passed to Apply" % b["obj"]
                break
            want_pos = vec_atoms("getPos(%s.in_)" % elem)
            if not (isinstance(b["args"][1], Matrix) and equal(b["args"][1], want_pos)):
                ok, why = False, "BC second argument is %s, not the position of the summed parent %s.in_" % (str(list(b["args"][1]))[:200], elem)
                break
            if str(cond) != "HasPos(%s.in_)" % elem:
                ok, why = False, "position summand guarded by %s, expected HasPos(%s.in_)" % (cond, elem)
                break
            # r0: only the first parent's position (or zero when it has none)
            bad = [str(s) for s in r0[c].free_symbols
                   if not re.match(r"^getPos\(%s\)\.[xyz]$" % FIRST_RX, str(s)) and not is_cond_symbol(str(s))]
            if bad or not r0[c].free_symbols:
                ok, why = False, "reference point r0 is %s; it must be the position of the first parent (matrix_.front().in_)" % str(r0[c])[:200]
                break
            desc = "pos = SUM %s*(BC(r0, getPos(%s.in_)) + r0), r0 = getPos(first parent)" % (w, elem)
    rep.check(ok, "R1.1", "position|" + cls, desc, "%s::Apply: %s" % (cls, why), loc, sample=True)
    # every parent position read must flow only into BC arg 2, r0 or the diagnostics
    # ---- R1.2
    for setter, getter, wname, guard in (("setVel", "getVel", "weight_", "HasVel"), ("setF", "getF", "force_weight_", "HasF")):
        es = ev.get(setter, [])
        if len(es) != 1:
            rep.broken("R1.2", "%s::Apply: expected one out_->%s call, found %d" % (cls, setter, len(es)))
            continue
        val = es[0]["args"][0]
        ok, why = True, ""
        for c, ax in enumerate("xyz"):
            d = decompose_sum(val[c]) if isinstance(val, Matrix) else None
            if d is None:
                ok, why = False, "value reaching %s is not a guarded sum: %s" % (setter, str(val)[:200])
                break
            cond, term, base = d
            cond = S(re.sub(r"^\((.*) == True\)$", r"\1", str(cond)))
            ws = [s for s in term.free_symbols if str(s).endswith("weight_")]
            if len(ws) != 1:
                ok, why = False, "%s summand %s has no single weight factor" % (setter, term)
                break
            w = ws[0]
            elem = str(w)[: str(w).rindex(".")]
            want = w * S("%s(%s.in_).%s" % (getter, elem, ax))
            if str(w) != "%s.%s" % (elem, wname):
                ok, why = False, "%s is weighted by %s, required %s (velocity uses weight_, force uses force_weight_ = d/w)" % (setter[3:], w, wname)
                break
            if base != 0 or not equal(term, want) or str(cond) != "%s(%s.in_)" % (guard, elem):
                ok, why = False, "%s summand is %s under %s, required %s under %s(%s.in_)" % (setter, term, cond, want, guard, elem)
                break
        rep.check(ok, "R1.2", "%s|%s" % (setter, cls), "%s = SUM %s*%s" % (setter[3:], wname, getter), "%s::Apply: %s" % (cls, why), f.loc(es[0]["node"]), sample=True)
    # no setter is cut off by an earlier return: velocity, force and mass are mapped for every combination of present/absent positions,
    # velocities and forces (a return placed before the setters - e.g. the ellipsoid's "first parent has no position" shortcut - drops them)
    cut = sorted(k for k, es_ in ev.items() for e_ in es_ if "return" in e_.get("left_kinds", []))
    rep.check(not cut, "R1.2", "setters-not-cut-off|" + cls, "no return precedes setPos/setVel/setF/setMass",
              "%s::Apply can return before calling %s (an early return precedes the write-back): for frames that take that path the mapped %s are never set"
              % (cls, ", ".join(cut), "/".join(c[3:].lower() for c in cut)), f.loc(ev[cut[0]][0]["node"]) if cut else f.loc())
    # the mass clause holds for every kind of bead map (the property quantifies over every mapping definition): a map that never
    # calls setMass leaves the bead with the mass 0 it was created with (CGMoleculeDef::CreateMolecule passes 0)
    es = ev.get("setMass", [])
    ok = len(es) == 1
    if ok:
        v = es[0]["args"][0]
        ok = str(getattr(v, "func", "")).startswith("SUM_") and re.match(r"^getMass\(\w+\.in_\)$", str(v.args[0])) is not None
    rep.check(ok, "R1.2", "setMass|" + cls, "mass = SUM getMass(parent)", "%s::Apply: mass passed to setMass is %s, not the plain sum of parent masses"
              % (cls, str(es[0]["args"][0])[:200] if es else "missing (out_->setMass is never called: the bead keeps the mass 0 it was created with)"),
              f.loc(es[0]["node"] if es else None), sample=True)
    # ---- R1.4 half-box guard: decided on the path conditions of the throw and of setPos (helpers inlined)
    from vsa.cases import decision_table
    bcn = f.j["params"][0]["name"]
    half = Fn("getShortestBoxDimension")(S(bcn)) / 2
    found = {}

    def classify(lf):
        if isinstance(lf, tuple) and len(lf) == 3:
            a_, b_ = lf[1], lf[2]
            if lf[0] in ("==", "!=") and "getBoxType(%s)" % bcn in (str(a_), str(b_)) and (str(a_).endswith("typeOpen") or str(b_).endswith("typeOpen")):
                return ("OPEN", lf[0] == "==")
            if lf[0] in ("<", "<=", ">", ">=") and not isinstance(a_, (Matrix, tuple)) and not isinstance(b_, (Matrix, tuple)):
                if equal(b_, half):
                    found["mx"] = a_
                    return {">": ("BIG", True), "<=": ("BIG", False)}.get(lf[0])
                if equal(a_, half):
                    found["mx"] = b_
                    return {"<": ("BIG", True), ">=": ("BIG", False)}.get(lf[0])
        return None
    thr_ev = [e for e in fo.events if e["kind"] == "throw"]
    ok, why = False, "no throw found"
    for e in thr_ev:
        names, rows = decision_table(e, classify, getattr(fo, "conds", {}))
        if rows is None or not {"OPEN", "BIG"} <= set(names):
            why = "the throw depends on %s, not on (box type is open, running maximum > half the shortest box dimension)" % names
            continue
        bad = [(a_, h_) for a_, h_ in rows if h_ is None or h_ != ((not a_["OPEN"]) and a_["BIG"])]
        if bad:
            why = "for %s the mapping %s" % (bad[0][0], "throws" if bad[0][1] else "does not throw") + \
                  ("; the half-box test is skipped under another condition than 'box is open'" if True else "")
            continue
        mx = found.get("mx")
        kk = used_bc + 1 if used_bc is not None else -1
        nrm = "sqrt(BC%d.x**2 + BC%d.y**2 + BC%d.z**2)" % (kk, kk, kk)
        if mx is None or not str(getattr(mx, "func", "")).startswith("LOOP_") or nrm not in str(mx):
            why = "the tested distance %s is not the running maximum of |BC(r0, pos)| over the summed parents" % str(mx)[:300]
            continue
        body = mx.args[1]
        if ">" not in str(body):
            why = "running maximum idiom not recognised: %s" % str(body)[:200]
            continue
        ok = True
        break
    rep.check(ok, "R1.4", "halfbox-guard|" + cls, "throw exactly when max |BC(r0,pos)| > 0.5*shortest box dimension and the box is not open",
              "%s::Apply: %s" % (cls, why), f.loc(), sample=True)
    # setPos is only reached when the test passed
    okp = False
    if sp_:
        names, rows = decision_table(sp_[0], classify, getattr(fo, "conds", {}))
        okp = rows is not None and {"OPEN", "BIG"} <= set(names) and all(not (h_ is True) for a_, h_ in rows if (not a_["OPEN"]) and a_["BIG"]) \
            and any(h_ is True for a_, h_ in rows)
    rep.check(okp, "R1.4", "halfbox-path|" + cls, "setPos is never reached with a periodic box and a parent farther than half the shortest box dimension",
              "%s::Apply: a path reaches out_->setPos without passing the half-box comparison" % cls, loc)


def is_cond_symbol(s):
    return s.startswith("(") or s.startswith("HasPos(") or s.startswith("!") or s.startswith("size(")


def decompose_sum(e):
    """e == base + SUM_x(ite(cond, term, 0)) or base + SUM_x(term): returns (cond, term, base)"""
    if isinstance(e, (Matrix, tuple)):
        return None
    sums = [a for a in sp.preorder_traversal(e) if str(getattr(a, "func", "")).startswith("SUM_")]
    tops = [s for s in sums if not any(s is not t and t.has(s) for t in sums)]
    if len(tops) != 1:
        return None
    sm = tops[0]
    base = sp.expand(e - sm)
    if base.has(sm):
        return None
    inner = sm.args[0]
    if str(getattr(inner, "func", "")) == "ite" and inner.args[2] == 0:
        return inner.args[0], inner.args[1], base
    return sp.true, inner, base


def check_initialize(rep, f, F):
    # element-wise fold of the whole function: what AddElem receives for a generic element k
    from vsa.vecfold import VecFold, K, KB, SUMK, resolve_ite, havoc_atoms
    fo = VecFold(f, record_calls=r"Map_Sphere::AddElem$", opaque_types=r"std::vector<std::(__cxx11::)?(basic_)?string").run()
    ae = [e for e in fo.events if e["kind"] == "call" and e["callee"] == C + "Map_Sphere::AddElem"]
    rep.floor("R1.3", len(ae), 1, "AddElem calls in Map_Sphere::Initialize")
    if len(ae) != 1 or len(ae[0]["args"]) != 3:
        rep.broken("R1.3", "Map_Sphere::Initialize: expected one AddElem(bead, weight, force_weight) call, found %d" % len(ae))
    call = ae[0]
    each = [g for g in call["guards"] if isinstance(g[0], tuple) and g[0][0] == "each"]
    if not each:
        rep.broken("R1.3", "Map_Sphere::Initialize: AddElem is not called from a loop over all sub-beads (guards %s)" % guard_strs(fo, call["guards"]))
    # every listed sub-bead becomes an element: inside the loop the call may only be preceded by rejections (throws), never skipped
    ix = max(i_ for i_, g in enumerate(call["guards"]) if isinstance(g[0], tuple) and g[0][0] == "each") if each else -1
    lidk = call["guards"][ix][0][1] if each else None
    thr_conds = set()
    for t_ in fo.events:
        if t_["kind"] != "throw":
            continue
        te = [i_ for i_, g in enumerate(t_["guards"]) if isinstance(g[0], tuple) and g[0][0] == "each" and g[0][1] == lidk]
        if te:
            for c_, pol_, _n in t_["guards"][te[-1] + 1:]:
                if pol_:
                    thr_conds.add(fo.cond_str(c_))
    skipped = [("" if pol_ else "!") + fo.cond_str(c_) for c_, pol_, _n in call["guards"][ix + 1:] if not (not pol_ and fo.cond_str(c_) in thr_conds)] if each else []
    rep.check(bool(each) and not skipped, "R1.3", "every-subbead", "AddElem runs for every listed sub-bead (the loop body only rejects, never skips)",
              "Map_Sphere::Initialize adds a sub-bead only if %s: a listed atom that is skipped is missing from the mass sum, from the periodic-image reference (first atom) and from "
              "the half-box test" % " and ".join(x[:160] for x in skipped), f.loc(call["node"]), sample=True)
    w_arg, f_arg = call["args"][1], call["args"][2]
    if isinstance(w_arg, (Matrix, tuple)) or isinstance(f_arg, (Matrix, tuple)):
        rep.broken("R1.3", "Map_Sphere::Initialize: AddElem arguments do not fold to scalars")
    hv = havoc_atoms(w_arg) + havoc_atoms(f_arg)
    if hv:
        raise AnalysisBroken("Map_Sphere::Initialize: a weight vector is modified in a way the element-wise fold does not model: %s" % hv)
    # base atoms: the tokenised <weights> and <d> strings
    from sympy.core.function import AppliedUndef
    ats = {a for e in (w_arg, f_arg) for a in e.atoms(AppliedUndef) if str(a.func) == "at" and len(a.args) == 2 and a.args[1] == K}
    w0 = [a for a in ats if '"weights"' in str(a.args[0])]
    d0 = [a for a in ats if '"d"' in str(a.args[0])]
    if len(w0) != 1 or len(d0) != 1:
        raise AnalysisBroken("Map_Sphere::Initialize: cannot identify the <weights>/<d> sources in the AddElem arguments (%s)" % sorted(map(str, ats)))
    w0, d0 = w0[0], d0[0]
    W = w0 / SUMK(w0.xreplace({K: KB}))
    D = d0 / SUMK(d0.xreplace({K: KB}))
    nz = lambda c: True if re.search(r"!= 0\)?$", c) and "at(" in c else (False if re.search(r"== 0\)?$", c) and "at(" in c else None)
    hasd = lambda c: True if (c.startswith("exists(") and '"d"' in c) else (False if c.startswith("!(exists(") and '"d"' in c else None)
    pick = lambda *fs: (lambda c: next((r for r in (g(c) for g in fs) if r is not None), None))
    rep.check(is_zero(w_arg - W), "R1.3", "normalise|weights", "stored weight of sub-bead k = w_k / SUM w",
              "Map_Sphere::Initialize passes weight %s to AddElem, required w_k/SUM(w)" % str(w_arg)[:300], f.loc(call["node"]), sample=True)
    fd = resolve_ite(f_arg, pick(nz, hasd))
    rep.check(is_zero(fd - D / W), "R1.3", "normalise|d", "force weight with <d> = (d_k/SUM d)/(w_k/SUM w)",
              "Map_Sphere::Initialize passes force weight %s to AddElem when <d> is given, required (d_k/SUM d)/(w_k/SUM w)" % str(fd)[:300],
              f.loc(call["node"]), sample=True)
    fn = resolve_ite(f_arg, pick(nz, lambda c: (not hasd(c)) if hasd(c) is not None else None))
    rep.check(is_zero(fn - 1), "R1.3", "default-d", "d := weights when the map has no <d> (force weight 1)",
              "Map_Sphere::Initialize passes force weight %s to AddElem when <d> is absent, required 1" % str(fn)[:300], f.loc(call["node"]))
    fz = resolve_ite(f_arg, pick(lambda c: (not nz(c)) if nz(c) is not None else None, hasd))
    unresolved = [str(a) for e in (fd, fn, fz) for a in sp.preorder_traversal(e) if str(getattr(a, "func", "")) == "ite"]
    if unresolved:
        rep.broken("R1.3", "Map_Sphere::Initialize: force weight depends on a condition the rule does not know: %s" % unresolved[:2])
    rep.check(is_zero(fz), "R1.3", "force-weight", "force weight = 0 when the weight is 0", "Map_Sphere::Initialize passes force weight %s for a zero weight" % str(fz)[:200],
              f.loc(call["node"]), sample=True)
    # the bead handed to AddElem is the sub-bead named beads[k]
    b_arg = str(fo.scalarize(call["args"][0]))
    rep.check("getBead" in b_arg and "getBeadByName" in b_arg and "beads" in b_arg and str(K) in b_arg, "R1.3", "addelem-call", "AddElem(in->getBead(in->getBeadByName(beads[k])), ..)",
              "AddElem receives bead %s" % b_arg[:200], f.loc(call["node"]))
    # throws: size mismatches and w=0,d!=0
    tg = [" & ".join(guard_strs(fo, g)) for g in fo.throws]
    need = {"beads/weights size": lambda s: "size(beads)" in s and "size(weights)" in s and "!=" in s,
            "beads/d size": lambda s: "size(beads)" in s and "size(d)" in s and "!=" in s,
            }
    from vsa.cases import executes
    from sympy.core.function import AppliedUndef
    thr_ev = [e for e in fo.events if e["kind"] == "throw" and any(isinstance(g_[0], tuple) and g_[0] and g_[0][0] == "each" for g_ in e["guards"])]
    pos_ = {a_: sp.Symbol("_sum%d" % i_, positive=True) for i_, a_ in enumerate(sorted({x for e in thr_ev for x in ev_atoms(e) if str(x.func) == "SUMK"}, key=str))}

    def wd_table():
        """some throw inside the element loop runs iff the weight is zero and the d coefficient is not"""
        for wv, dv, want in ((0, 0, False), (0, 1, True), (1, 0, False), (1, 1, False), (0, -2, True)):
            sub = dict(pos_)
            sub.update({w0: sp.Integer(wv), d0: sp.Integer(dv)})
            # the missing-sub-bead throw of the AddElem loop is a different loop: only throws whose guards mention a weight count
            def orc(leaf):
                s_ = str(leaf)
                if s_.startswith("exists(") and '"d"' in s_:
                    return ("hasd", True)
                if isinstance(leaf, tuple) and len(leaf) == 3 and leaf[0] in ("!=", "==") and str(leaf[1]).startswith("size(") and str(leaf[2]).startswith("size("):
                    return ("sizes_differ", leaf[0] == "!=")
                return None
            res = [executes(e, sub, {"hasd": True, "sizes_differ": False}, orc, getattr(fo, "conds", {})) for e in thr_ev
                   if any(x in (w0, d0) for x in ev_atoms({"guards": e["guards"]}))]
            if any(r_ is None for r_ in res):
                return "undecidable for w=%s, d=%s" % (wv, dv)
            if any(res) != want:
                return "for weight %s and d %s the mapping is %s" % (wv, dv, "accepted" if want else "rejected")
        return None
    wdm = wd_table() if thr_ev else "no throw inside the weight loop"
    rep.check(wdm is None, "R1.3", "throw|w=0 with d!=0", "throw exactly when a weight is 0 and its d coefficient is not",
              "Map_Sphere::Initialize: %s (throw guards: %s)" % (wdm, [t[-160:] for t in tg]), f.loc())
    for name, pred in need.items():
        rep.check(any(pred(s) for s in tg), "R1.3", "throw|" + name, "throw on " + name,
                  "Map_Sphere::Initialize does not reject %s (throw guards: %s)" % (name, [t[-160:] for t in tg]), f.loc())
    fa = F.one(C + "Map_Sphere::AddElem")
    rep.analysed(fa)
    ps = fa.j["params"]
    got = {}
    for n in fa.walk():
        if n.get("k") == "assign" and n["op"] == "=":
            l, r = unwrap(n["lhs"]), unwrap(n["rhs"])
            if l.get("k") == "member":
                got[l["fname"]] = r.get("name")
    want = {"in_": ps[0]["name"], "weight_": ps[1]["name"], "force_weight_": ps[2]["name"]}
    rep.check(got == want, "R1.3", "addelem-body", "element = (in, weight, force_weight)",
              "Map_Sphere::AddElem stores %s, required %s" % (got, want), fa.loc(), sample=True)


def ev_atoms(e):
    """applied functions in the guards (and exits before) of an event"""
    from sympy.core.function import AppliedUndef
    out = set()

    def rec(c):
        if isinstance(c, tuple):
            for x in c:
                rec(x)
        elif hasattr(c, "atoms"):
            out.update(c.atoms(AppliedUndef))
    for g_ in e["guards"]:
        rec(g_[0])
    for gl in e.get("not", []):
        for g_ in gl:
            rec(g_[0])
    return out


def check_topologymap(rep, f):
    g = CFG(f)
    calls = [n for n in f.walk() if n.get("k") == "mcall"]
    sb = [n for n in calls if n.get("callee") == C + "Topology::setBox" and show(n["obj"]) == "out_"]
    ap = [n for n in calls if n.get("callee") == C + "Map::Apply"]
    ok = len(sb) == 1 and len(ap) == 1
    why = "setBox/Apply calls not found"
    if ok:
        a0 = show(sb[0]["args"][0])
        ok = a0 == "in_->getBox()"
        why = "out_->setBox is called with %s, not the input topology's box" % a0
        if ok:
            before = g.dominates(sb[0]["id"], ap[0]["id"]) and g.where[sb[0]["id"]][0] not in g.reaches([g.where[ap[0]["id"]][0]])
            ok = before
            why = ("the box of the output topology is set after (or not on every path before) the molecule maps are applied: "
                   "frames are unwrapped with the previous frame's box")
        if ok:
            a = show(ap[0]["args"][0])
            ok = a == "out_->getBoundary()"
            why = "Map::Apply is given %s, not the output topology's boundary (the one that just received the frame's box)" % a
        if ok:
            loops = [x for x in f.ancestors(ap[0]) if x.get("k") == "rangefor"]
            ok = bool(loops) and show(loops[0]["range"]) == "maps_"
            why = "Map::Apply is not called for every element of maps_"
    rep.check(ok, "R1.5", "box-before-maps", "out_->setBox(in_->getBox()) precedes every Map::Apply(out_->getBoundary())",
              "TopologyMap::Apply: " + why, f.loc(sb[0] if sb else None), sample=True)
    for setter, getter in (("setStep", "getStep"), ("setTime", "getTime")):
        s = [n for n in calls if n.get("callee") == C + "Topology::" + setter]
        rep.check(len(s) == 1 and show(s[0]["args"][0]) == "in_->%s()" % getter, "R1.5", setter, "%s(in_->%s())" % (setter, getter),
                  "TopologyMap::Apply does not copy the frame's %s" % getter[3:].lower(), f.loc(s[0] if s else None))
