"""C05 - threaded trajectory analysis: lock protocol shape (LOCK with predicate splitting, PATH, WHO, SIB)."""
import os, glob, re
import sympy as sp
from vsa import front
from vsa.facts import Facts, unwrap, show, walk
from vsa.front import AnalysisBroken
from vsa.lock import CounterFlow, TOP
from vsa.alg import Fold, S, F as Fn, equal
from vsa.cfg import CFG

LEVEL = "other"
C = "votca::csg::"
APP = C + "CsgApplication::"
MUTEX = "votca::tools::Mutex::"
SHARED_FIELDS = [APP + x for x in ("nframes_", "is_first_frame_")]
PRIVATE_FIELDS = [APP + x for x in ("traj_reader_", "traj_readerMutex_", "threadsMutexesIn_", "threadsMutexesOut_",
                                    "nframes_", "is_first_frame_", "nframesMutex_")]
WORKER_UNITS = ["csg/src/tools/csg_stat.cc", "csg/src/tools/csg_stat_imc.cc", "csg/src/tools/csg_reupdate.cc",
                "csg/src/csgapps/orientcorr/orientcorr.cc", "csg/src/csgapps/partial_rdf/partial_rdf.cc",
                "csg/src/csgapps/partial_rdf/rdf_calculator.cc", "csg/share/template/template_threaded.cc"]


def mutex_of(n, f, idx_class):
    """lock object abstraction of the implicit object of a Mutex::Lock/Unlock call: 'reader', 'merge',
    ('In'|'Out', index class), 'other:<text>'"""
    o = unwrap(n["obj"])
    if o.get("k") == "member":
        if o.get("field") == APP + "traj_readerMutex_":
            return "reader"
        return "field:" + o.get("fname", "?")
    if o.get("k") == "ref":
        return "local:" + o.get("name", "?")
    if o.get("k") == "opcall" and o.get("op") == "->":
        a = unwrap(o["args"][0])
        if a.get("k") == "opcall" and a.get("op") == "[]":
            base = unwrap(a["args"][0])
            ring = {APP + "threadsMutexesIn_": "In", APP + "threadsMutexesOut_": "Out"}.get(base.get("field"))
            if ring:
                return (ring, idx_class(a["args"][1]))
        if a.get("k") == "mcall" and (a.get("callee") or "").endswith("::back"):
            base = unwrap(a["obj"])
            ring = {APP + "threadsMutexesIn_": "In", APP + "threadsMutexesOut_": "Out"}.get(base.get("field"))
            if ring:
                return (ring, "back")
    return "other:" + show(o)


def make_idx_class(f):
    """index classes of ring subscripts: self (worker id), next ((id+1) % nthreads_), zero, other"""
    # every local with exactly one definition is bound to that definition (flow-insensitive, unique reaching def)
    fd = Fold(f)
    defs = {}
    for n in f.walk():
        if n.get("k") == "decl":
            for d in n["decls"]:
                if d.get("init") is not None:
                    defs.setdefault(d["decl"], []).append(d["init"])
        elif n.get("k") == "assign" and n["op"] == "=" and unwrap(n["lhs"]).get("k") == "ref" and "decl" in unwrap(n["lhs"]):
            defs.setdefault(unwrap(n["lhs"])["decl"], []).append(n["rhs"])
        elif n.get("k") in ("assign", "unop") and n.get("op") in ("+=", "-=", "++", "--"):
            t = unwrap(n.get("lhs") or n.get("sub"))
            if t.get("k") == "ref" and "decl" in t:
                defs.setdefault(t["decl"], []).extend([None, None])
    env = {}
    for d, lst in defs.items():
        if len(lst) == 1 and lst[0] is not None:
            try:
                env[d] = fd.ev(lst[0], dict(env))
            except Exception:
                pass
    def is_id(v):
        return str(getattr(v, "func", "")) == "getId" or str(v) == "getId()"

    def cls(node):
        v = Fold(f).ev(node, dict(env))
        if is_id(v):
            return "self"
        if getattr(v, "is_Integer", False):
            return "zero" if v == 0 else "const%d" % int(v)
        if str(getattr(v, "func", "")) in ("mod", "imod") and len(v.args) == 2:
            num, den = v.args
            if str(den) in ("nthreads_", "app_->nthreads_"):
                d = sp.expand(num - 1)
                if is_id(d):
                    return "next"
                return "other:(%s) %% nthreads" % num
        return "other:" + str(v)
    return cls


def is_sync(cond):
    return cond.get("k") == "mcall" and cond.get("callee") == APP + "SynchronizeThreads"


def run(rep, tier):
    rep.explanation = ("LOCK: ProcessData and Worker::Run are folded (file-local helpers inlined) into the ordered list of their lock "
                       "operations, reader calls, bookkeeping stores and returns, each with its path condition; the conditions "
                       "depend on six boolean facts only (ordered mode, no frame left, first frame, worker 0, read succeeded, mapping), "
                       "so the protocol is decided on the operation sequence of each of the 64 scenarios: reader mutex taken once "
                       "and released, In[id] awaited before and In[(id+1)%n] passed after the read, nothing evaluated under a lock, "
                       "the preloaded frame skipped only by worker 0.  A counter/typestate dataflow over the clang CFG (predicate "
                       "splitting on SynchronizeThreads()) re-checks that every access of the shared counters and every NextFrame "
                       "happens with the reader mutex held, and decides the start-up/join ordering in Run.  WHO: call sites of "
                       "NextFrame/MergeWorker/ProcessData and accesses to the protected shared members across the application "
                       "units.  SIB: Mutex/Thread wrappers.")
    rep.rule("R5.1", "every NextFrame call on the shared reader and every access of nframes_/is_first_frame_ in "
                     "ProcessData happens with traj_readerMutex_ held")
    rep.rule("R5.2", "at every normal exit of ProcessData the reader mutex is released; in ordered mode the worker awaited "
                     "In[self] before reading and passed In[next] exactly once, after its read; in unordered mode no ring mutex is touched")
    rep.rule("R5.3", "in Worker::Run MergeWorker(this) is bracketed by Out[self].Lock() ... Out[next].Unlock() exactly in ordered mode")
    rep.rule("R5.4", "start-up: every ring mutex is created and locked before the first Thread::Start, In[0]/Out[0] are "
                     "released after the last Start, the post-join merge is under mergeMutex after WaitDone and only in unordered mode")
    rep.rule("R5.5", "no thread waits for a ring token while holding the reader mutex; no worker evaluates while holding the reader mutex")
    rep.rule("R5.6", "who-may-call: NextFrame on the shared reader only from ProcessData/Run; MergeWorker only from "
                     "Worker::Run/Run; ProcessData only from Worker::Run; the shared members are touched only by CsgApplication itself")
    rep.rule("R5.10", "the frame budget counts the first frame of interest, which worker 0 holds from before the threads start: in unordered mode a worker other than worker 0 "
                      "that finds exactly one budgeted frame left while is_first_frame_ is still set takes no frame (no read, no decrement, returns false), so that the set of "
                      "processed frames is the first K frames of interest under every schedule")
    rep.rule("R5.8", "Mutex::Lock/Unlock and Thread::Start/WaitDone wrap the pthread primitive of the same meaning on their own object")
    units = [front.repo("csg/src/libcsg/csgapplication.cc"), front.repo("tools/src/libtools/mutex.cc"),
             front.repo("tools/src/libtools/thread.cc")]
    who_units = [front.repo(u) for u in WORKER_UNITS]
    if tier == "thorough":
        allu = sorted(set(glob.glob(front.repo("csg/src/**/*.cc"), recursive=True) + glob.glob(front.repo("csg/share/template/*.cc")))
                      - {front.repo("csg/src/libcsg/csgapplication.cc")})
        allu = [u for u in allu if "/tests/" not in u]
        who_units = allu
    by_unit = front.export(units + who_units, skip_unavailable=(tier == "thorough"))
    skipped = list(front.LAST_SKIPPED)
    if any(u in [s_[0] for s_ in skipped] for u in units + [front.repo(x) for x in WORKER_UNITS]):
        raise AnalysisBroken("a unit of the core analysis does not parse: %s" % skipped)
    who_units = [u for u in who_units if u in by_unit]
    if skipped:
        rep.assumptions.append("units that need an optional package not installed here (not compiled by this tree's build either) were left out of the who-may-call sweep: %s" % (
            ", ".join("%s (%s)" % (os.path.relpath(u, front.REPO), h) for u, h in skipped)))
    F = Facts({u: by_unit[u] for u in units})
    rep.units = units + who_units

    # ================================================================ ProcessData
    pd = F.one(APP + "ProcessData")
    rep.analysed(pd)
    idx_class = make_idx_class(pd)

    def classify_pd(n):
        if n.get("k") == "mcall" and n.get("callee") in (MUTEX + "Lock", MUTEX + "Unlock"):
            m = mutex_of(n, pd, idx_class)
            lock = n["callee"].endswith("Lock") and not n["callee"].endswith("Unlock")
            if m == "reader":
                return [("inc", "reader"), ("inc", "reader.acquired")] if lock else ("dec", "reader")
            if isinstance(m, tuple):
                return ("inc", "%s.%s.%s" % (m[0], m[1], "await" if lock else "pass"))
            return ("inc", "unknown-mutex:%s" % (m,))
        return None

    results = {}
    for sync in (True, False):
        fl = CounterFlow(pd, classify_pd, assume=lambda c, s=sync: s if is_sync(c) else None).run()
        results[sync] = fl
    tag = {True: "ordered", False: "unordered"}

    # R5.1
    nf_calls = [n for n in pd.walk() if n.get("k") == "mcall" and n.get("callee") == C + "TrajectoryReader::NextFrame"]
    shared = [n for n in pd.walk() if n.get("k") == "member" and n.get("field") in SHARED_FIELDS]
    rep.floor("R5.1", len(nf_calls), 1, "NextFrame calls in ProcessData")
    rep.floor("R5.1", len(shared), 4, "accesses of nframes_/is_first_frame_ in ProcessData")
    for sync, fl in results.items():
        for n in nf_calls + shared:
            what = "NextFrame call" if n in nf_calls else "access of %s" % n["fname"]
            key = "%s|%s|%s#%d" % (tag[sync], "ProcessData", what.replace(" ", "-"), occurrence(pd, n, nf_calls + shared))
            if not fl.reached(n):
                rep.holds("R5.1", key, "unreachable in this mode", pd.loc(n))
                continue
            st = fl.state_before(n)
            held = st.get("reader", 0)
            rep.check(held == 1, "R5.1", key, "%s with traj_readerMutex_ held" % what,
                      "%s in ProcessData (%s mode) with traj_readerMutex_ %s: two workers can be inside the reader / "
                      "frame bookkeeping at once" % (what, tag[sync], "not held" if held == 0 else "not provably held (state %s)" % held),
                      pd.loc(n), sample=True)
    # R5.2 / R5.5 / R5.9: protocol decided per scenario on the folded event sequence (helpers inlined)
    check_processdata_protocol(rep, F, pd)

    # ================================================================ Worker::Run
    wr = F.one(APP + "Worker::Run")
    rep.analysed(wr)
    merges = [n for n in wr.walk() if n.get("k") == "mcall" and n.get("callee") == APP + "MergeWorker"]
    pcalls = [n for n in wr.walk() if n.get("k") == "mcall" and n.get("callee") == APP + "ProcessData"]
    rep.floor("R5.3", len(pcalls), 1, "ProcessData calls in Worker::Run")
    check_workerrun_protocol(rep, F, wr)
    # loop condition is the ProcessData result
    g = CFG(wr)
    ok = any(g.cond_node(b) is not None and unwrap(g.cond_node(b))["id"] == pcalls[0]["id"] and g.term(b)["class"] == "WhileStmt" for b in g.blocks) if pcalls else False
    rep.check(ok, "R5.3", "loop-on-processdata", "worker loops while ProcessData(this) returns true",
              "Worker::Run does not loop on the result of ProcessData(this)", wr.loc(pcalls[0] if pcalls else None))
    if pcalls:
        a0 = unwrap(pcalls[0]["args"][0])
        rep.check(a0.get("k") == "this", "R5.3", "processdata-arg", "ProcessData(this)", "ProcessData is called with %s" % show(a0), wr.loc(pcalls[0]))

    # ================================================================ Run (start-up / join)
    rn = F.one(APP + "Run")
    rep.analysed(rn)
    check_run(rep, rn)
    check_ring_size(rep, rn)

    # ================================================================ R5.8 wrappers
    for q, prim, arg in ((MUTEX + "Lock", "pthread_mutex_lock", "mutexVar_"), (MUTEX + "Unlock", "pthread_mutex_unlock", "mutexVar_"),
                         ("votca::tools::Thread::Start", "pthread_create", "thread_"), ("votca::tools::Thread::WaitDone", "pthread_join", "thread_")):
        f = F.one(q)
        rep.analysed(f)
        calls = [n for n in f.walk() if n.get("k") == "call" and (n.get("callee") or "").startswith("pthread_")]
        main = [n for n in calls if n["callee"] == prim]
        others = [n["callee"] for n in calls if n["callee"] in ("pthread_mutex_lock", "pthread_mutex_unlock", "pthread_mutex_trylock", "pthread_create", "pthread_join", "pthread_detach") and n["callee"] != prim]
        ok = len(main) == 1 and not others and arg in show(main[0]["args"][0])
        if ok:
            g = CFG(f)
            ok = all(g.dominates_block(g.where[main[0]["id"]][0], b) for b in g.exit_blocks())
        rep.check(ok, "R5.8", "wrapper|" + q.split("tools::")[-1], "%s -> %s(%s)" % (q.split("::")[-1], prim, arg),
                  "%s does not call exactly %s on its own %s on every path (calls: %s)" % (q, prim, arg, [show(c) for c in calls]), f.loc(), sample=True)
    f = F.one("votca::tools::Thread::Start")
    cr = [n for n in f.walk() if n.get("k") == "call" and n.get("callee") == "pthread_create"]
    if cr:
        a = cr[0]["args"]
        ok = "runwrapper" in show(a[2]) and unwrap(a[3]).get("k") in ("cast", "this") and "this" in show(a[3])
        rep.check(ok, "R5.8", "thread-entry", "pthread_create(.., runwrapper, this)", "Thread::Start passes %s, %s" % (show(a[2]), show(a[3])), f.loc(cr[0]))
    rw = F.one("votca::tools::runwrapper")
    runs = [n for n in rw.walk() if n.get("k") == "mcall" and n.get("callee") == "votca::tools::Thread::Run"]
    rep.check(len(runs) == 1 and runs[0].get("virtual") and not runs[0].get("qualified"), "R5.8", "runwrapper", "runwrapper dispatches Thread::Run virtually once",
              "runwrapper does not call thread->Run() exactly once", rw.loc())

    # ================================================================ R5.6 who-may-call
    allF = Facts(by_unit)
    n_sites = 0
    allow_nf = {APP + "ProcessData", APP + "Run"}
    allow_merge = {APP + "Worker::Run", APP + "Run"}
    allow_pd = {APP + "Worker::Run"}
    merge_overrides = {f.qname for f in allF.overriders(APP + "MergeWorker")} | {APP + "MergeWorker"}
    for f in allF.funcs:
        if "/tests/" in f.file:
            continue
        for n in f.walk():
            k = n.get("k")
            if k == "mcall":
                cal = n.get("callee") or ""
                if cal.endswith("::NextFrame") and unwrap(n["obj"]).get("k") in ("opcall", "member") and APP + "traj_reader_" in fields_in(n["obj"]):
                    n_sites += 1
                    rep.check(f.qname in allow_nf, "R5.6", "nextframe|" + f.qname, "shared reader used from %s" % f.qname.split("::")[-1],
                              "%s calls NextFrame on the shared trajectory reader; only ProcessData (under the reader mutex) "
                              "and Run (before the threads start) may" % f.qname, f.loc(n))
                elif cal in merge_overrides and not n.get("qualified"):
                    n_sites += 1
                    rep.check(f.qname in allow_merge, "R5.6", "mergeworker|" + f.qname, "MergeWorker called from %s" % f.qname.split("::")[-1],
                              "%s calls MergeWorker outside the Out-ring / mergeMutex protocol" % f.qname, f.loc(n))
                elif cal == APP + "ProcessData":
                    n_sites += 1
                    rep.check(f.qname in allow_pd, "R5.6", "processdata|" + f.qname, "ProcessData called from Worker::Run",
                              "%s calls ProcessData; only Worker::Run may" % f.qname, f.loc(n))
            elif k == "member" and n.get("field") in PRIVATE_FIELDS:
                cls = f.j.get("class") or ""
                n_sites += 1
                if not (cls == C + "CsgApplication" or f.qname.startswith(APP)):
                    # the members are shared between threads only in applications that run workers: an application class without a DoThreaded()
                    # override returning true evaluates every frame on the main thread (CsgApplication::DoThreaded() is false)
                    dts = [g_ for g_ in allF.funcs if g_.qname == cls + "::DoThreaded"]
                    threaded = True
                    if cls and not cls.endswith("Worker") and "Worker::" not in f.qname:
                        if not dts:
                            threaded = False
                        else:
                            rv = [unwrap(x["value"]) for x in dts[0].walk() if x.get("k") == "return" and x.get("value") is not None]
                            threaded = not (rv and all(v_.get("k") == "bool" and not v_.get("v") for v_ in rv))
                    if threaded:
                        rep.violation("R5.6", "shared-member|%s|%s" % (f.qname, n["fname"]),
                                      "%s touches the shared member %s of CsgApplication outside the application's own lock protocol" % (f.qname, n["fname"]), f.loc(n))
                    else:
                        rep.holds("R5.6", "shared-member|%s|%s" % (f.qname, n["fname"]), "%s is not a threaded application (no DoThreaded() override returning true): "
                                  "the member is only used from the main thread" % cls.split("::")[-1], f.loc(n))
    rep.holds("R5.6", "sites", "%d call sites / member accesses inspected over %d units" % (n_sites, len(by_unit)), sample=True)
    rep.floor("R5.6", n_sites, 20, "who-may-call sites")
    # ForkWorker overriders hand out a fresh worker object
    forks = allF.overriders(APP + "ForkWorker")
    rep.floor("R5.6", len(forks), 4, "ForkWorker overriders")
    for f in forks:
        rets = [n for n in f.walk() if n.get("k") == "return"]
        ok = bool(rets)
        for r in rets:
            fresh = [x for x in walk(r) if (x.get("k") == "call" and (x.get("callee") or "").startswith("std::make_unique")) or x.get("k") == "new"
                     or (x.get("k") == "ref" and x.get("dk") == "local")
                     or (x.get("k") == "mcall" and (x.get("callee") or "").endswith("::ForkWorker"))]   # delegation
            ok = ok and bool(fresh)
        rep.check(ok, "R5.6", "forkworker|" + f.qname, "ForkWorker returns a fresh worker", "%s does not return a freshly created worker" % f.qname, f.loc())
    check_worker_effects(rep, allF)
    check_merged_once(rep, allF)
    rep.assumptions += ["exception edges are not modelled (a throwing NextFrame leaves the mutex held; exception safety is not claimed)",
                        "SynchronizeThreads() is treated as one symbolic boolean per run (it is a pure virtual-dispatch constant getter in all applications)",
                        "deadlock freedom and schedule independence are argued from the verified token protocol, not model-checked"]


# ---------------------------------------------------------------------------------------------- protocol by scenarios
LOCK_RX = r"tools::Mutex::(Lock|Unlock)$|TrajectoryReader::NextFrame$|Worker::EvalConfiguration$|CsgApplication::MergeWorker$|CsgApplication::ProcessData$"


def is_id(v):
    return str(getattr(v, "func", "")) == "getId"


def ring_of(obj):
    """('In'|'Out', 'self'|'next'|other text) / 'reader' / None for the folded object of a Mutex call"""
    s_ = str(obj)
    if "traj_readerMutex_" in s_:
        return "reader"
    from sympy.core.function import AppliedUndef
    ats = [a for a in sp.preorder_traversal(obj) if str(getattr(a, "func", "")) == "at" and len(a.args) == 2 and "threadsMutexes" in str(a.args[0])] \
        if hasattr(obj, "args") else []
    if len(ats) != 1:
        return None
    ring = "In" if "threadsMutexesIn_" in str(ats[0].args[0]) else "Out" if "threadsMutexesOut_" in str(ats[0].args[0]) else None
    v = ats[0].args[1]
    if is_id(v):
        return (ring, "self")
    if str(getattr(v, "func", "")) in ("mod", "imod") and len(v.args) == 2 and str(v.args[1]).endswith("nthreads_") and is_id(sp.expand(v.args[0] - 1)):
        return (ring, "next")
    return (ring, "other:%s" % v)


def scenario_trace(fo, atoms, oracle, relevant):
    """the relevant events that happen, in program order, under one assignment of the scenario atoms"""
    from vsa.cases import executes
    out = []
    for e in fo.events:
        if not relevant(e):
            continue
        x = executes(e, None, atoms, oracle, getattr(fo, "conds", {}))
        if x is None:
            from vsa.alg import guard_strs
            raise AnalysisBroken("%s: cannot decide whether %s happens for %s (guards %s)" % (
                fo.f.qname.split("::")[-1], e.get("callee") or e.get("target") or e["kind"], atoms, [g[-60:] for g in guard_strs(fo, e["guards"])]))
        if x:
            out.append(e)
    return out


def app_oracle(leaf):
    s_ = str(leaf)
    if isinstance(leaf, tuple):
        if len(leaf) == 3 and leaf[0] in ("==", "!="):
            a_, b_ = str(leaf[1]), str(leaf[2])
            if {a_, b_} == {"nframes_", "0"}:
                return ("NF0", leaf[0] == "==")
            if {a_, b_} == {"nframes_", "1"}:
                return ("NF1", leaf[0] == "==")
            if (a_.startswith("getId(") and b_ == "0") or (b_.startswith("getId(") and a_ == "0"):
                return ("ID0", leaf[0] == "==")
        return None
    if s_.startswith("SynchronizeThreads("):
        return ("SY", True)
    if s_.startswith("DoThreaded("):
        return ("TH", True)
    if s_.startswith("NextFrame("):
        return ("NX", True)
    if s_.startswith("ProcessData("):
        return ("PD", True)
    if s_ in ("is_first_frame_",):
        return ("FF", True)
    if s_ in ("do_mapping_",):
        return ("DM", True)
    return None


def op_of(e):
    """abstract operation of a recorded event"""
    if e["kind"] == "call":
        cal = e["callee"]
        if cal.endswith("Mutex::Lock") or cal.endswith("Mutex::Unlock"):
            m = ring_of(e["obj"])
            lock = cal.endswith("::Lock")
            if m == "reader":
                return "reader.lock" if lock else "reader.unlock"
            if isinstance(m, tuple):
                return "%s.%s.%s" % (m[0], m[1], "await" if lock else "pass")
            return "unknown-mutex:%s" % str(e["obj"])[:60]
        return cal.split("::")[-1]
    if e["kind"] == "store":
        return "store:" + e["target"]
    return e["kind"]


def sc_of(A):
    return ", ".join("%s=%d" % (k_, v_) for k_, v_ in A.items())


def check_processdata_protocol(rep, F, pd):
    import itertools
    same = lambda q, g_: bool(g_.j.get("internal")) and g_.file == pd.file
    fo = Fold(pd, inline=same, record_calls=LOCK_RX).run()
    rel = lambda e: (e["kind"] == "call" and re.search(LOCK_RX, e["callee"])) or (e["kind"] == "store" and e["target"] in ("is_first_frame_", "nframes_")) or e["kind"] == "return"
    names = ["SY", "NF0", "NF1", "FF", "ID0", "NX", "DM"]
    n_sc = 0
    n_reserved = 0
    bad = {}

    def fail(key, msg, e=None):
        bad.setdefault(key, (msg, e))
    for vals in itertools.product((True, False), repeat=len(names)):
        A = dict(zip(names, vals))
        if A["NF0"] and A["NF1"]:
            continue                                  # the budget is one number
        # one unit of the budget left while the master has not yet picked up the frame it read before the threads started, seen by another worker
        reserved = A["NF1"] and A["FF"] and not A["ID0"]
        if reserved and A["SY"]:
            continue                                  # not reachable in ordered mode: worker 0 holds the first In token
        tr = scenario_trace(fo, A, app_oracle, rel)
        ops = [op_of(e) for e in tr]
        n_sc += 1
        if reserved:
            n_reserved += 1
            took = [o for o in ops if o in ("NextFrame", "store:nframes_", "EvalConfiguration")]
            if took:
                fail("unordered|budget-reserved-for-preloaded-frame", "unordered mode, path [%s]: a worker other than worker 0 takes the last frame of the budget (%s) while worker 0 still holds the first "
                     "frame of interest, read before the threads were started; worker 0 then finds the budget used up and drops that frame, so with --nframes K the frames 2..K+1 "
                     "are processed instead of 1..K whenever the other workers are scheduled first" % (sc_of(A), took), [e for e, o in zip(tr, ops) if o in took][0])
                continue
            A = dict(A, NF0=True)                     # for the remaining obligations of this path: no frame may be taken
        tag = "ordered" if A["SY"] else "unordered"
        sc = ", ".join("%s=%d" % (k_, v_) for k_, v_ in A.items())
        unk = [o for o in ops if o.startswith("unknown-mutex")]
        if unk:
            raise AnalysisBroken("ProcessData: unrecognised mutex object(s) %s" % unk)
        pos = lambda name: [i for i, o in enumerate(ops) if o == name]
        rl, ru = pos("reader.lock"), pos("reader.unlock")
        if len(rl) != 1 or len(ru) != 1 or rl[0] > ru[0]:
            fail("%s|reader" % tag, "the reader mutex is locked %d and unlocked %d times on the path [%s] (operations: %s): it must be taken once and released before returning, "
                 "otherwise every other worker blocks forever or the bookkeeping is not one critical section" % (len(rl), len(ru), sc, ops), tr[rl[0]] if rl else None)
            continue
        ring = [o for o in ops if o.startswith(("In.", "Out."))]
        if A["SY"]:
            if ring != ["In.self.await", "In.next.pass"]:
                fail("ordered|ring", "ordered mode, path [%s]: ring operations are %s; required: In[id] awaited once, In[(id+1) %% nthreads_] passed exactly once "
                     "(lost or duplicated token => deadlock or out-of-order read)" % (sc, ring))
                continue
            aw, ps = pos("In.self.await")[0], pos("In.next.pass")[0]
            if not aw < rl[0]:
                fail("ordered|ring-wait-without-reader", "ProcessData waits for its ring token while holding traj_readerMutex_ (lock-order inversion: deadlock) on path [%s]" % sc, tr[aw])
        else:
            if ring:
                fail("unordered|ring", "ring mutexes are used in unordered mode (%s) on path [%s]; they are never initialised there" % (ring, sc))
                continue
            aw, ps = -1, len(ops)
        for i_, o in enumerate(ops):
            if o == "NextFrame":
                if not (rl[0] < i_ < ru[0]):
                    fail("%s|nextframe-under-reader" % tag, "NextFrame is called outside the reader critical section on path [%s]: %s" % (sc, ops), tr[i_])
                if A["SY"] and not (aw < i_ < ps):
                    fail("ordered|read-between-await-and-pass", "ordered mode: NextFrame is not between awaiting the own token and passing it on (path [%s], operations %s): frames can be read out of order" % (sc, ops), tr[i_])
            if o.startswith("store:") and not (rl[0] < i_ < ru[0]):
                fail("%s|bookkeeping-under-reader" % tag, "%s is written outside the reader critical section on path [%s]" % (o[6:], sc), tr[i_])
            if o.startswith("store:") and A["SY"] and not (aw < i_ < ps):
                fail("ordered|bookkeeping-in-window", "ordered mode: %s is written outside the In-token window on path [%s]" % (o[6:], sc), tr[i_])
            if o == "EvalConfiguration":
                if i_ < ru[0] or (A["SY"] and i_ < ps):
                    fail("%s|eval-outside-locks" % tag, "EvalConfiguration runs before the reader mutex is released / the token is passed on path [%s] (%s): evaluation is serialised "
                         "or the next worker is kept waiting" % (sc, ops), tr[i_])
        # R5.9: the preloaded frame
        nf = pos("NextFrame")
        want_nf = (not A["NF0"]) and not (A["FF"] and A["ID0"])
        if bool(nf) != want_nf or len(nf) > 1:
            fail("first-frame-skip-guard", "on path [%s] NextFrame is called %d time(s); required %d: only worker 0 skips the read, and only while is_first_frame_ is set" % (sc, len(nf), int(want_nf)),
                 tr[nf[0]] if nf else None)
        clr = [e for e, o in zip(tr, ops) if o == "store:is_first_frame_"]
        got_frame = (not A["NF0"]) and ((A["FF"] and A["ID0"]) or A["NX"])
        if clr and not A["ID0"]:
            fail("first-frame-cleared-by-worker0", "is_first_frame_ is cleared by a worker other than worker 0 (path [%s]): worker 0 then reads a new frame over the preloaded first frame, "
                 "which is never evaluated (unordered mode, --nt >= 2)" % sc, clr[0])
        if A["ID0"] and got_frame and A["FF"] and not clr:
            fail("first-frame-cleared-by-worker0", "worker 0 does not clear is_first_frame_ after using the preloaded frame (path [%s]): it never reads another frame" % sc)
        for e in clr:
            if e["value"] is not sp.false:
                fail("first-frame-cleared-by-worker0", "is_first_frame_ is set to %s" % e["value"], e)
        # frame budget: decremented exactly once when a frame is taken, never when none is left
        dec = [e for e, o in zip(tr, ops) if o == "store:nframes_"]
        if A["NF0"] and dec:
            fail("frame-budget", "nframes_ is changed although no frame is left (path [%s])" % sc, dec[0])
        if not A["NF0"] and (len(dec) != 1 or sp.simplify(dec[0]["value"] - (S("nframes_") - 1)) != 0):
            fail("frame-budget", "a frame is taken on path [%s] but nframes_ is updated %d time(s) (%s), required exactly nframes_ - 1" % (sc, len(dec), [str(e["value"]) for e in dec]), dec[0] if dec else None)
        # result: true exactly when a frame was obtained
        rets = [e for e in tr if e["kind"] == "return"]
        if len(rets) != 1 or rets[0]["value"] not in (sp.true, sp.false) or (rets[0]["value"] is sp.true) != got_frame:
            fail("result", "on path [%s] ProcessData returns %s; required %s (a frame %s obtained)" % (sc, [str(e["value"]) for e in rets], got_frame, "was" if got_frame else "was not"),
                 rets[0] if rets else None)
        ev_ = pos("EvalConfiguration")
        if bool(ev_) != got_frame or len(ev_) > 1:
            fail("eval-once", "on path [%s] EvalConfiguration is called %d time(s), required %d" % (sc, len(ev_), int(got_frame)))
    rep.floor("R5.2", n_sc, 64, "ProcessData scenarios (SY, NF0, FF, ID0, NX, DM)")
    rep.floor("R5.10", n_reserved, 4, "scenarios with one budgeted frame left and the preloaded frame not yet picked up")
    rules = {"budget-reserved-for-preloaded-frame": "R5.10", "reader": "R5.2", "ring": "R5.2", "ring-wait-without-reader": "R5.5", "nextframe-under-reader": "R5.1", "read-between-await-and-pass": "R5.2",
             "bookkeeping-under-reader": "R5.1", "bookkeeping-in-window": "R5.2", "eval-outside-locks": "R5.5", "first-frame-skip-guard": "R5.9",
             "first-frame-cleared-by-worker0": "R5.9", "frame-budget": "R5.2", "result": "R5.2", "eval-once": "R5.2"}
    keys = ["ordered|reader", "unordered|reader", "ordered|ring", "unordered|ring", "ordered|ring-wait-without-reader", "ordered|nextframe-under-reader", "unordered|nextframe-under-reader",
            "ordered|read-between-await-and-pass", "ordered|bookkeeping-under-reader", "unordered|bookkeeping-under-reader", "ordered|bookkeeping-in-window",
            "ordered|eval-outside-locks", "unordered|eval-outside-locks", "unordered|budget-reserved-for-preloaded-frame", "first-frame-skip-guard", "first-frame-cleared-by-worker0", "frame-budget", "result", "eval-once"]
    for key in keys:
        rid = rules[key.split("|")[-1]]
        if key in bad:
            msg, e = bad[key]
            rep.violation(rid, "protocol|" + key, "ProcessData: " + msg, pd.loc(e["node"]) if e is not None else pd.loc())
        else:
            rep.holds(rid, "protocol|" + key, "holds on all %d scenarios" % n_sc, pd.loc(), sample=key in ("ordered|ring", "first-frame-skip-guard", "ordered|reader"))


def check_workerrun_protocol(rep, F, wr):
    import itertools
    same = lambda q, g_: bool(g_.j.get("internal")) and g_.file == wr.file
    fo = Fold(wr, inline=same, record_calls=LOCK_RX).run()
    rel = lambda e: e["kind"] == "call" and re.search(LOCK_RX, e["callee"])
    bad = {}
    n_sc = 0
    for sy in (True, False):
        A = {"SY": sy, "PD": True, "TH": True}
        tr = scenario_trace(fo, A, app_oracle, rel)
        # a mutex that is neither the reader mutex nor a ring mutex (e.g. one local to this call, which excludes nobody) is an operation of its
        # own kind: it can never complete the required bracket, so the comparison below reports it
        ops = [op_of(e).replace("unknown-mutex:", "other-mutex:") for e in tr]
        n_sc += 1
        body = ops[ops.index("ProcessData") + 1:] if "ProcessData" in ops else None
        if body is None:
            bad.setdefault("loop-on-processdata", ("Worker::Run does not call ProcessData", None))
            continue
        want = ["Out.self.await", "MergeWorker", "Out.next.pass"] if sy else []
        if body != want:
            key = "ordered|merge-bracket" if sy else "unordered|no-merge-in-worker"
            msg = ("ordered mode: one iteration of Worker::Run performs %s; required %s - MergeWorker must run after awaiting Out[id] and before passing Out[(id+1) %% n] "
                   "(otherwise merges overlap or are out of frame order)" % (body, want)) if sy else \
                  "unordered mode: one iteration of Worker::Run performs %s; the worker must neither merge nor touch the ring there" % body
            bad.setdefault(key, (msg, tr[-1] if tr else None))
        if sy and body == want:
            mw = [e for e in tr if op_of(e) == "MergeWorker"][0]
            if str(mw["args"][0]) != "this":
                bad.setdefault("ordered|merge-bracket", ("MergeWorker is called with %s, not this worker" % mw["args"][0], mw))
    for key, rid in (("ordered|merge-bracket", "R5.3"), ("unordered|no-merge-in-worker", "R5.3"), ("loop-on-processdata", "R5.3")):
        if key in bad:
            msg, e = bad[key]
            rep.violation(rid, "protocol|" + key, msg, wr.loc(e["node"]) if e is not None else wr.loc())
        else:
            rep.holds(rid, "protocol|" + key, "holds in both modes", wr.loc(), sample=(key == "ordered|merge-bracket"))


MUTATORS = re.compile(r"::(Process|ProcessRange|Clear|clear|push_back|emplace_back|insert|erase|resize|assign|setZero|setConstant|Initialize|Add\\w*|set\\w*|operator(=|\\+=|-=|\\*=|/=|\\+\\+|--))$")


def check_worker_effects(rep, allF):
    """R5.7: code that runs concurrently in a worker (EvalConfiguration overrides and the worker methods they call) must not
    store into, or call a mutator on, anything reached through the pointer to the shared application object"""
    rep.rule("R5.7", "worker effect rule: in every Worker::EvalConfiguration override and the worker methods it calls, no assignment, "
                     "compound assignment, ++/-- or mutator call has a destination reached through the worker's pointer to the shared "
                     "application object (including references/pointers/loop variables derived from it)")
    ovs = [f for f in allF.overriders(APP + "Worker::EvalConfiguration") if f.j["template"] != "pattern"]
    rep.floor("R5.7", len(ovs), 4, "EvalConfiguration overrides")
    for ov in ovs:
        cls = ov.j.get("class") or ""
        rec = allF.records.get(cls)
        if rec is None:
            rep.broken("R5.7", "record %s not exported" % cls)
            continue
        shared_fields = {fld["qname"] for fld in rec["fields"] if fld["type"].endswith("*") and "votca::" in fld["type"] or (fld["type"].endswith("*") and "class" not in fld["type"] and not fld["type"].startswith("std::"))}
        shared_fields = {q for q in shared_fields if not q.endswith(("::top_", "::top_cg_"))}
        # functions of the worker class reachable from the override (same class)
        todo, funcs = [ov], []
        while todo:
            f = todo.pop()
            if f in funcs:
                continue
            funcs.append(f)
            for n in f.walk():
                if n.get("k") == "mcall" and (n.get("callee") or "").startswith(cls + "::") and unwrap(n.get("obj") or {}).get("k") == "this":
                    todo += [g for g in allF.find(n["callee"]) if g not in funcs]
        bad = []
        n_stores = 0
        for f in funcs:
            rep.analysed(f)
            tainted = set()

            def rooted(n, depth=0):
                n = unwrap(n)
                while n is not None and depth < 40:
                    depth += 1
                    k = n.get("k")
                    if k == "member":
                        if n.get("field") in shared_fields:
                            return True
                        n = unwrap(n.get("base")) if n.get("base") is not None else None
                    elif k == "ref":
                        return n.get("decl") in tainted
                    elif k == "mcall":
                        n = unwrap(n.get("obj")) if n.get("obj") is not None else None
                    elif k == "opcall":
                        n = unwrap(n["args"][0]) if n.get("args") else None
                    elif k in ("unop", "cast"):
                        n = unwrap(n["sub"])
                    elif k == "subscript":
                        n = unwrap(n["base"])
                    elif k == "construct" and len(n.get("args", [])) == 1:
                        n = unwrap(n["args"][0])
                    else:
                        return False
                return False
            changed = True
            while changed:
                changed = False
                for n in f.walk():
                    if n.get("k") == "decl":
                        for d in n["decls"]:
                            t = d.get("type") or ""
                            if d.get("init") is not None and (t.endswith("&") or t.endswith("*")) and d["decl"] not in tainted and rooted(d["init"]):
                                tainted.add(d["decl"]); changed = True
                    elif n.get("k") == "rangefor" and n.get("var") and n["var"]["decl"] not in tainted:
                        t = n["var"].get("type") or ""
                        if (t.endswith("&") or t.endswith("*")) and rooted(n["range"]):
                            tainted.add(n["var"]["decl"]); changed = True
            for n in f.walk():
                k = n.get("k")
                tgt = None
                if k == "assign":
                    tgt = n["lhs"]
                elif k == "unop" and n.get("op") in ("++", "--"):
                    tgt = n["sub"]
                elif k == "opcall" and n.get("op") in ("=", "+=", "-=", "*=", "/=", "++", "--"):
                    tgt = n["args"][0]
                elif k == "mcall" and MUTATORS.search(n.get("callee") or "") and n.get("obj") is not None:
                    tgt = n["obj"]
                if tgt is None:
                    continue
                n_stores += 1
                t = unwrap(tgt)
                # rebinding a local pointer/reference variable itself is not a store into the shared object
                if t.get("k") == "ref":
                    dt = (f.decls.get(t.get("decl")) or {}).get("type", "")
                    if k in ("assign",) and (dt.endswith("*")):
                        continue
                if rooted(tgt):
                    bad.append("%s at %s" % (show(n)[:70], f.loc(n)))
        cname = cls.split("votca::csg::")[-1]
        if not bad:
            rep.holds("R5.7", "worker-effects|" + cname, "%d stores/mutator calls inspected, none reaches the shared application object" % n_stores, ov.loc(), sample=True)
        for b_ in sorted(set(x.split(" at ")[0] for x in bad)):
            where = [x.split(" at ")[1] for x in bad if x.startswith(b_ + " at ")][0]
            rep.violation("R5.7", "worker-effects|%s|%s" % (cname, b_),
                          "%s (runs concurrently in every worker) executes `%s`, which writes to state shared through the application pointer: "
                          "a data race between workers (lost updates; results depend on the schedule and thread count)" % (ov.qname, b_), where)


def fields_in(n):
    return {x.get("field") for x in walk(n) if x.get("k") == "member"}


def occurrence(f, n, group):
    """ordinal of n among group members with the same rendering (stable instance key without line numbers)"""
    same = [x for x in group if show(x) == show(n) and x.get("k") == n.get("k")]
    same.sort(key=lambda x: x["id"])
    return [x["id"] for x in same].index(n["id"])


def exit_fingerprint(f, fl, b):
    """identify an exit by its return expression and ordinal"""
    n = fl.cfg.last_node(b)
    rets = [x for x in f.walk() if x.get("k") == "return"]
    rets.sort(key=lambda x: x["id"])
    # find the return statement in this block
    for e in reversed(fl.cfg.elems[b]):
        if isinstance(e, int):
            x = f.nodes.get(e)
            if x and x.get("k") == "return":
                same = [r for r in rets if show(r.get("value")) == show(x.get("value"))]
                return "return %s#%d" % (show(x.get("value")), [r["id"] for r in same].index(x["id"]))
    return "end"


def check_run(rep, rn):
    """start-up / join ordering of CsgApplication::Run, decided on the folded sequence of ring, thread and merge operations per mode"""
    from vsa.cases import executes_rel
    RX = r"tools::Mutex::(Lock|Unlock)$|tools::Thread::(Start|WaitDone)$|::push_back$|CsgApplication::(MergeWorker|EndEvaluate)$|TrajectoryReader::Close$"
    fo = Fold(rn, inline="internal", record_calls=RX).run()
    conds = getattr(fo, "conds", {})
    rel = lambda c: "SynchronizeThreads(" in str(c) or "DoThreaded(" in str(c)

    def orc(lf):
        s_ = str(lf)
        if s_.startswith("SynchronizeThreads("):
            return ("SY", True)
        if s_.startswith("DoThreaded("):
            return ("TH", True)
        return None

    def kind(e):
        cal, obj = e["callee"], str(e["obj"])
        short = cal.split("::")[-1]
        if short == "push_back":
            for ring in ("In", "Out"):
                if "threadsMutexes%s_" % ring in obj:
                    return "%s.create" % ring if "make_unique" in str(e["args"][0]) else "%s.push-other" % ring
            return None
        if cal.endswith("Mutex::Lock") or cal.endswith("Mutex::Unlock"):
            op = "lock" if cal.endswith("::Lock") else "unlock"
            for ring in ("In", "Out"):
                if "threadsMutexes%s_" % ring in obj:
                    if re.search(r"back\(threadsMutexes%s_\)" % ring, obj):
                        return "%s.back.%s" % (ring, op)
                    if re.search(r"front\(threadsMutexes%s_\)|at\(threadsMutexes%s_, 0\)" % (ring, ring), obj):
                        return "%s.first.%s" % (ring, op)
                    return "%s.other.%s" % (ring, op)
            if "traj_readerMutex_" in obj:
                return "reader." + op
            return "local." + op
        return short
    evs = [e for e in fo.events if e["kind"] == "call" and kind(e) is not None]
    rep.floor("R5.4", len([e for e in evs if kind(e) == "Start"]), 1, "worker Start calls")
    rep.floor("R5.4", len([e for e in evs if kind(e) == "WaitDone"]), 1, "worker WaitDone calls")
    rep.floor("R5.4", len([e for e in evs if kind(e).endswith(".create")]), 2, "ring mutex creations")
    loops = {l["lid"]: l for l in getattr(fo, "loops", [])}

    def lid_of(e):
        ls = [g_[0][1] for g_ in e["guards"] if isinstance(g_[0], tuple) and g_[0] and g_[0][0] == "loop"]
        return ls[-1] if ls else None

    def over_workers(lid):
        l = loops.get(lid)
        if l is None:
            return False
        if l.get("range") is not None:
            return str(l["range"]) == "myWorkers_"
        return "size(myWorkers_)" in str(l.get("cond"))
    res = {}
    for sy in (True, False):
        A = {"SY": sy, "TH": True}
        tr = []
        for e in evs:
            x = executes_rel(e, A, orc, rel, conds)
            if x is None:
                raise AnalysisBroken("CsgApplication::Run: cannot decide whether %s happens in %s mode" % (kind(e), "ordered" if sy else "unordered"))
            if x:
                tr.append(e)
        res[sy] = tr
    # ---- ordered mode
    tr = res[True]
    ks = [kind(e) for e in tr]
    pos = lambda k_: [i for i, x in enumerate(ks) if x == k_]
    starts, waits = pos("Start"), pos("WaitDone")
    for ring in ("In", "Out"):
        cr, lk = pos(ring + ".create"), pos(ring + ".back.lock")
        ok = len(cr) == 1 and len(lk) == 1 and cr[0] < lk[0] and bool(starts) and lk[0] < starts[0] and lid_of(tr[cr[0]]) == lid_of(tr[lk[0]]) and over_workers(lid_of(tr[lk[0]])) \
            and lid_of(tr[lk[0]]) != lid_of(tr[starts[0]])
        rep.check(ok, "R5.4", "prelock|" + ring, "%s ring: one mutex per worker created and locked before any Start" % ring,
                  "the %s ring mutexes are not all created and locked (one per worker, in ordered mode) before the first worker thread starts (operations: %s): a worker can run "
                  "through an unlocked ring and read/merge out of order" % (ring, ks), rn.loc(tr[lk[0]]["node"] if lk else None), sample=True)
        rel_ = pos(ring + ".first.unlock")
        others = [x for x in ks if x.startswith(ring + ".") and x not in (ring + ".create", ring + ".back.lock", ring + ".first.unlock")]
        ok = len(rel_) == 1 and bool(starts) and rel_[0] > starts[-1] and lid_of(tr[rel_[0]]) is None and not others and (not waits or rel_[0] < waits[0])
        rep.check(ok, "R5.4", "release-first|" + ring, "%s[0] released once, after all workers are started" % ring,
                  "start-up does not release exactly %s[0] after the last Start and before the join (ring operations %s)" % (ring, [x for x in ks if x.startswith(ring + ".")]),
                  rn.loc(tr[rel_[0]]["node"] if rel_ else None), sample=True)
    rep.check("MergeWorker" not in ks, "R5.4", "ordered|no-post-join-merge", "ordered mode: the workers merge themselves, Run does not merge after the join",
              "ordered mode: Run merges a worker after the join although the worker already merged in frame order (results counted twice)", rn.loc())
    # ---- unordered mode
    tru = res[False]
    ku = [kind(e) for e in tru]
    posu = lambda k_: [i for i, x in enumerate(ku) if x == k_]
    ringops = [x for x in ku if x.startswith(("In.", "Out."))]
    rep.check(not ringops, "R5.4", "unordered|no-ring", "unordered mode: no ring mutex is created or touched", "unordered mode: Run touches the ring mutexes (%s)" % ringops, rn.loc())
    mw, wd = posu("MergeWorker"), posu("WaitDone")
    ok, why = len(mw) == 1 and len(wd) == 1, "MergeWorker calls %d, WaitDone calls %d" % (len(mw), len(wd))
    if ok:
        m_, w_ = tru[mw[0]], tru[wd[0]]
        lm = lid_of(m_)
        lvar = str(loops[lm]["var"]) if lm in loops and loops[lm].get("var") is not None else None
        seq = ku[wd[0]:mw[0] + 2]
        ok = lm is not None and lm == lid_of(w_) and over_workers(lm) and seq == ["WaitDone", "local.lock", "MergeWorker", "local.unlock"] and lvar is not None \
            and lvar in str(w_["obj"]) and lvar in str(m_["args"][0]) and str(tru[mw[0] - 1]["obj"]) == str(tru[mw[0] + 1]["obj"])
        why = "join/merge sequence inside the loop is %s" % seq
    rep.check(ok, "R5.4", "post-join-merge", "unordered mode: MergeWorker(worker) after that worker's WaitDone, under mergeMutex",
              "the post-join merge is not (only in unordered mode) after WaitDone of the same worker and bracketed by a merge mutex: %s" % why, rn.loc(tru[mw[0]]["node"] if mw else None), sample=True)
    for sy, t_, k_ in ((True, tr, ks), (False, tru, ku)):
        st_, wt_ = [i for i, x in enumerate(k_) if x == "Start"], [i for i, x in enumerate(k_) if x == "WaitDone"]
        tag = "ordered" if sy else "unordered"
        rep.check(len(st_) == 1 and over_workers(lid_of(t_[st_[0]])), "R5.4", "start-all|" + tag, "Start for every element of myWorkers_", "workers are not started by a loop over myWorkers_", rn.loc())
        rep.check(len(wt_) == 1 and over_workers(lid_of(t_[wt_[0]])) and bool(st_) and st_[-1] < wt_[0] and lid_of(t_[wt_[0]]) != lid_of(t_[st_[0]]), "R5.4", "join-all|" + tag,
                  "WaitDone for every element of myWorkers_ after all Starts", "workers are not all joined after being started", rn.loc())
        for nm in ("EndEvaluate", "Close"):
            ix = [i for i, x in enumerate(k_) if x == nm and st_ and i > st_[0]]      # (a reader closed before any thread exists is not concerned)
            if ix and wt_:
                rep.check(all(i > wt_[-1] for i in ix), "R5.4", "after-join|%s|%s" % (nm, tag), "%s after the join loop" % nm, "%s can run before all workers are joined" % nm, rn.loc(t_[ix[0]]["node"]))


def root_name(n):
    n = unwrap(n)
    while n is not None:
        k = n.get("k")
        if k == "ref":
            return n.get("name")
        if k == "opcall":
            n = unwrap(n["args"][0])
        elif k == "mcall":
            n = unwrap(n.get("obj"))
        elif k == "member":
            n = unwrap(n.get("base"))
        elif k in ("cast", "unop"):
            n = unwrap(n["sub"])
        else:
            return None
    return None


def check_ring_size(rep, rn):
    """the hand-over rings are indexed modulo nthreads_ (ring_of): exactly nthreads_ workers (ids 0 .. nthreads_-1) must exist in threaded runs,
    whatever the frame budget - a shorter ring sends the token of the last worker to a worker and mutex that do not exist"""
    fo = Fold(rn, inline="internal", record_calls=r"::push_back$|CsgApplication::Worker::setId$|::setId$").run()
    loops = {l["lid"]: l for l in getattr(fo, "loops", [])}

    def lid_of(e):
        ls = [g_[0][1] for g_ in e["guards"] if isinstance(g_[0], tuple) and g_[0] and g_[0][0] == "loop"]
        return ls[-1] if ls else None
    forks = [e for e in fo.events if e["kind"] == "call" and e["callee"].endswith("push_back") and str(e["obj"]) == "myWorkers_" and "ForkWorker" in str(e["args"][0])]
    ids = [e for e in fo.events if e["kind"] == "call" and e["callee"].endswith("setId") and "myWorkers_" in str(e["obj"])]
    first = [e for e in forks if lid_of(e) is None]
    rest = [e for e in forks if lid_of(e) is not None]
    ok, why = len(first) == 1 and len(rest) == 1, "expected worker 0 created once and the other workers in one loop, found %d + %d creations" % (len(first), len(rest))
    if ok:
        l = loops[lid_of(rest[0])]
        keys = list(l["syms"])
        ok, why = len(keys) == 1, "the worker-creation loop carries %d variables" % len(keys)
    if ok:
        k_ = keys[0]
        j = l["syms"][k_]

        def conj(c):
            if isinstance(c, tuple) and c and c[0] == "&&":
                return conj(c[1]) + conj(c[2])
            return [c]
        cs = conj(l["cond"])
        bound = [c for c in cs if isinstance(c, tuple) and len(c) == 3 and ((c[0] == "<" and c[1] == j) or (c[0] == ">" and c[2] == j))]
        other = [c for c in cs if c not in bound]
        lim = (bound[0][2] if bound[0][0] == "<" else bound[0][1]) if len(bound) == 1 else None
        ok = l["init"].get(k_) == 1 and sp.simplify(l["step"][k_] - j - 1) == 0 and lim is not None and str(lim) == "nthreads_" and all(str(c).startswith("DoThreaded(") for c in other)
        why = "the worker-creation loop runs from %s while %s: it must create the workers 1 .. nthreads_-1, because the hand-over rings are indexed modulo nthreads_" % (
            l["init"].get(k_), fo.cond_str(l["cond"]))
    if ok:
        id0 = [e for e in ids if lid_of(e) is None]
        idj = [e for e in ids if lid_of(e) == lid_of(rest[0])]
        ok = len(id0) == 1 and id0[0]["args"] == [0] and len(idj) == 1 and idj[0]["args"] == [j]
        why = "worker ids are %s / %s, required 0 and the loop counter" % ([str(e["args"]) for e in id0], [str(e["args"]) for e in idj])
    rep.check(ok, "R5.4", "ring-size", "workers 0 .. nthreads_-1 are created (ring modulus nthreads_ = number of workers and of ring mutexes)", "CsgApplication::Run: " + why, rn.loc(rest[0]["node"]) if rest else rn.loc(), sample=True)


def worker_aliases(f):
    """parameters of Worker type and the locals cast from them"""
    al = {p_["decl"] for p_ in f.j.get("params", []) if "Worker" in (p_.get("type") or "")}
    changed = True
    while changed:
        changed = False
        for n in f.walk():
            if n.get("k") != "decl":
                continue
            for d in n["decls"]:
                i0 = unwrap(d.get("init")) if d.get("init") is not None else None
                while i0 is not None and i0.get("k") in ("cast", "construct") and (i0.get("sub") is not None or len(i0.get("args", [])) == 1):
                    i0 = unwrap(i0["sub"] if i0.get("sub") is not None else i0["args"][0])
                if i0 is not None and i0.get("k") == "ref" and i0.get("decl") in al and d["decl"] not in al:
                    al.add(d["decl"])
                    changed = True
    return al


RESETS = re.compile(r"::(Clear|clear|setZero|setConstant|Initialize|assign|resize|fill|operator=)$")


def check_merged_once(rep, allF):
    """R5.11: with thread synchronisation MergeWorker runs after EVERY frame of a worker.  Whatever it adds from the worker into the application must be
    reset before that worker's next frame adds to it again (in MergeWorker, or by EvalConfiguration and the worker methods it calls); otherwise every merge
    re-adds the frames the worker has already handed over, and the totals depend on how the frames are distributed over the threads."""
    rep.rule("R5.11", "ordered mode: every worker member that MergeWorker reads is reset between two merges of that worker - by MergeWorker itself or somewhere in the "
                      "worker's EvalConfiguration call tree (assignment, Clear/clear/setZero/Initialize/...) - so that each frame is merged exactly once")
    merges = [f for f in allF.overriders(APP + "MergeWorker") if f.j["template"] != "pattern"]
    rep.floor("R5.11", len(merges), 2, "MergeWorker overrides")
    for mw in sorted(merges, key=lambda f: f.qname):
        app = mw.j.get("class") or ""
        aname = app.split("votca::csg::")[-1]
        sync = [f for f in allF.find(app + "::SynchronizeThreads") if f.j.get("body")]
        if sync:
            rets = [unwrap(n["value"]) for n in sync[0].walk() if n.get("k") == "return" and n.get("value") is not None]
            if rets and all(r_.get("k") == "bool" and str(r_.get("v")).lower() in ("false", "0") for r_ in rets):
                rep.holds("R5.11", "merged-once|" + aname, "unordered mode: MergeWorker runs once per worker after the join", mw.loc())
                continue
        rep.analysed(mw)
        wparam = mw.j["params"][0]["decl"] if mw.j.get("params") else None
        # locals that alias the worker (casts of the parameter)
        alias = {wparam}
        wcls = None
        changed = True
        while changed:
            changed = False
            for n in mw.walk():
                pairs = []
                if n.get("k") == "decl":
                    pairs = [(d["decl"], d.get("init"), d.get("type")) for d in n["decls"] if d.get("init") is not None]
                elif n.get("k") == "assign" and unwrap(n["lhs"]).get("k") == "ref":
                    pairs = [(unwrap(n["lhs"]).get("decl"), n["rhs"], unwrap(n["lhs"]).get("type"))]
                for dcl, init, ty in pairs:
                    i0 = unwrap(init)
                    while i0 is not None and i0.get("k") in ("cast", "construct") and (i0.get("sub") is not None or len(i0.get("args", [])) == 1):
                        i0 = unwrap(i0["sub"] if i0.get("sub") is not None else i0["args"][0])
                    if i0 is not None and i0.get("k") == "ref" and i0.get("decl") in alias and dcl not in alias:
                        alias.add(dcl)
                        changed = True
                        m_ = re.match(r"^(?:const )?([\w:]+) \*", ty or "")
                        if m_ and m_.group(1) != APP + "Worker":
                            wcls = m_.group(1)
        # functions the worker is handed on to (imc_.MergeWorker(worker), DoCorrelations(worker)), two levels
        helpers = [mw]
        frontier = [(mw, alias)]
        for _lvl in range(3):
            nxt = []
            for f_, al_ in frontier:
                for n in f_.walk():
                    if n.get("k") in ("mcall", "call") and any(unwrap(a).get("k") == "ref" and unwrap(a).get("decl") in al_ for a in n.get("args", [])):
                        for g in allF.find(n.get("callee") or ""):
                            if g.j.get("body") and g not in helpers and g.j.get("template") != "pattern":
                                helpers.append(g)
                                nxt.append((g, None))
            frontier = [(g, worker_aliases(g)) for g, _ in nxt]
        read = {}
        reset_in_merge = set()
        for f in helpers:
            al = alias if f is mw else worker_aliases(f)
            for n in f.walk():
                if n.get("k") == "member" and unwrap(n.get("base") or {}).get("k") == "ref" and unwrap(n["base"]).get("decl") in al:
                    read.setdefault(n.get("fname"), n)
                    if wcls is None and "::" in (n.get("field") or ""):
                        wcls = n["field"].rsplit("::", 1)[0]
                tgt = None
                if n.get("k") == "mcall" and RESETS.search(n.get("callee") or "") and n.get("obj") is not None:
                    tgt = n["obj"]
                elif n.get("k") == "opcall" and n.get("op") == "=" and n.get("args"):
                    tgt = n["args"][0]
                elif n.get("k") == "assign" and n.get("op") == "=":
                    tgt = n["lhs"]
                if tgt is not None:
                    for x in walk(tgt):
                        if x.get("k") == "member" and unwrap(x.get("base") or {}).get("k") == "ref" and unwrap(x["base"]).get("decl") in al:
                            reset_in_merge.add(x.get("fname"))
        if wcls is None or not read:
            rep.broken("R5.11", "%s::MergeWorker: the worker class or the worker members it reads were not found" % aname)
            continue
        evs = [f for f in allF.find(wcls + "::EvalConfiguration") if f.j.get("body")]
        todo, funcs = list(evs), []
        while todo:
            f = todo.pop()
            if f in funcs:
                continue
            funcs.append(f)
            for n in f.walk():
                if n.get("k") == "mcall" and (n.get("callee") or "").startswith(wcls + "::") and unwrap(n.get("obj") or {}).get("k") == "this":
                    todo += [g for g in allF.find(n["callee"]) if g not in funcs and g.j.get("body")]
        reset_in_eval = set()
        for f in funcs:
            rep.analysed(f)
            loopvars = {}
            for n in f.walk():
                if n.get("k") == "rangefor" and n.get("var"):
                    for x in walk(n["range"]):
                        if x.get("k") == "member" and unwrap(x.get("base") or {"k": "this"}).get("k") == "this":
                            loopvars[n["var"]["decl"]] = x.get("fname")
            for n in f.walk():
                tgt = None
                if n.get("k") == "mcall" and RESETS.search(n.get("callee") or "") and n.get("obj") is not None:
                    tgt = n["obj"]
                elif n.get("k") == "opcall" and n.get("op") == "=" and n.get("args"):
                    tgt = n["args"][0]
                elif n.get("k") == "assign" and n.get("op") == "=":
                    tgt = n["lhs"]
                if tgt is None:
                    continue
                for x in walk(tgt):
                    if x.get("k") == "member" and (x.get("base") is None or unwrap(x.get("base")).get("k") == "this"):
                        reset_in_eval.add(x.get("fname"))
                    if x.get("k") == "ref" and x.get("decl") in loopvars:
                        reset_in_eval.add(loopvars[x["decl"]])
        wrec = allF.records.get(wcls) or {}
        own = {fl["name"] for fl in wrec.get("fields", [])}
        stale = sorted(m_ for m_ in read if m_ in own and m_ not in reset_in_merge and m_ not in reset_in_eval)
        rep.check(not stale, "R5.11", "merged-once|" + aname, "worker members merged per frame (%s) are reset between merges" % ", ".join(sorted(m_ for m_ in read if m_ in own)),
                  "%s::MergeWorker runs after every frame (SynchronizeThreads() is not switched off) and adds %s of the worker, which neither MergeWorker nor %s::EvalConfiguration "
                  "ever resets: each merge re-adds the frames that worker has already handed over, so the totals depend on how the frames fall to the threads (--nt)" % (
                      aname, stale, wcls.split("votca::csg::")[-1]), mw.loc(read[stale[0]]) if stale else mw.loc(), sample=True)
