"""C08 - file round trips: writer/reader field tables (TABLE), atom-count guards (PATH), registries (SIB)."""
import os, re
import sympy as sp
from sympy import Matrix
from vsa import front
from vsa.facts import Facts, unwrap, show, walk, lit_value
from vsa.front import AnalysisBroken
from vsa.alg import Fold, S, F as Fn, equal, is_zero, guard_strs
from vsa.cfg import CFG
from vsa.cases import decide, resolve_ite

LEVEL = "other"
C = "votca::csg::"
T = "votca::tools::"
IO = "csg/src/libcsg/modules/io/"


def const_values(F):
    out = {}
    for q, g in F.globals.items():
        if q.startswith(T + "conv::") and g.get("value") not in (None, "?"):
            out[S("conv::" + q.split("::")[-1])] = sp.Rational(g["value"])
    return out


def coeff_atom(v, consts):
    """value == factor * atom  ->  (float factor, atom name) ; None if not of that shape"""
    if isinstance(v, (Matrix, tuple)):
        return None
    v = sp.expand(v)
    atoms = [s for s in v.free_symbols if s not in consts]
    funcs = [a for a in v.atoms(sp.Function)]
    if len(atoms) + len([f for f in funcs if not f.free_symbols - set(atoms)]) == 0:
        return None
    cands = list(atoms)
    for a in cands:
        q = sp.cancel(v / a)
        if not (q.free_symbols - set(consts)) and not q.atoms(sp.Function):
            return float(q.subs(consts)), str(a)
    for fa in funcs:
        q = sp.cancel(v / fa)
        if not (q.free_symbols - set(consts)) and not q.atoms(sp.Function):
            return float(q.subs(consts)), str(fa)
    return None


def stream_items(fo, rx=r"operator<<$"):
    """rhs operands of ostream<< events in evaluation order, manipulators kept (caller filters)"""
    out = []
    for e in fo.events:
        if e["kind"] == "call" and re.search(rx, e["callee"]) and len(e["args"]) >= 2:
            out.append((e["args"][1], e))
    return out


def check_field_width(rep, F):
    """R8.6: DL_POLY files are read by splitting at blanks, and the writer separates numbers only by the field width.  A real number printed with precision p in
    general notation is at most p + 6 characters long (sign, point, e-XX), so a field of width w keeps a blank in front of it iff w >= p + 7."""
    rep.rule("R8.6", "DL_POLY writer: every real number that is separated from its left neighbour by its field width only is printed in a field at least 7 characters "
                     "wider than its precision (general notation: sign, decimal point and a two-digit exponent), so two numbers can never fuse into one token")
    f = F.one(C + "DLPOLYTrajectoryWriter::Write")
    rep.analysed(f)
    fo = Fold(f, record_calls=r"operator<<$").run()
    notation, prec, width = None, None, None
    prev_sep = True
    n_fields = 0

    def int_of(txt):
        """a literal, or a namespace-scope constant initialised with one (static const int real_width = 20)"""
        if re.match(r"^\d+$", txt):
            return int(txt)
        for q_, g_ in getattr(F, "globals", {}).items():
            if (q_ == txt or q_.endswith("::" + txt)) and g_.get("const") and g_.get("init") is not None:
                v_ = lit_value(g_["init"])
                if v_ is not None and v_.denominator == 1:
                    return int(v_)
        return None
    bad = None
    for v, e in stream_items(fo):
        sv = str(v)
        ty = (e["node"].get("args") or [{}, {}])[1].get("type", "") if e["node"].get("args") else ""
        m = re.match(r"^setprecision\((.*)\)$", sv)
        if m:
            prec = int_of(m.group(1))
            continue
        m = re.match(r"^setw\((.*)\)$", sv)
        if m:
            width = int_of(m.group(1))
            continue
        if sv in ("std::fixed",):
            notation = "fixed"
            continue
        if sv in ("std::scientific",):
            notation = "scientific"
            continue
        if sv in ("std::defaultfloat",) or (sv.startswith("resetiosflags(") and "fixed" in sv):
            notation = "general"
            continue
        if sv == "std::endl" or (sv.startswith('"') and (sv.endswith('\\n"') or " " in sv)):
            prev_sep = True
            width = None
            continue
        if ty.replace("const ", "") == "double":
            if not prev_sep and notation in ("general", "scientific"):
                n_fields += 1
                need = None if prec is None else prec + (7 if notation == "general" else 8)
                if width is None or need is None or width < need:
                    bad = bad or ("a real number (%s) follows another number in a field of width %s with precision %s in %s notation: printed it can be %s characters long, "
                                  "so a small negative value fills the field and fuses with its left neighbour - the blank-splitting reader cannot read the file back" % (
                                      sv[:50], width, prec, notation, "?" if prec is None else prec + (6 if notation == "general" else 7)), e)
            prev_sep = False
            width = None
            continue
        prev_sep = sv.startswith('"') and sv.endswith(' "')
        width = None
    rep.floor("R8.6", n_fields, 6, "width-separated real fields of the DL_POLY writer")
    rep.check(bad is None, "R8.6", "dlpoly|field-width", "width >= precision + 7 for every width-separated real field (%d fields)" % n_fields,
              "DLPOLYTrajectoryWriter::Write: %s" % (bad[0] if bad else ""), f.loc(bad[1]["node"]) if bad else f.loc(), sample=True)


def run(rep, tier):
    rep.explanation = ("TABLE: for each trajectory format the writer's output items (quantity, component / box element, "
                       "constant factor) are extracted from the folded fprintf / ostream<< / boost::format arguments and the "
                       "reader's parsed fields from the folded sinks (setPos, Pos().x()=, box(i,j)=, box.col(i)=); the two "
                       "tables must agree in order, element mapping and factor product 1. PATH: atom-count guards reach a "
                       "throw expression. SIB: writer/reader registries; table columns; matrix storage order (type fact).")
    rep.rule("R8.1", "per format, every quantity written is read back into the same quantity/component/box element and "
                     "writer factor x reader factor = 1")
    rep.rule("R8.2", "in every reader a mismatch between the file's atom count and the topology reaches a throw expression "
                     "(an exception object that is constructed and discarded does not count)")
    rep.rule("R8.3", "every trajectory extension that can be written can be read (registries agree)")
    rep.rule("R8.4", "tables: every column written by operator<< is restored by operator>>; the flag is taken from the last "
                     "token (after the optional error column); flags i/o/u accepted")
    rep.rule("R8.5", "IMC matrix file: element (i,j) is written on line i as token j and read back as M(i,j) (storage-order "
                     "type fact of the Eigen::Map); index file: 'name range' written, split at the first blank on read")
    units = [front.repo(IO + u) for u in ("growriter.cc", "groreader.cc", "lammpsdumpwriter.cc", "lammpsdumpreader.cc",
                                          "dlpolytrajectorywriter.cc", "dlpolytrajectoryreader.cc", "pdbwriter.cc", "pdbreader.cc",
                                          "xyzwriter.cc", "xyzreader.cc", "lammpsdatareader.cc")] + \
            [front.repo("csg/src/libcsg/" + u) for u in ("imcio.cc", "trajectorywriter.cc", "trajectoryreader.cc")] + \
            [front.repo("tools/src/libtools/table.cc"), os.path.join(front.VERIF, "hosts", "csg_xyz_pdb.cc")]
    F = Facts(front.export(units))
    rep.units = units
    consts = const_values(F)

    check_count_guards(rep, F)
    check_lammps(rep, F, consts)
    check_gro(rep, F, consts)
    check_dlpoly(rep, F, consts)
    check_field_width(rep, F)
    check_xyz_pdb(rep, F, consts)
    check_pdb_box(rep, F)
    check_registry(rep, F)
    check_table(rep, F)
    check_imcio(rep, F)
    rep.assumptions += ["printed precision versus tolerance, names/types and multi-frame ordering are not decided",
                        "the PDB writer emits no CRYST1 record for csg topologies (known finding F08f): box round trip through pdb is not claimed"]


# ------------------------------------------------------------------------------------------ R8.2
def check_count_guards(rep, F):
    """R8.2.  A *count guard* is an ==/!= comparison that involves the topology's bead count (directly, or - in a file-local helper - through
    a parameter that receives it) and whose mismatch edge cannot reach a normal exit of its function (it ends in a throw).  A call of a helper
    that contains such a guard is a guard of the caller."""
    wanted = {"groreader.cc": 1, "lammpsdumpreader.cc": 1, "pdbreader.cc": 1, "dlpolytrajectoryreader.cc": 2, "xyzreader.h": 1,
              "lammpsdatareader.cc": 1}
    found = {k: 0 for k in wanted}
    COUNT = ("Topology::BeadCount", "XYZReader::getContainerSize")

    def is_count_call(n):
        n = unwrap(n)
        return n.get("k") == "mcall" and (n.get("callee") or "").endswith(COUNT)

    def mismatch_throws(f, g, c):
        """no normal exit of f is reachable over the edge taken when the two counts differ"""
        cbs = g.cond_blocks(c["id"])
        if not cbs:
            return None
        exits_ = set(g.exit_blocks(normal=True))
        for b, neg in cbs:
            differs_when = (c["op"] == "!=")            # truth value of the comparison when the counts differ
            idx = 0 if (differs_when != neg) else 1
            s0 = g.succs[b][idx]
            if s0 is None:
                continue
            seen, todo = {s0}, [s0]
            while todo:
                x = todo.pop()
                if x in exits_:
                    return False
                for s_ in g.succs[x]:
                    if s_ is not None and s_ not in seen and s_ != g.exit:
                        seen.add(s_)
                        todo.append(s_)
        return True

    funcs = [f for f in F.funcs if os.path.basename(f.file) in wanted and f.j["template"] != "pattern" and "cfg" in f.j]
    cfgs = {}

    def cfg_of(f):
        if id(f) not in cfgs:
            cfgs[id(f)] = CFG(f)
        return cfgs[id(f)]
    # helpers: file-local free functions with a throwing comparison between parameters / bead counts
    helpers = {}
    for h in funcs:
        if h.j.get("class"):
            continue
        pnames = [p_["name"] for p_ in h.j["params"]]
        for c in h.walk():
            if c.get("k") != "binop" or c.get("op") not in ("==", "!="):
                continue
            l_, r_ = unwrap(c["lhs"]), unwrap(c["rhs"])
            sides = []
            for x in (l_, r_):
                if is_count_call(x):
                    sides.append(("count", None))
                elif x.get("k") == "ref" and show(x) in pnames:
                    sides.append(("param", pnames.index(show(x))))
            if len(sides) == 2 and mismatch_throws(h, cfg_of(h), c) is True:
                helpers.setdefault(h.qname, {"f": h, "cmps": []})["cmps"].append((c, sides))
    guards_of = {}
    for f in funcs:
        if f.qname in helpers:
            continue
        base = os.path.basename(f.file)
        g = None
        for n in f.walk():
            if n.get("k") == "binop" and n.get("op") in ("==", "!=") and any(is_count_call(x) for x in (n["lhs"], n["rhs"])):
                g = g or cfg_of(f)
                if not g.cond_blocks(n["id"]):
                    continue
                mt = mismatch_throws(f, g, n)
                found[base] += 1
                rep.analysed(f)
                key = "count-guard|%s|%s#%d" % (base, f.qname.split("::")[-1], found[base])
                if mt:
                    rep.holds("R8.2", key, "atom-count mismatch -> throw", f.loc(n), sample=True)
                    guards_of.setdefault(id(f), []).append(("cmp", n))
                else:
                    disc = [x for x in f.walk() if x.get("k") == "construct" and "runtime_error" in (x.get("type") or "") and abs((x.get("line") or 0) - (n.get("line") or 0)) <= 4 and
                            not any(a.get("k") == "throw" for a in f.ancestors(x))]
                    why = "constructs a %s and discards it (missing 'throw')" % disc[0]["type"].split("::")[-1] if disc else "can still return normally (it does not end in a throw)"
                    rep.violation("R8.2", key, "%s: the branch taken when the file's atom count differs from the topology %s: the frame is used anyway" % (f.qname, why), f.loc(n))
            elif n.get("k") == "call" and n.get("callee") in helpers:
                hp = helpers[n["callee"]]
                args_ = n.get("args") or []
                hit = [c for c, sides in hp["cmps"] if any(k_ == "count" for k_, _i in sides) or
                       any(k_ == "param" and i_ < len(args_) and any(is_count_call(y) for y in walk(args_[i_])) for k_, i_ in sides)]
                if hit:
                    found[base] += 1
                    rep.analysed(f); rep.analysed(hp["f"])
                    rep.holds("R8.2", "count-guard|%s|%s#%d" % (base, f.qname.split("::")[-1], found[base]),
                              "atom-count mismatch -> throw (through helper %s)" % n["callee"].split("::")[-1], f.loc(n), sample=True)
                    guards_of.setdefault(id(f), []).append(("call", n))
    # path form: in a reader function that carries a count guard, no bead is written on a path that passes none of the throwing guards
    # (a guard that exists for one sub-format only - e.g. DL_POLY HISTORY but not CONFIG - leaves the other sub-format unchecked)
    for f in funcs:
        base = os.path.basename(f.file)
        gl = guards_of.get(id(f), [])
        if not gl:
            continue
        guards = [n for k_, n in gl if k_ == "cmp"]
        g = cfg_of(f)
        barrier = {g.where[n["id"]][0] for k_, n in gl if k_ == "call" and n["id"] in g.where}
        writes = [n for n in f.walk() if n.get("k") == "mcall" and (n.get("callee") or "").endswith(("Bead::setPos", "Bead::setVel", "Bead::setF")) and n["id"] in g.where]
        if not writes:
            continue
        removed = []
        for c in guards:
            for b, neg in g.cond_blocks(c["id"]):
                passes = (c["op"] == "==")
                removed.append((b, 0 if (passes != neg) else 1))
        if not removed and not barrier:
            continue
        rem = set(removed)
        exits_ = set(g.exit_blocks(normal=True))
        # boolean member flags the function branches on (first_frame_, isConfig_, topology_): decided case by case with consistent values,
        # so that e.g. "not the first frame of a CONFIG file" is followed to its 'return false' instead of being mixed with other cases
        flags = []
        for b in g.blocks:
            c = g.cond_node(b)
            while c is not None and unwrap(c).get("k") == "unop" and unwrap(c).get("op") == "!":
                c = unwrap(c)["sub"]
            if c is not None and unwrap(c).get("k") == "member" and "bool" in (unwrap(c).get("type") or "bool"):
                nm = unwrap(c).get("fname") or unwrap(c).get("field")
                if nm and nm not in flags:
                    flags.append(nm)
        flags = flags[:5]

        gvars = set()
        for c in guards:
            for side in (c["lhs"], c["rhs"]):
                if re.match(r"^[A-Za-z_]\w*$", show(unwrap(side))):
                    gvars.add(show(unwrap(side)))

        def succs_under(b, case, post_write=False):
            truth = None
            if len(g.succs[b]) == 2:
                c = g.cond_node(b)
                if c is not None:
                    c = unwrap(c)
                    neg = False
                    while c.get("k") == "unop" and c.get("op") == "!":
                        c = unwrap(c["sub"])
                        neg = not neg
                    while c.get("k") == "binop" and c.get("op") in ("&&", "||"):
                        c = unwrap(c["rhs"])          # the block deciding A && B evaluates its last operand
                    nm = (c.get("fname") or c.get("field")) if c.get("k") == "member" else None
                    if nm in case:
                        truth = (case[nm] != neg)
                    # the counter compared with BeadCount counts the beads written: it is positive once a bead was written
                    if post_write and c.get("k") == "binop" and c.get("op") == ">" and show(unwrap(c["lhs"])) in gvars and show(unwrap(c["rhs"])) == "0":
                        truth = (True != neg)
            if b in barrier:
                return            # every execution that continues behind a guard call had matching counts
            for i_, s_ in enumerate(g.succs[b]):
                if s_ is None or (b, i_) in rem or (truth is not None and (i_ == 0) != truth):
                    continue
                yield s_

        def closure(b0, case, post_write=False):
            seen, todo = {b0}, [b0]
            while todo:
                b = todo.pop()
                for s_ in succs_under(b, case, post_write):
                    if s_ not in seen:
                        seen.add(s_)
                        todo.append(s_)
            return seen
        bad, bad_case = [], None
        import itertools as _it
        for vals in _it.product((True, False), repeat=len(flags)):
            case = dict(zip(flags, vals))
            if case.get("topology_") is True:
                continue          # the reader is creating the topology itself from this file: there is no bead count to compare with
            reach = closure(g.entry, case)
            for w in writes:
                wb = g.where[w["id"]][0]
                # unguarded: reachable, and the function can then return normally, never taking the failing edge of a guard
                if wb in reach and wb not in barrier and (closure(wb, case, True) & exits_):
                    bad.append(w)
                    bad_case = case
                    break
            if bad:
                break
        rep.check(not bad, "R8.2", "count-guard-path|%s|%s" % (base, f.qname.split("::")[-1]), "every path that writes a bead and returns normally passes a throwing atom-count guard (cases over %s)" % flags,
                  "%s: %s at line %s lies on a path from entry to a normal return that passes none of the %d atom-count guard(s) of this function (case %s): there a frame whose atom count "
                  "differs from the topology is used (beads overwritten partially, or indexed past the end)" % (f.qname, show(bad[0])[:60] if bad else "", bad[0].get("line") if bad else "", len(guards), bad_case),
                  f.loc(bad[0]) if bad else f.loc())
    for base, want in wanted.items():
        if found[base] < want:
            rep.broken("R8.2", "%s: only %d atom-count comparison(s) located, hand-confirmed floor is %d" % (base, found[base], want))


def yy_direct(cmp_node, call_node):
    l, r = unwrap(cmp_node["lhs"]), unwrap(cmp_node["rhs"])
    return call_node["id"] in (l.get("id"), r.get("id"))


# ------------------------------------------------------------------------------------------ LAMMPS
def check_lammps(rep, F, consts):
    fw = F.one(C + "LAMMPSDumpWriter::Write")
    fr = F.one(C + "LAMMPSDumpReader::ReadAtoms")
    rep.analysed(fw); rep.analysed(fr)
    fo = Fold(fw, record_calls=r"^fprintf$").run()
    header, data = [], []
    for e in fo.events:
        if e["kind"] != "call":
            continue
        fmt = str(e["args"][1]).strip('"')
        gs = tuple(g for g in guard_strs(fo, e["guards"]) if "loop" not in g)
        inloop = any("loop" in g for g in guard_strs(fo, e["guards"]))
        if inloop:
            data.append((gs, fmt, e["args"][2:], e))
        elif fmt.startswith("ITEM: ATOMS") or (header and fmt.strip() and not fmt.startswith("ITEM") and "%" not in fmt):
            header.append((gs, fmt.replace("ITEM: ATOMS", "").split(), e))
    wtable = {}
    for gs, names, e in header:
        items = []
        for g2, fmt, args, e2 in data:
            if g2 == gs and "%" in fmt:
                items += list(args)
        if len(items) != len(names):
            rep.violation("R8.1", "lammps|header-vs-data|" + " ".join(names),
                          "LAMMPS dump writer announces columns %s but writes %d values under the same condition" % (names, len(items)), fw.loc(e["node"]))
            continue
        for nm, it in zip(names, items):
            wtable[nm] = coeff_atom(it, consts)
    rep.floor("R8.1", len(wtable), 11, "LAMMPS dump columns written")
    # reader: stores under guard (fields[j] == "name")
    fo2 = Fold(fr).run()
    rtable = {}
    for e in fo2.events:
        if e["kind"] != "store":
            continue
        g = e["guards"]
        names = [c for c, pol, _ in g if pol and isinstance(c, tuple) and c[0] == "==" and str(c[2]).startswith('"')]
        if not names:
            continue
        nm = str(names[-1][2]).strip('"')
        m = re.match(r"^b->(Pos|Vel|F)\(\)\.([xyz])\(\)$", e["target"])
        if not m:
            continue
        ca = coeff_atom(e["value"], consts)
        rtable[nm] = (m.group(1), m.group(2), ca)
    quantity = {"getPos": "Pos", "getVel": "Vel", "getF": "F"}
    for nm, w in wtable.items():
        if nm in ("id", "type"):
            continue
        if w is None:
            rep.broken("R8.1", "LAMMPS writer item for column %s not of the form factor*quantity" % nm)
            continue
        wf, wa = w
        m = re.match(r"^(getPos|getVel|getF)\(.*\)\.([xyz])$", wa)
        r_ = rtable.get(nm)
        key = "lammps|column|" + nm
        if not m:
            rep.broken("R8.1", "LAMMPS writer column %s writes %s" % (nm, wa))
            continue
        if r_ is None or r_[2] is None:
            rep.violation("R8.1", key, "LAMMPS dump column %s is written but the reader has no sink for it" % nm, fr.loc())
            continue
        rq, rc, (rf, ra) = r_
        ok = quantity[m.group(1)] == rq and m.group(2) == rc and abs(wf * rf - 1) < 1e-9 and ("stod" in ra or "lexical_cast" in ra)
        rep.check(ok, "R8.1", key, "%s: written %s*%g, read into %s.%s *%g" % (nm, wa.split("(")[0] + "." + m.group(2), wf, rq, rc, rf),
                  "LAMMPS dump column %s: writer emits %s.%s x %.8g, reader stores into %s.%s x %.8g (product %.8g, must be the same "
                  "quantity/component with product 1)" % (nm, m.group(1), m.group(2), wf, rq, rc, rf, wf * rf), fr.loc(), sample=(nm in ("x", "fx")))
    # box bounds
    fb = F.one(C + "LAMMPSDumpReader::ReadBox")
    rep.analysed(fb)
    wbox = [coeff_atom(a, consts) for gs, fmt, args, e in [] for a in args]
    box_items = []
    for e in fo.events:
        if e["kind"] == "call" and "%f" in str(e["args"][1]) and not any("loop" in g for g in guard_strs(fo, e["guards"])):
            box_items += [coeff_atom(a, consts) for a in e["args"][2:]]
    okw = len(box_items) == 3 and all(b is not None and re.search(r"\(%d,%d\)$" % (i, i), b[1]) for i, b in enumerate(box_items))
    sb = [n for n in fb.walk() if n.get("k") == "mcall" and n.get("callee") == C + "Topology::setBox"]
    rf = None
    if sb:
        v = Fold(fb).ev(sb[0]["args"][0], {})
        syms = set()
        for x in (list(v) if isinstance(v, Matrix) else [v]):
            syms |= getattr(x, "free_symbols", set())
        cs = [s_ for s_ in syms if s_ in consts]
        if len(cs) == 1 and (not isinstance(v, Matrix) or all(x == 0 or sp.cancel(x / cs[0]).free_symbols.isdisjoint(consts) for x in v)):
            rf = float(consts[cs[0]])
    ok = okw and rf is not None and all(abs(b[0] * rf - 1) < 1e-9 for b in box_items)
    rep.check(ok, "R8.1", "lammps|box", "box bounds written x%s, read x%s" % (box_items[0][0] if okw else "?", rf),
              "LAMMPS dump box: writer items %s, reader scales by %s" % (box_items, rf), fb.loc(), sample=True)


def atoms_in(c):
    """applied undefined functions in a structured condition"""
    from sympy.core.function import AppliedUndef
    out = set()
    if isinstance(c, tuple):
        for x in c:
            out |= atoms_in(x)
    elif hasattr(c, "atoms"):
        out |= c.atoms(AppliedUndef)
    return out


# ------------------------------------------------------------------------------------------ GRO
def check_gro(rep, F, consts):
    fw = F.one(C + "GROWriter::Write")
    fr = F.one(C + "GROReader::NextFrame")
    rep.analysed(fw); rep.analysed(fr)
    fo = Fold(fw, record_calls=r"^fprintf$|^sprintf$").run()
    pos_items, box_items, widths = [], [], []
    fixed = None
    for e in fo.events:
        if e["kind"] != "call":
            continue
        cal = e["callee"]
        args = e["args"]
        if cal == "sprintf":
            nums = [int(a) for a in args[2:] if getattr(a, "is_Integer", False)]
            widths.append(nums)
            continue
        items = [coeff_atom(a, consts) for a in args[2:]]
        names = [i[1] if i else None for i in items]
        if names and all(nm and re.search(r"getPos|getVel", nm) for nm in names):
            pos_items.append((names, [i[0] for i in items], guard_strs(fo, e["guards"])))
        elif names and all(nm and "getBox" in nm for nm in names):
            box_items.append((names, [i[0] for i in items], e))
        elif "%5ld%-5.5s%5.5s%5ld" in str(args[1]):
            fixed = sum(int(w) for w in re.findall(r"%-?(\d+)", str(args[1])))
    # order and unit factor
    want = {6: ["getPos.x", "getPos.y", "getPos.z", "getVel.x", "getVel.y", "getVel.z"], 3: ["getPos.x", "getPos.y", "getPos.z"]}
    rep.floor("R8.1", len(pos_items), 2, "gro coordinate lines")
    for names, facs, gs in pos_items:
        short = [re.sub(r"\(.*\)", "", n) for n in names]
        ok = short == want.get(len(short)) and all(abs(f - 1) < 1e-12 for f in facs)
        rep.check(ok, "R8.1", "gro|coords|%d" % len(short), "writes %s in nm" % short, "GROWriter writes coordinate items %s with factors %s" % (short, facs), fw.loc(), sample=True)
    # column offsets
    col = {}
    for n in fr.walk():
        if n.get("k") == "opcall" and n.get("op") == "=":
            l, r_ = unwrap(n["args"][0]), unwrap(n["args"][1])
            while r_.get("k") in ("construct", "cast") and r_.get("args") and len(r_["args"]) not in (3,):
                r_ = unwrap(r_["args"][0])
            if l.get("k") == "ref" and r_.get("k") == "construct" and len(r_.get("args", [])) >= 3 and show(r_["args"][0]) == "line":
                o, ln = lit_value(r_["args"][1]), lit_value(r_["args"][2])
                if o is not None and ln is not None:
                    col[l["name"]] = (int(o), int(ln))
    okc = fixed == 20 and widths and widths[0][:12:2] == [8] * 6
    seq = [col.get(k) for k in ("x", "y", "z", "vx", "vy", "vz")]
    okc = okc and seq == [(20 + 8 * i, 8) for i in range(6)]
    rep.check(okc, "R8.1", "gro|columns", "fixed columns: 20 header chars, then 6 fields of width 8 read at offsets 20..60",
              "gro column layout disagrees: writer header width %s, field widths %s; reader columns %s" % (fixed, widths[0] if widths else None, seq), fr.loc(), sample=True)
    sp_ = [n for n in fr.walk() if n.get("k") == "mcall" and (n.get("callee") or "").endswith(("::setPos", "::setVel"))]
    for n in sp_:
        a = re.findall(r"stod\((\w+)", show(n["args"][0]))
        want_a = ["x", "y", "z"] if n["callee"].endswith("setPos") else ["vx", "vy", "vz"]
        rep.check(a == want_a, "R8.1", "gro|reader|" + n["callee"].split("::")[-1], "reader builds the vector from %s" % want_a,
                  "GROReader passes %s to %s" % (a, n["callee"].split("::")[-1]), fr.loc(n))
    # box line
    ok, why = False, "box line not found"
    if len(box_items) == 1:
        names, facs, e = box_items[0]
        wmap = [tuple(int(x) for x in re.search(r"\((\d),(\d)\)$", n).groups()) for n in names]
        rmap = {}
        fo2 = Fold(fr, opaque_types=r"std::vector<", record_calls=r"Topology::setBox$").run()
        sb = [ev for ev in fo2.events if ev["kind"] == "call" and ev["args"] and isinstance(ev["args"][0], Matrix) and ev["args"][0].shape == (3, 3)]
        if len(sb) != 1:
            rep.broken("R8.1", "GROReader::NextFrame: expected one setBox(<3x3 matrix>) call, found %d" % len(sb))
            return
        from sympy.core.function import AppliedUndef
        conds2 = getattr(fo2, "conds", {})
        M = sb[0]["args"][0]
        for i_ in range(3):
            for j_ in range(3):
                ent = M[i_, j_]
                szs = {a for cs in conds2.values() for a in atoms_in(cs) if str(a.func) == "size"}
                sub9 = {a: sp.Integer(9) for a in szs}
                ent = resolve_ite(ent, lambda cs: decide(conds2.get(cs), sub9) if cs in conds2 else None)
                mm = re.match(r"^at\(.*, (\d+)\)$", str(ent))
                if mm and str(getattr(ent, "func", "")) == "at":
                    rmap[int(mm.group(1))] = (i_, j_)
        rseq = [rmap.get(k) for k in range(9)]
        ok = wmap == rseq and all(abs(f - 1) < 1e-12 for f in facs) and len(set(wmap)) == 9
        why = "writer emits box elements %s, reader assigns fields 0..8 to %s" % (wmap, rseq)
        g = CFG(fw)
        nid = e["node"]["id"]
        every = nid in g.where and all(g.dominates_block(g.where[nid][0], b) for b in g.exit_blocks())
        if ok and not every:
            ok, why = False, "the nine-value box line is not written on every path (off-diagonal elements can be dropped)"
    elif len(box_items) > 1:
        why = "several box lines: %s - a branch writes only %s" % ([len(b[0]) for b in box_items], min(len(b[0]) for b in box_items))
    rep.check(ok, "R8.1", "gro|box", "9 box elements in GROMACS order on both sides, written on every path", "gro box line: " + why, fw.loc(), sample=True)


# ------------------------------------------------------------------------------------------ DLPOLY
def check_dlpoly(rep, F, consts):
    fw = F.one(C + "DLPOLYTrajectoryWriter::Write")
    fr = F.one(C + "DLPOLYTrajectoryReader::NextFrame")
    rep.analysed(fw); rep.analysed(fr)
    fo = Fold(fw, record_calls=r"operator<<$").run()
    lines, cur = [], []
    for v, e in stream_items(fo):
        if str(v) == "std::endl":
            if cur:
                lines.append(cur)
            cur = []
            continue
        ca = coeff_atom(v, consts)
        if ca and re.match(r"^getBox\(\w+\)\(\d,\d\)$|^get(Pos|Vel|F)\(.*\)\.[xyz]$", ca[1]):
            cur.append((ca, e))
    box_lines = [l for l in lines if all("getBox" in c[0][1] for c in l)]
    rep.floor("R8.1", len(box_lines), 6, "dlpoly cell-vector lines written")
    fo2 = Fold(fr, opaque_types=r"std::vector<").run()
    rscale = None
    rcol = None
    for ev in fo2.events:
        if ev["kind"] == "store" and re.match(r"^box\.col\((.*)\)$", ev["target"]) and isinstance(ev["value"], Matrix):
            comps = [coeff_atom(x, consts) for x in ev["value"]]
            if all(c and re.match(r"^at\(fields, %d\)$" % k, c[1]) for k, c in enumerate(comps)):
                rscale = comps[0][0]
                rcol = True
    for li, l in enumerate(box_lines):
        L = li % 3
        elems = [tuple(int(x) for x in re.search(r"\((\d),(\d)\)$", c[0][1]).groups()) for c in l]
        facs = [c[0][0] for c in l]
        ok = rcol and elems == [(k, L) for k in range(3)] and all(abs(f * rscale - 1) < 1e-9 for f in facs)
        rep.check(ok, "R8.1", "dlpoly|box|%s|line%d" % ("config" if li < 3 else "history", L),
                  "line %d carries box vector %d (a column of the box matrix), x%g / x%g" % (L, L, facs[0], rscale or 0),
                  "DLPOLY cell line %d writes box elements %s x%s; the reader assigns line i to column i (x%s): a triclinic box is "
                  "not read back unchanged" % (L, elems, facs, rscale), fw.loc(l[0][1]["node"]), sample=(li == 1))
    # positions / velocities / forces
    vec_lines = [l for l in lines if len(l) == 3 and not all("getBox" in c[0][1] for c in l)]
    order = [re.match(r"^(getPos|getVel|getF)", l[0][0][1]).group(1) for l in vec_lines]
    sinks = {}
    for n in fr.walk():
        if n.get("k") == "mcall" and (n.get("callee") or "").endswith(("::setPos", "::setVel", "::setF")):
            m = re.search(r"atom_vecs\.col\((\d)\)", show(n["args"][0]))
            if m:
                sinks[int(m.group(1))] = n["callee"].split("::set")[-1]
    rs = None
    for ev in fo2.events:
        if ev["kind"] == "store" and ev["target"].startswith("atom_vecs.col(") and isinstance(ev["value"], Matrix):
            comps = [coeff_atom(x, consts) for x in ev["value"]]
            if all(c and re.match(r"^at\(fields, %d\)$" % k, c[1]) for k, c in enumerate(comps)):
                rs = comps[0][0]
    okv = order == ["getPos", "getVel", "getF"] and sinks == {0: "Pos", 1: "Vel", 2: "F"} and rs is not None
    if okv:
        for l in vec_lines:
            comps = [re.search(r"\.([xyz])$", c[0][1]).group(1) for c in l]
            okv = okv and comps == ["x", "y", "z"] and all(abs(c[0][0] * rs - 1) < 1e-9 for c in l)
    rep.check(okv, "R8.1", "dlpoly|vectors", "pos, vel, force lines (x y z, x10) read into setPos/setVel/setF (x0.1)",
              "DLPOLY atom vectors: writer line order %s, reader sinks %s, reader scale %s" % (order, sinks, rs), fr.loc(), sample=True)


# ------------------------------------------------------------------------------------------ XYZ / PDB
def check_xyz_pdb(rep, F, consts):
    # writer factor: getPos(Bead) helper
    for cls, helper_arg in (("XYZWriter", "std::unique_ptr<votca::csg::Bead"), ("PDBWriter", "const votca::csg::Bead")):
        # the overload the Topology instantiation of the writer really calls (not the one that looks meant for beads): the call's parameter
        # types select it - with BeadContainer = deque<Bead> a getPos(std::unique_ptr<Bead>&) overload is never chosen
        called = None
        for w_ in F.find(C + cls + ("::Write" if cls == "XYZWriter" else "::WriteContainer")):
            if w_.j["template"] != "instantiation" or "Topology" not in w_.j["sig"] + (w_.j.get("qname_targs") or ""):
                continue
            for n_ in w_.walk():
                if n_.get("k") in ("mcall", "call") and (n_.get("callee") or "") == C + cls + "::getPos" and n_.get("ptypes"):
                    called = n_["ptypes"][0].replace(" ", "")
        cand = [f for f in F.find(C + cls + "::getPos") if f.j["template"] in ("none", "instantiation") and
                (called is not None and called in f.j["sig"].replace(" ", "") or called is None and helper_arg in f.j["sig"])]
        if len(cand) != 1:
            rep.broken("R8.1", "%s::getPos(Bead) helper not found (%d candidates)" % (cls, len(cand)))
            continue
        f = cand[0]
        rep.analysed(f)
        fo = Fold(f).run()
        v = fo.returns[0][0]
        ca = coeff_atom(v[0], consts) if isinstance(v, Matrix) else None
        ok = ca is not None and abs(ca[0] - 10) < 1e-9 and ".x" in ca[1]
        rep.check(ok, "R8.1", "%s|writer-factor" % cls.lower()[:3], "%s writes positions x10 (nm -> Angstrom)" % cls,
                  "%s: the getPos overload called for the beads of a Topology (%s) returns %s; expected the position x nm2ang (= 10): the coordinates are written in the wrong unit "
                  "(the reader multiplies by ang2nm, so they do not come back)" % (cls, f.j["sig"][:80], str(v)[:120]), f.loc(), sample=True)
        wr = [x for x in F.find(C + cls + ("::Write" if cls == "XYZWriter" else "::WriteContainer")) if x.j["template"] == "instantiation"]
        for w in wr:
            rep.analysed(w)
            fo = Fold(w, record_calls=r"operator%$").run()
            items = [str(e["args"][1]) for e in fo.events if e["kind"] == "call"]
            comps = [re.search(r"getPos\(.*\)\.([xyz])$", i).group(1) for i in items if re.search(r"getPos\(.*\)\.[xyz]$", i)]
            rep.check(comps == ["x", "y", "z"], "R8.1", "%s|order" % cls.lower()[:3], "%s formats x, y, z in order" % cls,
                      "%s formats position components in order %s" % (cls, comps), w.loc())
    # xyz line structure: lines the writer emits before the first atom record == lines the reader consumes before its atom loop
    wt = [x for x in F.find(C + "XYZWriter::Write") if x.j["template"] in ("instantiation", "pattern") and len(x.j["params"]) == 2]
    wtop = [x for x in F.find(C + "XYZWriter::Write") if len(x.j["params"]) == 1 and "Topology" in x.j["sig"]]
    rdf = [x for x in F.find(C + "XYZReader::ReadFrame")]
    if wt and wtop and rdf:
        def first_loop_line(f_):
            ls = [n.get("line") for n in f_.walk() if n.get("k") in ("for", "rangefor", "while") and n.get("line")]
            return min(ls) if ls else 10**9
        w0, r0 = wt[0], rdf[0]
        lw, lr = first_loop_line(w0), first_loop_line(r0)
        pre_w = sum(str(n.get("v", "")).count("\n") for n in w0.walk() if n.get("k") == "str" and (n.get("line") or 0) < lw and "%" not in str(n.get("v", "")))
        hdr_nl = sum(str(n.get("v", "")).count("\n") for n in wtop[0].walk() if n.get("k") == "str")
        pre_r = len([n for n in r0.walk() if n.get("k") == "call" and "getline" in (n.get("callee") or "") and (n.get("line") or 0) < lr])
        rep.analysed(wtop[0]); rep.analysed(w0); rep.analysed(r0)
        rep.check(pre_w + hdr_nl == pre_r and pre_r >= 2, "R8.1", "xyz|line-structure", "count line + one title line precede the atom records on both sides (%d)" % pre_r,
                  "XYZWriter puts %d line breaks before the first atom record (%d in Write<T>: after the count and after the header; %d inside the header text that "
                  "Write(Topology*) passes), XYZReader consumes %d lines before its atom loop: the reader meets a blank/shifted line where it expects the first atom and rejects "
                  "(or misreads) a file the writer produced" % (pre_w + hdr_nl, pre_w, hdr_nl, pre_r), wtop[0].loc(), sample=True)
    else:
        rep.broken("R8.1", "xyz writer/reader functions not found for the line-structure rule")
    # xyz reader: AddAtom for topologies
    adds = [f for f in F.find(C + "XYZReader::AddAtom") if f.j["template"] == "instantiation" and "Topology" in (f.j.get("qname_targs") or "") + f.j["sig"]]
    rep.floor("R8.1", len(adds), 1, "XYZReader::AddAtom<.., Topology> instantiations")
    for f in adds:
        rep.analysed(f)
        fo = Fold(f, record_calls=r"::setPos$").run()
        for e in fo.events:
            if e["kind"] == "call":
                v = e["args"][0]
                ca = coeff_atom(v[0], consts) if isinstance(v, Matrix) else None
                ok = ca is not None and abs(ca[0] * 10 - 1) < 1e-9
                rep.check(ok, "R8.1", "xyz|reader-factor|%s" % ("topology" if "true" in (f.j.get("qname_targs") or "") else "frame"),
                          "XYZReader stores positions x0.1 (Angstrom -> nm)", "XYZReader::AddAtom passes %s to setPos (writer multiplies by 10)" % str(v)[:120], f.loc(), sample=True)
    rf = [f for f in F.find(C + "XYZReader::ReadFrame") if f.j["template"] == "instantiation"]
    for f in rf[:1]:
        ps = [n for n in f.walk() if n.get("k") == "decl" for d in n["decls"] if d["name"] == "pos"]
        if ps:
            txt = show([d for d in ps[0]["decls"] if d["name"] == "pos"][0]["init"])
            idx = re.findall(r"fields\[(\d)\]", txt)
            rep.check(idx == ["1", "2", "3"], "R8.1", "xyz|reader-order", "fields 1,2,3 -> x,y,z", "XYZReader builds the position from fields %s" % idx, f.loc())
    # pdb reader
    fr = F.one(C + "PDBReader::NextFrame")
    rep.analysed(fr)
    sp_ = [n for n in fr.walk() if n.get("k") == "mcall" and (n.get("callee") or "").endswith("::setPos")]
    rep.floor("R8.1", len(sp_), 1, "PDBReader setPos calls")
    for n in sp_:
        v = Fold(fr).ev(n["args"][0], {})
        cas = [coeff_atom(x, consts) for x in v] if isinstance(v, Matrix) else []
        ok = len(cas) == 3 and all(c and abs(c[0] * 10 - 1) < 1e-9 for c in cas) and [re.search(r"stod\((\w+)", c[1]).group(1) if re.search(r"stod\((\w+)", c[1]) else "?" for c in cas] == ["x", "y", "z"]
        rep.check(ok, "R8.1", "pdb|reader-factor", "PDBReader stores (x,y,z)/10", "PDBReader passes %s to setPos" % str(v)[:160], fr.loc(n), sample=True)


def check_pdb_box(rep, F):
    fw = [f for f in F.find(C + "PDBWriter::Write") if "Topology" in f.j["sig"]]
    fr = F.one(C + "PDBReader::NextFrame")
    if len(fw) != 1:
        rep.broken("R8.1", "PDBWriter::Write(Topology*) not found")
        return
    fw = fw[0]
    rep.analysed(fw)
    reads_box = any(n.get("k") == "mcall" and n.get("callee") == C + "Topology::setBox" for n in fr.walk())
    writes_box = any(n.get("k") == "mcall" and (n.get("callee") or "").endswith("PDBWriter::WriteBox") for n in fw.walk()) or \
        any(n.get("k") == "str" and "CRYST1" in n.get("v", "") for n in fw.walk())
    rep.check(writes_box or not reads_box, "R8.1", "pdb|box", "box written (CRYST1) when the reader restores it",
              "PDBReader restores the box from the CRYST1 record but PDBWriter::Write(Topology*) never writes one: a pdb round trip loses the box", fw.loc(), sample=True)


# ------------------------------------------------------------------------------------------ registries
def check_registry(rep, F):
    def regs(qn):
        f = F.one(qn)
        rep.analysed(f)
        out = {}
        for n in f.walk():
            if n.get("k") == "mcall" and "::Register" in (n.get("callee") or "") and n.get("args"):
                ext = show(n["args"][0]).strip('"')
                m = re.search(r'"(\w+)"', show(n["args"][0]))
                if m:
                    out[m.group(1)] = True
        return f, out
    fw, w = regs(C + "TrajectoryWriter::RegisterPlugins")
    fr, r_ = regs(C + "TrajectoryReader::RegisterPlugins")
    rep.floor("R8.3", len(w), 6, "writer registrations")
    for ext in w:
        rep.check(ext in r_, "R8.3", "registry|" + ext, "extension %s has a reader" % ext, "trajectory extension '%s' can be written but no reader is registered for it" % ext, fw.loc())


# ------------------------------------------------------------------------------------------ tables
def check_table(rep, F):
    fw = [f for f in F.find(T + "operator<<") if "Table" in f.j["sig"]]
    fr = [f for f in F.find(T + "operator>>") if "Table" in f.j["sig"]]
    if len(fw) != 1 or len(fr) != 1:
        rep.broken("R8.4", "Table stream operators not found")
        return
    fw, fr = fw[0], fr[0]
    rep.analysed(fw); rep.analysed(fr)
    check_table_number_format(rep, fw, "R8.4")
    fo = Fold(fw, record_calls=r"operator<<$").run()
    written = set()
    for v, e in stream_items(fo):
        m = re.match(r"^at\(t\.(\w+), ", str(v)) or re.match(r"^at\((\w+)\(t\)", str(v))
        s = str(v)
        for col in ("x_", "y_", "yerr_", "flags_"):
            if "t.%s" % col in s:
                written.add(col)
    rep.floor("R8.4", len(written), 4, "table columns written")
    # columns restored by the reader
    restored = set()
    for n in fr.walk():
        if n.get("k") == "mcall" and (n.get("callee") or "").endswith("Table::push_back"):
            restored |= {"x_", "y_", "flags_"}
            if len(n["args"]) > 3:
                restored.add("yerr_")
        if n.get("k") == "mcall" and (n.get("callee") or "").endswith(("Table::yerr", "Table::set")) and len(n.get("args", [])) in (1, 5):
            restored.add("yerr_")
        if n.get("k") == "member" and n.get("fname") == "yerr_":
            par = fr.nodes.get(fr.parent.get(n["id"]))
            restored.add("yerr_")
    for col in sorted(written):
        rep.check(col in restored, "R8.4", "table|column|" + col, "column %s written and restored" % col,
                  "Table operator<< writes the %s column but operator>> never restores it" % col.rstrip("_"), fr.loc(), sample=True)
    # flag token: live parser loops only (a getline loop without break runs to EOF; later loops on the stream see nothing)
    loops = [n for n in fr.body["stmts"] if n.get("k") == "while" and "getline" in show(n["cond"])]
    live = []
    for lp in loops:
        live.append(lp)
        has_break = any(x.get("k") == "break" and not any(a.get("k") in ("for", "while", "do", "rangefor", "switch") and a["id"] != lp["id"]
                                                         and a["id"] in [y["id"] for y in walk(lp)] for a in fr.ancestors(x))
                        for x in walk(lp["body"]))
        if not has_break:
            break
    rep.floor("R8.4", len(live), 1, "live parser loops")
    nflag = 0
    for lp in live:
        for n in walk(lp["body"]):
            if n.get("k") == "if" and re.search(r"tokens\.size\(\) > 2", show(n["cond"])):
                # where does the flag come from?
                srcs = set()
                cmps = []
                for x in walk(n["then"]):
                    if x.get("k") == "binop" and x["op"] == "==":
                        cmps.append((x["lhs"], x["rhs"]))
                    elif x.get("k") == "opcall" and x.get("op") == "==" and len(x["args"]) == 2:
                        cmps.append((x["args"][0], x["args"][1]))
                for l_, r2 in cmps:
                    if show(r2) in ('"i"', '"o"', '"u"'):
                        srcs.add(show(l_))
                resolved = set()
                for s_ in srcs:
                    d = [dd for dd in fr.decls.values() if dd.get("name") == s_ and dd.get("init") is not None]
                    resolved.add(show(d[0]["init"]) if d else s_)
                nflag += 1
                ok = bool(resolved) and all(re.sub(r"^.*\((tokens.*)\)$", r"\1", r_) in ("tokens.back()", "tokens[(tokens.size() - 1)]") or r_.endswith("tokens.back()") for r_ in resolved)
                lits = {show(r2) for l_, r2 in cmps}
                rep.check(ok and {'"i"', '"o"', '"u"'} <= lits, "R8.4", "table|flag-token#%d" % nflag, "flag read from the last token; i/o/u accepted",
                          "Table operator>> takes the flag from %s; with an error column the flag is the last (4th) token, so flags of tables "
                          "with errors are lost" % sorted(resolved), fr.loc(n), sample=True)
    rep.floor("R8.4", nflag, 1, "flag parsing sites")


# ------------------------------------------------------------------------------------------ imcio
def check_imcio(rep, F):
    fw = F.one(C + "imcio_write_matrix")
    fr = F.one(C + "imcio_read_matrix")
    rep.analysed(fw); rep.analysed(fr)
    # writer: gmc(i, j) with i from the outer loop and j from the inner, newline in the outer loop only
    ok = True
    n_sites = 0
    for n in fw.walk():
        if n.get("k") == "opcall" and n.get("op") == "()" and show(n["args"][0]) == "gmc" and len(n["args"]) == 3:
            n_sites += 1
            loops = [a for a in fw.ancestors(n) if a.get("k") in ("for", "rangefor")]
            if len(loops) != 2:
                ok = False
                continue
            inner, outer = loops[0], loops[1]
            def var(l):
                return l["var"]["name"] if l["k"] == "rangefor" else l["init"]["decls"][0]["name"]
            ok = ok and show(n["args"][1]) == var(outer) and show(n["args"][2]) == var(inner)
            ends = [x for x in walk(outer["body"]) if x.get("k") == "ref" and x.get("name") == "endl"]
            ends_inner = [x for x in walk(inner["body"]) if x.get("k") == "ref" and x.get("name") == "endl"]
            ok = ok and bool(ends) and not ends_inner
    rep.check(ok and n_sites >= 2, "R8.5", "imc|writer-layout", "line i holds gmc(i, 0..cols-1)", "imcio_write_matrix does not write row i of the matrix on line i", fw.loc(), sample=True)
    # reader: buffer filled token by token, line by line; returned Map must be row-major (rows=lines, cols=tokens) or transposed col-major
    rets = [n for n in fr.walk() if n.get("k") == "return"]
    ok, why = False, "return not recognised"
    if rets:
        e = unwrap(rets[-1]["value"])
        maps = [x for x in walk(e) if x.get("k") == "construct" and "Eigen::Map<" in (x.get("type") or "")]
        transposed = any(x.get("k") == "mcall" and (x.get("callee") or "").endswith("::transpose") for x in walk(e))
        if maps:
            t = maps[0]["type"]
            m = re.search(r"Eigen::Map<Eigen::Matrix<double, -1, -1, (\d)", t)
            rowmajor = bool(m) and (int(m.group(1)) & 1) == 1
            a = [show(x) for x in maps[0]["args"]]
            dims = a[1:3]
            if rowmajor and not transposed:
                ok = dims == ["numrows", "numcols"]
            elif not rowmajor and transposed:
                ok = dims == ["numcols", "numrows"]
            why = "buffer filled line by line is wrapped in a %s Eigen::Map with dims %s%s: element (i,j) of the file comes back as %s" % (
                "row-major" if rowmajor else "column-major", dims, " and transposed" if transposed else "",
                "M(i,j)" if ok else "a different element (transposed/scrambled)")
    rep.check(ok, "R8.5", "imc|reader-layout", "file element (line i, token j) -> M(i,j)", "imcio_read_matrix: " + why, fr.loc(rets[-1] if rets else None), sample=True)
    # index file
    fwi = F.one(C + "imcio_write_index")
    fri = F.one(C + "imcio_read_index")
    rep.analysed(fwi); rep.analysed(fri)
    fo = Fold(fwi, record_calls=r"operator<<$").run()
    its = [str(v) for v, e in stream_items(fo)]
    seq = [i for i in its if i != "std::endl"]
    okw = len(seq) >= 3 and "first" in seq[0] and seq[1] == '" "' and "second" in seq[2]
    calls = [show(n) for n in fri.walk() if n.get("k") == "mcall"]
    okr = any(c.startswith('line.find(') and '" "' in c for c in calls) and any(c.startswith("line.substr(0, found") for c in calls) \
        and any(c.startswith("line.substr(found") for c in calls)
    parse = [n for n in fri.walk() if n.get("k") == "mcall" and n.get("callee") == T + "RangeParser::Parse"]
    rep.check(okw and okr and len(parse) == 1, "R8.5", "imc|index", "'name range' written; split at the first blank and re-parsed on read",
              "IMC index file: writer items %s, reader split/parse not recognised" % seq[:4], fri.loc())


def check_table_number_format(rep, fw, rule):
    """tables round-trip 'to printed precision': the writer prints a fixed number of SIGNIFICANT digits (general or scientific notation).  Fixed notation
    prints a number of decimals instead, so ordinates of small magnitude lose all their digits (1.2345678e-9 -> 0.0000000012)"""
    fixed = []
    prec = []
    for n in fw.walk():
        cal = n.get("callee") or ""
        if n.get("k") == "mcall" and cal.endswith("ios_base::precision") and n.get("args"):
            v = lit_value(n["args"][0])
            prec.append(v)
        if n.get("k") == "mcall" and cal.endswith(("ios_base::setf", "ios_base::flags")) and any("fixed" in show(a) for a in n.get("args", [])):
            fixed.append(n)
        if n.get("k") in ("call", "ref") and (cal == "std::fixed" or n.get("qname") == "std::fixed" or (n.get("k") == "ref" and n.get("name") == "fixed" and "ios_base" in (n.get("type") or ""))):
            fixed.append(n)
        if n.get("k") == "call" and cal in ("std::setiosflags",) and any("fixed" in show(a) for a in n.get("args", [])):
            fixed.append(n)
    ok = not fixed and (not prec or all(p_ is not None and float(p_) >= 6 for p_ in prec))
    rep.check(ok, rule, "table|number-format", "values are printed with %s significant digits (no fixed notation)" % (int(prec[0]) if prec and prec[0] is not None else "the default 6"),
              "the Table writer %s: the printed precision becomes absolute, so small ordinates are truncated (1.2345678e-9 is written as 0.0000000012) and a saved "
              "or resampled table no longer returns its values" % ("switches the stream to fixed notation" if fixed else "prints only %s digits" % prec), fw.loc(fixed[0]) if fixed else fw.loc(), sample=True)
