"""C02 - minimum image convention (ALG identity of the kernels, EXH decision table, SIB override set)."""
import re
import sympy as sp
from sympy import Matrix
from vsa import front
from vsa.facts import Facts, unwrap, show, walk
from vsa.front import AnalysisBroken
from vsa.alg import Fold, S, F as Fn, equal, vec_atoms, mat_atoms, sqrt, deep
from vsa.cfg import CFG

LEVEL = "translation_validation"
C = "votca::csg::"
BC = C + "BoundaryCondition::"


def run(rep, tier):
    rep.explanation = ("Each BCShortestConnection override is folded to a canonical expression over the atoms r_i, r_j, "
                       "box_(i,j) and the uninterpreted rounding atom and compared with the property's formula "
                       "(translation validation of code against the closed form); volume/height kernels likewise; the "
                       "box-type decision table and the forwarding functions are checked on the AST.")
    rep.rule("R2.1", "the override set of BoundaryCondition::BCShortestConnection is exactly {OpenBox, OrthorhombicBox, TriclinicBox}")
    rep.rule("R2.2", "kernels: open r_j-r_i; orthorhombic d - L*round(d/L) component-wise; triclinic the sequential "
                     "reduction z, y, x, each stage consuming the previous one, rounding with round-half-away (std::round)")
    rep.rule("R2.3", "BoxVolume = |det box|; shortest box dimension = min over the three heights a.(bxc)/|bxc| ...")
    rep.rule("R2.4", "decision table: zero matrix -> open, diagonal -> orthorhombic, else triclinic; Topology::setBox "
                     "creates the class of the requested/detected type and forwards the matrix; each class reports its own "
                     "type; Topology::BCShortestConnection/getDist forward (pos(b1), pos(b2)) in that order")
    units = [front.repo("csg/src/libcsg/" + u) for u in
             ("orthorhombicbox.cc", "triclinicbox.cc", "openbox.cc", "boundarycondition.cc", "topology.cc")]
    F = Facts(front.export(units))
    rep.units = units

    # ---------------------------------------------------------------- R2.1
    ov = F.overriders(BC + "BCShortestConnection")
    names = sorted(f.qname for f in ov)
    want = sorted(C + k + "::BCShortestConnection" for k in ("OpenBox", "OrthorhombicBox", "TriclinicBox"))
    if names != want:
        extra = set(names) - set(want)
        if extra:
            rep.broken("R2.1", "unknown sibling(s) %s: add the kernel formula to rules/C02.py" % sorted(extra))
        for m in set(want) - set(names):
            rep.broken("R2.1", "override %s vanished" % m)
    else:
        rep.holds("R2.1", "override-set", "overrides: %s" % [n.split("::")[-2] for n in names], sample=True)

    def kernel(cls):
        f = F.one(C + cls + "::BCShortestConnection")
        rep.analysed(f)
        ps = f.j["params"]
        if len(ps) != 2:
            raise AnalysisBroken(cls + "::BCShortestConnection: expected two parameters")
        fo = Fold(f).run()
        if len(fo.returns) != 1 or fo.returns[0][1]:
            raise AnalysisBroken(cls + "::BCShortestConnection: expected one unconditional return")
        ri, rj = vec_atoms(ps[0]["name"]), vec_atoms(ps[1]["name"])
        return f, fo.returns[0][0], ri, rj

    box = mat_atoms("box_")
    rnd = Fn("round")
    # open
    f, val, ri, rj = kernel("OpenBox")
    rep.check(isinstance(val, Matrix) and equal(val, rj - ri), "R2.2", "kernel|OpenBox", "returns r_j - r_i",
              "OpenBox::BCShortestConnection returns %s, not the plain difference r_j - r_i" % short(val), f.loc(), sample=True)
    # orthorhombic
    f, val, ri, rj = kernel("OrthorhombicBox")
    d = rj - ri
    want_o = Matrix([d[i] - box[i, i] * rnd(d[i] / box[i, i]) for i in range(3)])
    ok = isinstance(val, Matrix) and val.shape == (3, 1) and equal(val, want_o)
    rep.check(ok, "R2.2", "kernel|OrthorhombicBox", "d - L*round(d/L) per component: " + short(val),
              diagnose(val, want_o, "OrthorhombicBox"), f.loc(), sample=True)
    # triclinic
    f, val, ri, rj = kernel("TriclinicBox")
    t0 = rj - ri
    t1 = t0 - box[:, 2] * rnd(t0[2] / box[2, 2])
    t2 = t1 - box[:, 1] * rnd(t1[1] / box[1, 1])
    t3 = t2 - box[:, 0] * rnd(t2[0] / box[0, 0])
    ok = isinstance(val, Matrix) and val.shape == (3, 1) and equal(val, t3)
    rep.check(ok, "R2.2", "kernel|TriclinicBox", "sequential reduction z,y,x: " + short(val),
              diagnose(val, t3, "TriclinicBox"), f.loc(), sample=True)

    # ---------------------------------------------------------------- R2.3
    fv = F.one(BC + "BoxVolume")
    rep.analysed(fv)
    fo = Fold(fv).run()
    v = fo.returns[0][0] if fo.returns else None
    rep.check(v is not None and equal(v, sp.Abs(box.det())), "R2.3", "volume", "BoxVolume = |det(box_)|",
              "BoxVolume returns %s, not |det(box_)|" % short(v), fv.loc(), sample=True)
    fs = F.one(BC + "getShortestBoxDimension")
    rep.analysed(fs)
    fo = Fold(fs).run()
    v = fo.returns[0][0] if fo.returns else None
    a, b, c = box[:, 0], box[:, 1], box[:, 2]

    def height(x, y, z):
        n = y.cross(z)
        return (x.T * n)[0, 0] / sqrt((n.T * n)[0, 0])
    hs = [height(a, b, c), height(b, c, a), height(c, a, b)]
    ok = False
    if v is not None and not isinstance(v, (Matrix, tuple)):
        leaves = min_leaves(v)
        ok = leaves is not None and len(leaves) == 3 and all(any(equal(l, h) for l in leaves) for h in hs)
    rep.check(ok, "R2.3", "shortest-dimension", "min of the three box heights a.(bxc)/|bxc|, b.(cxa)/|cxa|, c.(axb)/|axb|",
              "getShortestBoxDimension returns %s, not the minimum of the three heights of the parallelepiped" % short(v),
              fs.loc(), sample=True)

    # ---------------------------------------------------------------- R2.4
    T = C + "Topology::"
    fa = F.one(T + "autoDetectBoxType")
    rep.analysed(fa)
    fo = Fold(fa).run()
    pbox = mat_atoms(fa.j["params"][0]["name"])
    offd = pbox - sp.diag(pbox[0, 0], pbox[1, 1], pbox[2, 2])
    fold0 = Fold(fa)
    m1, m2 = fold0.scalarize(pbox), fold0.scalarize(offd)

    def cname(c):
        """'zero' / 'offdiag-zero' for isApproxToConstant(<matrix>, 0, ...) conditions"""
        if str(getattr(c, "func", "")) == "isApproxToConstant" and len(c.args) >= 2 and c.args[1] == 0:
            if c.args[0] == m1:
                return "box==0"
            if c.args[0] == m2:
                return "offdiag(box)==0"
        return fo.cond_str(c)
    # decided by cases of the two predicates the function may consult (whatever its control structure: if-chain, early returns, ?:)
    from vsa.cases import decide, resolve_ite
    cds = getattr(fo, "conds", {})

    def box_orc(lf):
        nm = cname(lf) if not isinstance(lf, tuple) else None
        if nm == "box==0":
            return ("ZERO", True)
        if nm == "offdiag(box)==0":
            return ("DIAG", True)
        return None
    table, und = {}, None
    # representatives of the three classes (the entries are touched through the two predicates, or through comparisons the numbers decide)
    Rq = sp.Rational
    reps = [("the zero box", sp.zeros(3, 3), "typeOpen"),
            ("a diagonal box", sp.diag(1, 2, 3), "typeOrthorhombic"),
            ("a box with one off-diagonal element", sp.Matrix([[1, Rq(1, 2), 0], [0, 2, 0], [0, 0, 3]]), "typeTriclinic"),
            ("a box whose off-diagonal elements sum to zero", sp.Matrix([[1, Rq(1, 2), 0], [-Rq(1, 2), 2, 0], [0, 0, 3]]), "typeTriclinic"),
            ("a box with zero diagonal and one off-diagonal element", sp.Matrix([[0, 0, 1], [0, 0, 0], [0, 0, 0]]), "typeTriclinic"),
            ("a box with tiny off-diagonal elements", sp.Matrix([[1, Rq(1, 10 ** 6), 0], [0, 2, 0], [0, 0, 3]]), "typeTriclinic")]
    for label, Mx, want in reps:
        A = {"ZERO": Mx == sp.zeros(3, 3), "DIAG": all(Mx[i_, j_] == 0 for i_ in range(3) for j_ in range(3) if i_ != j_)}
        sub = {pbox[i_, j_]: Mx[i_, j_] for i_ in range(3) for j_ in range(3)}
        got = None
        for val, guards, _ in fo.returns:
            ts = [decide(g, sub, A, box_orc, cds) for g, _p, _n in guards]
            if any(t_ is None for t_ in ts):
                und = "cannot decide the path condition %s for %s" % ([fo.cond_str(g)[:80] for g, _p, _n in guards], label)
                break
            if all(t_ == p_ for t_, (_g, p_, _n) in zip(ts, guards)):
                v_ = resolve_ite(val, lambda cs: decide(cds[cs], sub, A, box_orc, cds) if cs in cds else None) if hasattr(val, "args") else val
                got = str(v_).split("::")[-1]
                break
        table[label] = (got, want)
    if und:
        raise AnalysisBroken("autoDetectBoxType: " + und)
    rep.check(all(g_ == w_ for g_, w_ in table.values()), "R2.4", "autodetect", "zero->open, off-diagonal zero->orthorhombic, else triclinic",
              "autoDetectBoxType decides %s" % {k_: "%s (required %s)" % v_ for k_, v_ in table.items() if v_[0] != v_[1]},
              fa.loc(), sample=True)
    # setBox: switch over the box type
    fsb = F.one(T + "setBox")
    rep.analysed(fsb)
    check_setbox(rep, fsb)
    # getBoxType of each class
    for cls, en in (("OpenBox", "typeOpen"), ("OrthorhombicBox", "typeOrthorhombic"), ("TriclinicBox", "typeTriclinic")):
        fs_ = F.find(C + cls + "::getBoxType")
        if len(fs_) != 1:
            rep.broken("R2.4", cls + "::getBoxType not found")
            continue
        r = [n for n in fs_[0].walk() if n["k"] == "return"]
        got = unwrap(r[0]["value"]).get("qname", "?").split("::")[-1] if r else "?"
        rep.check(got == en, "R2.4", "boxtype|" + cls, "%s reports %s" % (cls, en), "%s::getBoxType returns %s" % (cls, got), fs_[0].loc())
    # forwarding
    fb = F.one(T + "BCShortestConnection")
    rep.analysed(fb)
    r = [n for n in fb.walk() if n["k"] == "return"]
    ok = False
    if len(r) == 1:
        e = unwrap(r[0]["value"])
        if e.get("k") == "mcall" and e.get("callee") == BC + "BCShortestConnection" and e.get("virtual"):
            a0, a1 = unwrap(e["args"][0]), unwrap(e["args"][1])
            ps = fb.j["params"]
            ok = a0.get("decl") == ps[0]["decl"] and a1.get("decl") == ps[1]["decl"] and "bc_" in show(e["obj"])
    rep.check(ok, "R2.4", "forward|Topology::BCShortestConnection", "forwards (r_i, r_j) to bc_ in order",
              "Topology::BCShortestConnection does not forward (r_i, r_j) unchanged to the boundary object", fb.loc(), sample=True)
    fg = F.one(T + "getDist")
    rep.analysed(fg)
    fog = Fold(fg, record_calls=r"Topology::BCShortestConnection$").run()
    cl = [e for e in fog.events if e["kind"] == "call"]
    ps = [p_["name"] for p_ in fg.j["params"]]
    ok, got = False, "no BCShortestConnection call"
    if len(cl) == 1 and len(fog.returns) == 1 and len(ps) == 2:
        a0, a1 = cl[0]["args"][0], cl[0]["args"][1]
        got = "%s, %s" % (short(a0), short(a1))
        want0 = vec_atoms("getPos(getBead(this, %s))" % ps[0])
        want1 = vec_atoms("getPos(getBead(this, %s))" % ps[1])
        ok = isinstance(a0, Matrix) and isinstance(a1, Matrix) and a0 == want0 and a1 == want1 and fog.returns[0][0] == cl[0]["value"] and not cl[0]["guards"]
    rep.check(ok, "R2.4", "forward|Topology::getDist", "getDist(b1,b2) = BC(pos(b1), pos(b2))",
              "Topology::getDist calls BCShortestConnection with (%s), not (pos(bead1), pos(bead2)), or does not return its result" % got, fg.loc(), sample=True)
    rep.assumptions += ["round is treated as an uninterpreted function: identity of formulas is decided, not the "
                        "floating-point behaviour at exact half-box ties",
                        "integer-combination, antisymmetry and translation invariance are consequences of the verified "
                        "closed forms (round(-x) = -round(x), round(x+n) = round(x)+n)"]


def short(v):
    s = str(list(v)) if isinstance(v, Matrix) else str(v)
    return s if len(s) < 400 else s[:400] + "..."


def min_leaves(e):
    """leaves of a nest of min(.,.) applications"""
    if str(getattr(e, "func", "")) == "min":
        out = []
        for a in e.args:
            l = min_leaves(a)
            if l is None:
                return None
            out += l
        return out
    return [e]


def diagnose(val, want, cls):
    if not isinstance(val, Matrix) or val.shape != (3, 1):
        return "%s::BCShortestConnection returns %s (not a 3-vector expression)" % (cls, short(val))
    s = str(val)
    hints = []
    for bad in ("floor", "trunc", "ceil", "rint", "lround", "toint"):
        if bad + "(" in s:
            hints.append("uses %s instead of round" % bad)
    if "round" not in s and not hints:
        hints.append("no rounding atom at all")
    for i, ax in enumerate("xyz"):
        if not equal(val[i], want[i]):
            hints.append("component %s is %s, expected %s" % (ax, short(deep(val[i])), short(deep(want[i]))))
            break
    return "%s::BCShortestConnection differs from the minimum-image formula: %s" % (cls, "; ".join(hints))


def check_setbox(rep, f):
    """Topology::setBox folded with the requested box type bound to each enumerator: which boundary class is created, that typeAuto is resolved
    through autoDetectBoxType(box), and that the box is forwarded to the new object"""
    from vsa.alg import ENUM_SYMS
    from vsa.cases import executes
    ps = f.j["params"]
    EB = "votca::csg::BoundaryCondition::eBoxtype::"
    cls_of = lambda v: (re.search(r"make_unique<(\w+)>", str(v)) or [None, str(v)[:40]])[1]
    want = {"typeTriclinic": "TriclinicBox", "typeOrthorhombic": "OrthorhombicBox", "typeOpen": "OpenBox"}

    def fold_with(bt):
        sym = S(EB + bt)
        ENUM_SYMS.add(sym)
        return Fold(f, record_calls=r"BoundaryCondition::setBox$|Topology::autoDetectBoxType$").run({ps[1]["decl"]: sym})
    got = {}
    fwd_ok = True
    for bt in want:
        fo = fold_with(bt)
        st = [e for e in fo.events if e["kind"] == "store" and e["target"].replace(" ", "") == "bc_"]
        live = [e for e in st if executes(e, None, None, None, getattr(fo, "conds", {})) is True]
        got[bt] = cls_of(live[-1]["value"]) if len(live) >= 1 else "nothing"
        fw = [e for e in fo.events if e["kind"] == "call" and e["callee"].endswith("BoundaryCondition::setBox")]
        fwd_ok = fwd_ok and len(fw) == 1 and not fw[0]["guards"] and not fw[0]["not"] and bool(live) and fo.events.index(fw[0]) > fo.events.index(live[-1]) \
            and "bc_" in nows_(show(fw[0]["node"]["obj"])) and isinstance(fw[0]["args"][0], Matrix) and fw[0]["args"][0] == mat_atoms(ps[0]["name"])
        if any(e["kind"] == "call" and e["callee"].endswith("autoDetectBoxType") for e in fo.events):
            got[bt] += " (after auto-detection although the type was given)"
    rep.check(got == want, "R2.4", "setbox|table", "box type -> class: %s" % got,
              "Topology::setBox creates %s; expected typeTriclinic->TriclinicBox, typeOrthorhombic->OrthorhombicBox, typeOpen->OpenBox" % got, f.loc(), sample=True)
    rep.holds("R2.4", "setbox|switch-var", "the class depends on the boxtype parameter (decided by binding it)", f.loc())
    # typeAuto: resolved by autoDetectBoxType(box), then the same table
    fo = fold_with("typeAuto")
    au = [e for e in fo.events if e["kind"] == "call" and e["callee"].endswith("autoDetectBoxType")]
    ok = len(au) == 1 and not au[0]["guards"] and isinstance(au[0]["args"][0], Matrix) and au[0]["args"][0] == mat_atoms(ps[0]["name"])
    gota = {}
    if ok:
        det = au[0]["value"]
        st = [e for e in fo.events if e["kind"] == "store" and e["target"].replace(" ", "") == "bc_"]
        for r_ in want:
            def orc(lf, r_=r_):
                if isinstance(lf, tuple) and lf and lf[0] == "switch" and len(lf) == 3 and lf[1] == det:
                    labs = [str(x).split("::")[-1] for x in lf[2]]
                    others = [l_ for e in st for g_ in e["guards"] if isinstance(g_[0], tuple) and g_[0] and g_[0][0] == "switch" for l_ in [str(x).split("::")[-1] for x in g_[0][2]]]
                    return ("sel", r_ in labs or ("default" in labs and r_ not in others))
                if isinstance(lf, tuple) and len(lf) == 3 and lf[0] in ("==", "!=") and det in (lf[1], lf[2]):
                    other = lf[2] if lf[1] == det else lf[1]
                    return ("sel", (str(other).split("::")[-1] == r_) == (lf[0] == "=="))
                return None
            live = [e for e in st if executes(e, None, {"sel": True}, orc, getattr(fo, "conds", {})) is True]
            gota[r_] = cls_of(live[-1]["value"]) if live else "nothing"
        ok = gota == want
    rep.check(ok, "R2.4", "setbox|auto", "typeAuto is resolved by autoDetectBoxType(box) and then mapped like an explicit type",
              "Topology::setBox does not resolve typeAuto through autoDetectBoxType(box) before creating the boundary object (detected type -> class: %s)" % gota,
              f.loc(au[0]["node"] if au else None))
    fw = [e for e in fo.events if e["kind"] == "call" and e["callee"].endswith("BoundaryCondition::setBox")]
    fwd_ok = fwd_ok and len(fw) == 1 and not fw[0]["guards"] and not fw[0]["not"]
    rep.check(fwd_ok, "R2.4", "setbox|forward", "bc_->setBox(box) after the boundary object was created, on every path",
              "Topology::setBox does not forward the box matrix to the new boundary object on every path", f.loc(fw[0]["node"] if fw else None))


def nows_(s):
    return re.sub(r"\s+", "", s)
