"""C20 - unit conversions and physical constants (CONST family).
Decides, from the clang-evaluated constants and the switch->return tables of UnitConverter:
 R20.1 table completeness/positivity, convert == value(to)/value(from) (=> inverse + transitivity identically),
       derived units are exactly the quotients of their base conversions
 R20.2 each table entry / conv:: constant vs CODATA-2018/SI to 4 significant digits, reciprocal pairs,
       cross-table agreement of the two encodings of one quantity, CsgUnits choice
 R20.3 element tables: symbol<->number bijection, name tables mutually inverse, nuclear charge == atomic number,
       masses vs standard atomic weights to 4 significant digits
"""
import math, os, re
from fractions import Fraction as Fr
from vsa import front
from vsa.facts import Facts, walk, unwrap, lit_value, show
from vsa.front import AnalysisBroken

LEVEL = "proof"
T = "votca::tools::"

# reference values (CODATA 2018 / SI exact definitions)
E_CHARGE = Fr("1.602176634e-19")
BOHR_ANG = Fr("0.529177210903")
AMU_KG = Fr("1.66053906660e-27")
HARTREE_EV = Fr("27.211386245988")
CAL_TH = Fr("4.184")
NA = Fr("6.02214076e23")
KB_EV = Fr("8.617333262e-5")
HBAR_EVS = Fr("6.582119569e-16")

REF_TABLES = {
    "getDistanceValue_": ("DistanceUnit", {"meters": Fr("1e-10"), "centimeters": Fr("1e-8"), "nanometers": Fr("0.1"),
                                           "angstroms": Fr(1), "bohr": 1 / BOHR_ANG}),
    "getTimeValue_": ("TimeUnit", {"seconds": Fr("1e-12"), "microseconds": Fr("1e-6"), "nanoseconds": Fr("1e-3"),
                                   "picoseconds": Fr(1), "femtoseconds": Fr(1000)}),
    "getMassValue_": ("MassUnit", {"kilograms": AMU_KG, "grams": AMU_KG * 1000, "picograms": AMU_KG * 10**15,
                                   "femtograms": AMU_KG * 10**18, "attograms": AMU_KG * 10**21,
                                   "atomic_mass_units": Fr(1), "grams_per_mole": Fr(1)}),
    "getEnergyValue_": ("EnergyUnit", {"kilocalories": E_CHARGE / (CAL_TH * 1000), "kilojoules": E_CHARGE / 1000,
                                       "joules": E_CHARGE, "hartrees": 1 / HARTREE_EV, "electron_volts": Fr(1)}),
    "getMolarEnergyValue_": ("MolarEnergyUnit", {"kilocalories_per_mole": E_CHARGE / (CAL_TH * 1000),
                                                 "kilojoules_per_mole": E_CHARGE / 1000, "joules_per_mole": E_CHARGE,
                                                 "hartrees_per_mole": 1 / HARTREE_EV,
                                                 "electron_volts_per_mole": Fr(1)}),
    "getChargeValue_": ("ChargeUnit", {"e": Fr(1), "coulombs": E_CHARGE}),
}
# derived unit -> (numerator table, unit, reference unit) / (denominator table, unit, reference unit)
DERIVED = {
    "getVelocityValue_": ("VelocityUnit", {
        "nanometers_per_picosecond": (("getDistanceValue_", "nanometers", "nanometers"), ("getTimeValue_", "picoseconds", "picoseconds")),
        "angstroms_per_picosecond": (("getDistanceValue_", "angstroms", "nanometers"), ("getTimeValue_", "picoseconds", "picoseconds")),
        "angstroms_per_femtosecond": (("getDistanceValue_", "angstroms", "nanometers"), ("getTimeValue_", "femtoseconds", "picoseconds"))}),
    "getForceValue_": ("ForceUnit", {
        "kilocalories_per_angstrom": (("getEnergyValue_", "kilocalories", "kilojoules"), ("getDistanceValue_", "angstroms", "nanometers")),
        "newtons": (("getEnergyValue_", "joules", "kilojoules"), ("getDistanceValue_", "meters", "nanometers")),
        "kilojoules_per_nanometer": (("getEnergyValue_", "kilojoules", "kilojoules"), ("getDistanceValue_", "nanometers", "nanometers")),
        "kilojoules_per_angstrom": (("getEnergyValue_", "kilojoules", "kilojoules"), ("getDistanceValue_", "angstroms", "nanometers")),
        "hatree_per_bohr": (("getEnergyValue_", "hartrees", "kilojoules"), ("getDistanceValue_", "bohr", "nanometers"))}),
    "getMolarForceValue_": ("MolarForceUnit", {
        "kilocalories_per_mole_angstrom": (("getMolarEnergyValue_", "kilocalories_per_mole", "kilojoules_per_mole"), ("getDistanceValue_", "angstroms", "nanometers")),
        "newtons_per_mole": (("getMolarEnergyValue_", "joules_per_mole", "kilojoules_per_mole"), ("getDistanceValue_", "meters", "nanometers")),
        "kilojoules_per_mole_nanometer": (("getMolarEnergyValue_", "kilojoules_per_mole", "kilojoules_per_mole"), ("getDistanceValue_", "nanometers", "nanometers")),
        "kilojoules_per_mole_angstrom": (("getMolarEnergyValue_", "kilojoules_per_mole", "kilojoules_per_mole"), ("getDistanceValue_", "angstroms", "nanometers")),
        "hatree_per_mole_bohr": (("getMolarEnergyValue_", "hartrees_per_mole", "kilojoules_per_mole"), ("getDistanceValue_", "bohr", "nanometers"))}),
}
ENUM_OF_TABLE = {k: v[0] for k, v in list(REF_TABLES.items()) + list(DERIVED.items())}

CONV_REF = {
    "kB": KB_EV, "hbar": HBAR_EVS, "bohr2nm": BOHR_ANG / 10, "nm2bohr": 10 / BOHR_ANG, "ang2bohr": 1 / BOHR_ANG,
    "bohr2ang": BOHR_ANG, "nm2ang": Fr(10), "ang2nm": Fr("0.1"), "hrt2ev": HARTREE_EV, "ev2hrt": 1 / HARTREE_EV,
    "ev2kj_per_mol": E_CHARGE * NA / 1000, "kcal2kj": CAL_TH, "kj2kcal": 1 / CAL_TH,
    "Pi": Fr("3.14159265358979323846"),
}
RECIPROCAL = [("bohr2nm", "nm2bohr"), ("ang2bohr", "bohr2ang"), ("nm2ang", "ang2nm"), ("hrt2ev", "ev2hrt"),
              ("kcal2kj", "kj2kcal")]

# standard atomic weights (IUPAC abridged); only 4 significant digits are used
STD_WEIGHT = {"H": 1.008, "He": 4.0026, "Li": 6.94, "Be": 9.0122, "B": 10.81, "C": 12.011, "N": 14.007, "O": 15.999,
              "F": 18.998, "Ne": 20.180, "Na": 22.990, "Mg": 24.305, "Al": 26.982, "Si": 28.085, "P": 30.974,
              "S": 32.06, "Cl": 35.45, "Ar": 39.948, "K": 39.098, "Ca": 40.078, "Sc": 44.956, "Ti": 47.867,
              "V": 50.942, "Cr": 51.996, "Mn": 54.938, "Fe": 55.845, "Co": 58.933, "Ni": 58.693, "Cu": 63.546,
              "Zn": 65.38, "Ga": 69.723, "Ge": 72.630, "As": 74.922, "Se": 78.971, "Br": 79.904, "Kr": 83.798,
              "Rb": 85.468, "Sr": 87.62, "Y": 88.906, "Zr": 91.224, "Nb": 92.906, "Mo": 95.95, "Tc": 98.0,
              "Ru": 101.07, "Rh": 102.91, "Pd": 106.42, "Ag": 107.87, "Cd": 112.41, "In": 114.82, "Sn": 118.71,
              "Sb": 121.76, "Te": 127.60, "I": 126.90, "Xe": 131.29, "Cs": 132.91, "Ba": 137.33, "La": 138.91,
              "Hf": 178.49, "Ta": 180.95, "W": 183.84, "Re": 186.21, "Os": 190.23, "Ir": 192.22, "Pt": 195.08,
              "Au": 196.97, "Hg": 200.59, "Tl": 204.38, "Pb": 207.2, "Bi": 208.98, "Po": 209.0, "At": 210.0,
              "Rn": 222.0}
PERIODIC = ["H", "He", "Li", "Be", "B", "C", "N", "O", "F", "Ne", "Na", "Mg", "Al", "Si", "P", "S", "Cl", "Ar", "K",
            "Ca", "Sc", "Ti", "V", "Cr", "Mn", "Fe", "Co", "Ni", "Cu", "Zn", "Ga", "Ge", "As", "Se", "Br", "Kr", "Rb",
            "Sr", "Y", "Zr", "Nb", "Mo", "Tc", "Ru", "Rh", "Pd", "Ag", "Cd", "In", "Sn", "Sb", "Te", "I", "Xe", "Cs",
            "Ba", "La", "Ce", "Pr", "Nd", "Pm", "Sm", "Eu", "Gd", "Tb", "Dy", "Ho", "Er", "Tm", "Yb", "Lu", "Hf",
            "Ta", "W", "Re", "Os", "Ir", "Pt", "Au", "Hg", "Tl", "Pb", "Bi", "Po", "At", "Rn"]


def sympy_rat(fr):
    import sympy as sp
    return sp.Rational(fr.numerator, fr.denominator)


def sig4(val, ref):
    """|val-ref| within half a unit of the 4th significant digit of ref"""
    val, ref = float(val), float(ref)
    if ref == 0:
        return val == 0
    e = math.floor(math.log10(abs(ref)))
    return abs(val - ref) <= 0.5 * 10 ** (e - 3) * 1.0000001


def switch_table(f):
    """{enumerator short name: return expression node} for a function of shape switch(param){case X: return e;...}"""
    sw = [n for n in f.walk() if n["k"] == "switch"]
    if len(sw) != 1:
        raise AnalysisBroken("%s: expected exactly one switch, found %d" % (f.qname, len(sw)))
    cond = unwrap(sw[0]["cond"])
    if cond.get("k") != "ref" or cond.get("dk") != "param":
        raise AnalysisBroken("%s: switch is not over the parameter" % f.qname)
    tab = {}
    body = sw[0]["body"]
    stmts = body["stmts"] if body["k"] == "compound" else [body]
    pending = []
    for st in stmts:
        while st["k"] in ("case", "default"):
            if st["k"] == "default":
                raise AnalysisBroken("%s: default label in unit table" % f.qname)
            pending.append(st["enumerator"].split("::")[-1])
            st = st["sub"]
        if st["k"] == "return":
            for name in pending:
                tab[name] = st["value"]
            pending = []
        elif pending:
            raise AnalysisBroken("%s: case %s does not return directly" % (f.qname, pending))
    tail = [st for st in f.body["stmts"] if st["k"] == "return"]
    return tab, tail


def run(rep, tier):
    rep.explanation = ("CONST rules: the nine UnitConverter value tables are read from the switch/return shape of the "
                       "type-checked AST, convert() bodies are matched structurally as value(to)/value(from), all "
                       "values are evaluated exactly (decimal literals as exact rationals) and compared with each other, "
                       "with the clang-evaluated conv:: constants and with an embedded CODATA-2018 table; element maps "
                       "are extracted as (key, literal) pairs from the Fill* bodies.")
    rep.rule("R20.1", "every enumerator has a positive table value (no fall-through to the 0.0 tail); convert(a,b) is "
                      "value(to)/value(from) of the same table (hence inverse and transitive identically); derived "
                      "units equal the quotient of their base conversions")
    rep.rule("R20.2", "table entries and conv:: constants agree with CODATA-2018/SI and with every other encoding of the "
                      "same quantity to 4 significant digits; reciprocal constants multiply to 1 to 4 significant digits")
    rep.rule("R20.3", "element tables: symbol<->number bijection, short/full name tables mutually inverse, nuclear "
                      "charge equals atomic number, mass equals the standard atomic weight to 4 significant digits")
    units = [os.path.join(front.VERIF, "hosts", "tools_units.cc"), front.repo("tools/src/libtools/elements.cc")]
    F = Facts(front.export(units))
    rep.units = units
    rep.trusted.append("CODATA-2018 / IUPAC reference tables embedded in rules/C20.py")

    # ---------------------------------------------------------------- R20.1
    values = {}     # table -> {enumerator: Fraction}
    UC = T + "UnitConverter::"
    tables = {}
    for tname in list(REF_TABLES) + list(DERIVED):
        f = F.one(UC + tname)
        rep.analysed(f)
        enum = F.enum(T + ENUM_OF_TABLE[tname])
        names = [e[0] for e in enum["enumerators"]]
        tables[tname] = (f, {en: None for en in names})
    # convert overloads: value(to)/value(from)
    conv_of_enum = {}
    by_value = []
    for f in F.find(UC + "convert"):
        rep.analysed(f)
        ps = f.j["params"]
        ret = [n for n in f.walk() if n["k"] == "return"]
        ok = False
        detail = ""
        tname = None
        if len(ps) == 2 and len(ret) == 1:
            e = unwrap(ret[0]["value"])
            if e["k"] == "binop" and e["op"] == "/":
                l, r = unwrap(e["lhs"]), unwrap(e["rhs"])
                if l["k"] == "mcall" and r["k"] == "mcall" and l["callee"] == r["callee"] and l["callee"].startswith(UC + "get"):
                    la, ra = unwrap(l["args"][0]), unwrap(r["args"][0])
                    tname = l["callee"].split("::")[-1]
                    ok = (la.get("decl") == ps[1]["decl"] and ra.get("decl") == ps[0]["decl"])
                    detail = show(e)
        enum_name = ps[0]["type"].replace("const ", "").replace(" &", "").split("::")[-1] if ps else "?"
        if tname is None:
            # not literally value(to)/value(from): which table it consults, and what it returns for every ordered pair of units (decided below, by value)
            helpers = sorted({n["callee"].split("::")[-1] for n in f.walk() if n.get("k") == "mcall" and (n.get("callee") or "").startswith(UC + "get")})
            if len(helpers) != 1 or helpers[0] not in ENUM_OF_TABLE:
                rep.broken("R20.1", "convert(%s): the table it consults was not found (%s)" % (enum_name, helpers))
                continue
            tname = helpers[0]
            conv_of_enum[enum_name] = tname
            by_value.append((f, enum_name, tname))
            continue
        conv_of_enum[enum_name] = tname
        rep.check(ok and ENUM_OF_TABLE.get(tname) == enum_name, "R20.1", "convert|" + enum_name,
                  "convert(from,to) == %s" % detail,
                  "convert(%s from, to) is %s, not value(to)/value(from) of its own table" % (enum_name, detail),
                  f.loc(), sample=True)
    rep.floor("R20.1", len(conv_of_enum), 9, "convert overloads")

    import sympy as sp
    from vsa.alg import Fold, S, ENUM_SYMS

    def value_of(tname, en, depth=0):
        """exact value the table function returns for the enumerator: the function is folded with the parameter bound to the enumerator
        (switch or if-chains, temporaries and helper methods of the class alike); convert(A,B) calls are folded through the tables"""
        if en in values.setdefault(tname, {}):
            return values[tname][en]
        if depth > 8:
            raise AnalysisBroken("unit tables refer to each other cyclically (%s)" % tname)
        f, _tab = tables[tname]
        enum_q = T + ENUM_OF_TABLE[tname]

        def hook(fold, n, env):
            if n.get("k") == "mcall" and n.get("callee") == UC + "convert" and len(n.get("args", [])) == 2:
                a_, b_ = fold.ev(n["args"][0], env), fold.ev(n["args"][1], env)
                if a_ in ENUM_SYMS and b_ in ENUM_SYMS:
                    en_ = unwrap(n["args"][0]).get("type", "").replace("const ", "").replace(" &", "").split("::")[-1]
                    if en_ not in conv_of_enum:
                        en_ = str(a_).split("::")[-2]
                    tn = conv_of_enum[en_]
                    va, vb = value_of(tn, str(a_).split("::")[-1], depth + 1), value_of(tn, str(b_).split("::")[-1], depth + 1)
                    if va == 0:
                        raise ZeroDivisionError()
                    return sympy_rat(vb) / sympy_rat(va)
            return NotImplemented
        sym = S("%s::%s" % (enum_q, en))
        ENUM_SYMS.add(sym)
        fo = Fold(f, call=hook, inline=lambda q, g_: q.startswith(UC) and not q.endswith("::convert") and not q.split("::")[-1].startswith("get"))
        fo.run({f.j["params"][0]["decl"]: sym})
        if len(fo.returns) != 1 or isinstance(fo.returns[0][0], (tuple, sp.Matrix)) or not getattr(fo.returns[0][0], "is_number", False):
            raise AnalysisBroken("%s(%s) does not fold to one constant (%s)" % (tname, en, [str(r_[0])[:60] for r_ in fo.returns]))
        v = sp.nsimplify(fo.returns[0][0], rational=True)
        values[tname][en] = Fr(int(v.p), int(v.q))
        tables[tname][1][en] = fo.returns[0][2]
        return values[tname][en]

    # convert overloads that are not literally value(to)/value(from): every ordered pair of units, against the reference sizes of the units
    for f, enum_name, tname in by_value:
        names = [e[0] for e in F.enum(T + enum_name)["enumerators"]]
        ref = REF_TABLES.get(tname, (None, None))[1]
        bad = None
        for a_ in names:
            for b_ in names:
                sa, sb = S("%s::%s" % (T + enum_name, a_)), S("%s::%s" % (T + enum_name, b_))
                ENUM_SYMS.add(sa)
                ENUM_SYMS.add(sb)
                def tab_hook(fold, n, env):
                    cal = n.get("callee") or ""
                    if n.get("k") == "mcall" and cal.startswith(UC + "get") and cal.split("::")[-1] in tables and len(n.get("args", [])) == 1:
                        ev_ = fold.ev(n["args"][0], env)
                        if ev_ in ENUM_SYMS:
                            return sympy_rat(value_of(cal.split("::")[-1], str(ev_).split("::")[-1]))
                    return NotImplemented
                fo = Fold(f, call=tab_hook, inline=lambda q, g_: q.startswith(UC) and not q.endswith("::convert") and not q.split("::")[-1].startswith("get"))
                fo.run({f.j["params"][0]["decl"]: sa, f.j["params"][1]["decl"]: sb})
                if len(fo.returns) != 1 or not getattr(fo.returns[0][0], "is_number", False):
                    raise AnalysisBroken("convert(%s): %s -> %s does not fold to a constant" % (enum_name, a_, b_))
                got = sp.nsimplify(fo.returns[0][0], rational=True)
                if ref is not None and a_ in ref and b_ in ref:
                    want = sympy_rat(ref[b_]) / sympy_rat(ref[a_])
                else:
                    want = sympy_rat(value_of(tname, b_)) / sympy_rat(value_of(tname, a_))
                if want == 0 or abs(got / want - 1) > sp.Rational(1, 10 ** 4):
                    bad = bad or "convert(%s -> %s) = %s, the value is %s" % (a_, b_, float(got), float(want))
        rep.check(bad is None, "R20.1", "convert|" + enum_name, "convert(from, to) for all %d ordered pairs of %s" % (len(names) ** 2, enum_name),
                  "UnitConverter::convert(%s): %s" % (enum_name, bad), f.loc(), sample=True)

    n_pos = 0
    for tname, (f, tab) in tables.items():
        for en, node in tab.items():
            try:
                v = value_of(tname, en)
            except ZeroDivisionError:
                rep.violation("R20.1", "positive|%s|%s" % (tname, en), "entry divides by a zero table value", f.loc(node))
                continue
            n_pos += 1
            rep.check(v > 0, "R20.1", "positive|%s|%s" % (tname, en), "value %s > 0" % float(v),
                      "table value of %s is %s (must be positive)" % (en, float(v)), f.loc(node))
    rep.floor("R20.1", n_pos, 42, "table entries")

    for tname, (en_enum, spec) in DERIVED.items():
        f, tab = tables[tname]
        for en, ((nt, nu, nref), (dt, du, dref)) in spec.items():
            if en not in tab:
                continue
            want = (value_of(nt, nu) / value_of(nt, nref)) / (value_of(dt, du) / value_of(dt, dref))
            got = value_of(tname, en)
            rep.check(got == want, "R20.1", "derived|%s|%s" % (tname, en),
                      "%s == convert(%s->%s)/convert(%s->%s) == %s exactly" % (show(tab[en]), nref, nu, dref, du, float(want)),
                      "derived unit %s has value %.12g, the quotient of its base conversions is %.12g" % (en, float(got), float(want)),
                      f.loc(tab[en]), sample=True)
        for en in tab:
            if en not in spec:
                rep.broken("R20.1", "derived unit %s of %s unknown to the rule table; add it with its base units" % (en, tname))

    # ---------------------------------------------------------------- R20.2
    for tname, (en_enum, ref) in REF_TABLES.items():
        f, tab = tables[tname]
        for en in tab:
            if en not in ref:
                rep.broken("R20.2", "unit %s of %s has no reference value in the rule table" % (en, tname))
                continue
            v = value_of(tname, en)
            rep.check(sig4(v, ref[en]), "R20.2", "codata|%s|%s" % (tname, en),
                      "%.10g vs reference %.10g" % (float(v), float(ref[en])),
                      "table value %.10g of %s disagrees with the CODATA/SI value %.10g in the first 4 significant digits"
                      % (float(v), en, float(ref[en])), f.loc(tab[en]), sample=(en in ("bohr", "kilocalories")))
    conv = {}
    for q, g in F.globals.items():
        if q.startswith(T + "conv::") and g.get("value") not in (None, "?"):
            conv[q.split("::")[-1]] = (Fr(g["value"]), "%s:%s" % (g["file"], g["line"]))
    rep.floor("R20.2", len(conv), 14, "conv:: constants")
    for name, (v, loc) in conv.items():
        if name not in CONV_REF:
            rep.broken("R20.2", "conv::%s has no reference value in the rule table" % name)
            continue
        rep.check(sig4(v, CONV_REF[name]), "R20.2", "codata|conv::%s|%.9g" % (name, float(v)),
                  "%.10g vs reference %.10g" % (float(v), float(CONV_REF[name])),
                  "conv::%s = %.10g disagrees with the CODATA/SI value %.10g in the first 4 significant digits"
                  % (name, float(v), float(CONV_REF[name])), loc, sample=(name in ("kB", "kcal2kj")))
    for a, b in RECIPROCAL:
        if a in conv and b in conv:
            p = float(conv[a][0] * conv[b][0])
            rep.check(sig4(p, 1), "R20.2", "reciprocal|%s*%s" % (a, b), "product = %.12f" % p,
                      "conv::%s * conv::%s = %.12f, not 1" % (a, b, p), conv[a][1])
        else:
            rep.broken("R20.2", "reciprocal pair %s/%s vanished" % (a, b))
    # the two encodings of one quantity
    cross = [
        ("ang2bohr", lambda: value_of("getDistanceValue_", "bohr") / value_of("getDistanceValue_", "angstroms"), "bohr per Angstrom"),
        ("nm2bohr", lambda: value_of("getDistanceValue_", "bohr") / value_of("getDistanceValue_", "nanometers"), "bohr per nm"),
        ("nm2ang", lambda: value_of("getDistanceValue_", "angstroms") / value_of("getDistanceValue_", "nanometers"), "Angstrom per nm"),
        ("ev2hrt", lambda: value_of("getEnergyValue_", "hartrees") / value_of("getEnergyValue_", "electron_volts"), "hartree per eV"),
        ("kcal2kj", lambda: value_of("getEnergyValue_", "kilojoules") / value_of("getEnergyValue_", "kilocalories"), "kJ per kcal (extrinsic table)"),
        ("kcal2kj", lambda: value_of("getMolarEnergyValue_", "kilojoules_per_mole") / value_of("getMolarEnergyValue_", "kilocalories_per_mole"), "kJ per kcal (molar table)"),
        ("hrt2ev", lambda: value_of("getMolarEnergyValue_", "electron_volts_per_mole") / value_of("getMolarEnergyValue_", "hartrees_per_mole"), "eV per hartree (molar table)"),
    ]
    for cname, fn, what in cross:
        if cname not in conv:
            continue
        tv = fn()
        rep.check(sig4(conv[cname][0], tv), "R20.2", "cross|conv::%s|%s|%.9g" % (cname, what, float(conv[cname][0])),
                  "conv::%s = %.10g, UnitConverter %s = %.10g" % (cname, float(conv[cname][0]), what, float(tv)),
                  "conv::%s = %.10g but UnitConverter encodes %s as %.10g: the two places disagree in the first 4 "
                  "significant digits" % (cname, float(conv[cname][0]), what, float(tv)), conv[cname][1], sample=True)
    # energy tables: extrinsic and molar must carry the same ratios; charge vs joules per eV
    for a, b in (("kilocalories", "kilocalories_per_mole"), ("kilojoules", "kilojoules_per_mole"), ("joules", "joules_per_mole"),
                 ("hartrees", "hartrees_per_mole"), ("electron_volts", "electron_volts_per_mole")):
        va, vb = value_of("getEnergyValue_", a), value_of("getMolarEnergyValue_", b)
        rep.check(sig4(va, vb), "R20.2", "cross|energy|%s" % a, "%.10g == %.10g" % (float(va), float(vb)),
                  "EnergyUnit::%s = %.10g but MolarEnergyUnit::%s = %.10g" % (a, float(va), b, float(vb)),
                  tables["getEnergyValue_"][0].loc(tables["getEnergyValue_"][1][a]))
    vc, vj = value_of("getChargeValue_", "coulombs"), value_of("getEnergyValue_", "joules")
    rep.check(sig4(vc, vj), "R20.2", "cross|e", "coulombs per e %.10g == joules per eV %.10g" % (float(vc), float(vj)),
              "elementary charge %.10g C disagrees with joules per eV %.10g" % (float(vc), float(vj)),
              tables["getChargeValue_"][0].loc())
    # CsgUnits
    want_units = {"distance_unit": "nanometers", "mass_unit": "atomic_mass_units", "time_unit": "picoseconds",
                  "charge_unit": "e", "energy_unit": "kilojoules_per_mole", "velocity_unit": "nanometers_per_picosecond",
                  "force_unit": "kilojoules_per_mole_nanometer"}
    rec = F.record("votca::csg::CsgUnits")
    got_units = {}
    for fld in rec["fields"]:
        init = unwrap(fld.get("init"))
        if init and init.get("dk") == "enumconst":
            got_units[fld["name"]] = init["qname"].split("::")[-1]
    for k, v in want_units.items():
        if k not in got_units:
            rep.broken("R20.2", "CsgUnits::%s not found or not an enumerator initialiser" % k)
            continue
        rep.check(got_units[k] == v, "R20.2", "csgunits|" + k, "%s = %s" % (k, v),
                  "CsgUnits::%s is %s, csg works in %s" % (k, got_units[k], v), "%s:%s" % (rec["file"], rec["line"]))

    # ---------------------------------------------------------------- R20.3
    E = T + "Elements::"

    def fill(name, field):
        """(key, value, location) of every entry the function stores into the table: read off the folded stores, so that assignments, loops over literal
        lists and counters all give the table they produce"""
        f = F.one(E + name)
        rep.analysed(f)
        fo_ = Fold(f).run()
        out = []
        for e_ in fo_.events:
            if e_["kind"] != "store":
                continue
            tn = unwrap(e_.get("target_node") or {})
            if not (tn.get("k") == "opcall" and tn.get("op") == "[]" and unwrap(tn["args"][0]).get("fname") == field):
                raise AnalysisBroken("%s: store to %s, which is not an entry of %s" % (name, e_["target"], field))
            if e_["guards"] or not e_.get("idx"):
                raise AnalysisBroken("%s: the entry %s is stored conditionally or with an unevaluated key" % (name, e_["target"]))
            key, val = e_["idx"][0], e_["value"]
            while str(getattr(val, "func", "")) in ("toint", "todouble") and len(val.args) == 1:
                val = val.args[0]              # a numeric conversion of a literal is that literal
            mk = re.match(r'^ctor\("([^"]*)"', str(key)) or re.match(r'^"([^"]*)"$', str(key))
            k_ = mk.group(1) if mk else (int(key) if getattr(key, "is_Integer", False) else None)
            mv = re.match(r'^ctor\("([^"]*)"', str(val)) or re.match(r'^"([^"]*)"$', str(val))
            v_ = mv.group(1) if mv else (int(val) if getattr(val, "is_Integer", False) else float(val) if getattr(val, "is_number", False) else None)
            if k_ is None or v_ is None:
                raise AnalysisBroken("%s: key/value of %s do not fold to literals (%s -> %s)" % (name, e_["target"], str(key)[:40], str(val)[:40]))
            out.append((k_, v_, f.loc(e_["node"])))
        if not out:
            raise AnalysisBroken("%s: no entries of %s found" % (name, field))
        return f, out

    def keyval(n):
        n = unwrap(n)
        while n.get("k") in ("construct", "cast", "stdinitlist") :
            n = unwrap(n["args"][0] if n["k"] == "construct" else n["sub"])
        if n["k"] == "str":
            return n["v"]
        v = lit_value(n)
        if v is None:
            raise AnalysisBroken("element table key/value is not a literal: " + show(n))
        return v

    f_mass, mass = fill("FillMass", "Mass_")
    f_num, num = fill("FillEleNum", "EleNum_")
    f_name, name = fill("FillEleName", "EleName_")
    f_crg, crg = fill("FillNucCrg", "NucCrg_")
    f_short, short = fill("FillEleShort", "EleShort_")
    f_full, full = fill("FillEleFull", "EleFull_")
    for label, lst, fl in (("Mass_", mass, 60), ("EleNum_", num, 60), ("EleName_", name, 60), ("NucCrg_", crg, 60),
                           ("EleShort_", short, 60), ("EleFull_", full, 60)):
        rep.floor("R20.3", len(lst), fl, label + " entries")
        keys = [k for k, _, _ in lst]
        dup = {k for k in keys if keys.count(k) > 1}
        for k in dup:
            vals = {v for kk, v, _ in lst if kk == k}
            rep.check(len(vals) == 1, "R20.3", "dupkey|%s|%s" % (label, k), "duplicate key with equal value",
                      "%s assigns key %s twice with different values %s (the later silently wins)" % (label, k, sorted(map(str, vals))),
                      [l for kk, _, l in lst if kk == k][-1])
    numd = {k: int(v) for k, v, _ in num}
    named = {int(k): v for k, v, _ in name}
    for sym, z, loc in num:
        z = int(z)
        rep.check(named.get(z) == sym, "R20.3", "num-name|" + sym, "EleName_[%d] == %s" % (z, sym),
                  "EleNum_[%s] = %d but EleName_[%d] = %r: number<->symbol tables are not inverse" % (sym, z, z, named.get(z)), loc)
        if sym in PERIODIC:
            rep.check(PERIODIC.index(sym) + 1 == z, "R20.3", "num-periodic|" + sym, "Z(%s) = %d" % (sym, z),
                      "EleNum_[%s] = %d, the atomic number of %s is %d" % (sym, z, sym, PERIODIC.index(sym) + 1), loc)
    for z, sym, loc in name:
        rep.check(numd.get(sym) == int(z), "R20.3", "name-num|%d" % int(z), "EleNum_[%s] == %d" % (sym, int(z)),
                  "EleName_[%d] = %s but EleNum_[%s] = %r" % (int(z), sym, sym, numd.get(sym)), loc)
    zs = [z for _, z, _ in num]
    rep.check(len(set(zs)) == len(zs), "R20.3", "num-injective", "atomic numbers pairwise distinct",
              "two symbols share one atomic number in EleNum_", f_num.loc())
    for sym, q, loc in crg:
        if sym in numd:
            rep.check(q == numd[sym], "R20.3", "nuccrg|" + sym, "NucCrg_ == EleNum_ == %d" % numd[sym],
                      "NucCrg_[%s] = %s but the atomic number is %d" % (sym, float(q), numd[sym]), loc)
        else:
            rep.violation("R20.3", "nuccrg|" + sym, "NucCrg_ has %s which EleNum_ lacks" % sym, loc)
    shortd = {k: v for k, v, _ in short}
    fulld = {k: v for k, v, _ in full}
    for fn, sym, loc in short:
        rep.check(fulld.get(sym) == fn, "R20.3", "short-full|" + fn, "EleFull_[%s] == %s" % (sym, fn),
                  "EleShort_[%s] = %s but EleFull_[%s] = %r" % (fn, sym, sym, fulld.get(sym)), loc)
    for sym, fn, loc in full:
        rep.check(shortd.get(fn) == sym, "R20.3", "full-short|" + sym, "EleShort_[%s] == %s" % (fn, sym),
                  "EleFull_[%s] = %s but EleShort_[%s] = %r" % (sym, fn, fn, shortd.get(fn)), loc)
        rep.check(sym in numd, "R20.3", "full-num|" + sym, "symbol has an atomic number",
                  "EleFull_ knows %s but EleNum_ does not" % sym, loc)
    for sym, m, loc in mass:
        if sym not in STD_WEIGHT:
            rep.broken("R20.3", "no standard atomic weight for %s in the rule table" % sym)
            continue
        rep.check(sig4(m, STD_WEIGHT[sym]) or abs(float(m) - STD_WEIGHT[sym]) / STD_WEIGHT[sym] < 5e-4, "R20.3", "mass|" + sym,
                  "mass %.6g vs standard atomic weight %.6g" % (float(m), STD_WEIGHT[sym]),
                  "Mass_[%s] = %.6g, the standard atomic weight is %.6g" % (sym, float(m), STD_WEIGHT[sym]), loc,
                  sample=(sym in ("H", "Au")))
        rep.check(sym in numd, "R20.3", "mass-num|" + sym, "symbol has an atomic number",
                  "Mass_ knows %s but EleNum_ does not" % sym, loc)
    # ---------------------------------------------------------------- R20.4 unit-aware accessor
    from vsa.alg import Fold, S
    rep.rule("R20.4", "Elements::getCovRad(name, unit): the value returned for unit u is the tabulated Angstrom radius times "
                      "the Angstrom->u factor (ang: 1, nm: conv::ang2nm, bohr: conv::ang2bohr), so results in different units are "
                      "mutually consistent")
    fc = F.one(E + "getCovRad")
    rep.analysed(fc)
    fo = Fold(fc).run()
    unit_factor = {"ang": Fr(1), "nm": CONV_REF["ang2nm"], "bohr": CONV_REF["ang2bohr"]}
    csub = {S("conv::" + k): sympy_rat(v[0]) for k, v in conv.items()}
    import sympy as sp
    from vsa.cases import executes as _ex4, decide as _dc4, resolve_ite as _rs4
    c4 = getattr(fo, "conds", {})
    upar = fc.j["params"][1]["name"]

    def unit_orc(lf):
        if isinstance(lf, tuple) and len(lf) == 3 and lf[0] in ("==", "!="):
            a_, b_ = str(lf[1]), str(lf[2])
            for x_, y_ in ((a_, b_), (b_, a_)):
                if x_ == upar and re.match(r'^"\w+"$', y_):
                    return ("UNIT=" + y_.strip('"'), lf[0] == "==")
        if str(getattr(lf, "func", "")) == "compare" and len(lf.args) == 2 and str(lf.args[0]) == upar and re.match(r'^"\w+"$', str(lf.args[1])):
            return ("UNIT=" + str(lf.args[1]).strip('"'), False)         # compare() is non-zero (true) when the strings differ
        if str(getattr(lf, "func", "")).startswith("filled_") or str(lf).startswith("filled_"):
            return ("FILLED", True)
        return None
    rets4 = [e for e in fo.events if e["kind"] == "return"]
    thr4 = [e for e in fo.events if e["kind"] == "throw"]
    for u in list(unit_factor) + ["other"]:
        A = {"UNIT=" + k_: k_ == u for k_ in unit_factor}
        A["FILLED"] = True
        live = [e for e in rets4 if _ex4(e, None, A, unit_orc, c4)]
        und = [e for e in rets4 + thr4 if _ex4(e, None, A, unit_orc, c4) is None]
        if und:
            rep.broken("R20.4", "getCovRad: cannot decide which exit is taken for unit '%s'" % u)
            continue
        if u == "other":
            rep.check(not live and any(_ex4(e, None, A, unit_orc, c4) for e in thr4), "R20.4", "covrad|unknown-unit", "an unknown unit is an error",
                      "Elements::getCovRad returns a value for a unit that is none of ang/nm/bohr", fc.loc())
            continue
        if len(live) != 1:
            rep.broken("R20.4", "getCovRad: branch for unit '%s' not recognised" % u)
            continue
        val = live[0]["value"]
        val = _rs4(val, lambda cs: _dc4(c4[cs], None, A, unit_orc, c4) if cs in c4 else None) if hasattr(val, "args") else val
        tab = [a_ for a_ in sp.preorder_traversal(val) if "CovRad_" in str(a_) and not any("CovRad_" in str(x) for x in getattr(a_, "args", ()))] if hasattr(val, "args") else []
        tab = list(dict.fromkeys(tab))
        ok, fac = False, None
        if len(tab) == 1:
            q = sp.cancel(val / tab[0])
            if not q.has(tab[0]) and not (q.free_symbols - set(csub)):
                fac = float(q.subs(csub))
                ok = sig4(fac, unit_factor[u])
        rep.check(ok, "R20.4", "covrad|" + u, "getCovRad(.., \"%s\") = table x %s" % (u, fac),
                  "Elements::getCovRad returns the tabulated Angstrom radius times %s for unit '%s'; the Angstrom->%s factor is %.8g "
                  "(radii in different units are inconsistent)" % (fac, u, u, float(unit_factor[u])), fc.loc(live[0]["node"]), sample=True)
    # ---------------------------------------------------------------- R20.5 file units applied exactly once
    rep.rule("R20.5", "LAMMPS dump reader (real units -> VOTCA units): x/y/z and xu/yu/zu and velocities are scaled by conv::ang2nm exactly once, "
                      "scaled coordinates xs/ys/zs by the matching diagonal box element (which ReadBox already converted with ang2nm) and by "
                      "nothing else, forces by kcal2kj/ang2nm; ReadBox scales the box by ang2nm once")
    lunit = front.repo("csg/src/libcsg/modules/io/lammpsdumpreader.cc")
    FL = Facts(front.export([lunit]))
    rep.units = list(rep.units) + [lunit]
    LR = "votca::csg::LAMMPSDumpReader::"
    fra = FL.one(LR + "ReadAtoms")
    rep.analysed(fra)
    import sympy as sp
    fol = Fold(fra).run()
    a2n, k2j = S("conv::ang2nm"), S("conv::kcal2kj")
    want = {}
    for i_, ax in enumerate("xyz"):
        for nm in (ax, ax + "u"):
            want[nm] = ("Pos", ax, lambda raw, i_=i_: raw * a2n)
        want[ax + "s"] = ("Pos", ax, lambda raw, i_=i_: raw * S("getBox(top)(%d,%d)" % (i_, i_)))
        want["v" + ax] = ("Vel", ax, lambda raw: raw * a2n)
        want["f" + ax] = ("F", ax, lambda raw: raw * k2j / a2n)
    from vsa.cases import executes

    class OneHot(dict):
        """exactly the column `col` is the current one"""
        def __init__(self, col):
            dict.__init__(self, {"_": True})          # non-empty: `atoms or {}` keeps this object
            self.col = col

        def __contains__(self, k):
            return isinstance(k, str) and k.startswith("COL=")

        def __getitem__(self, k):
            return k == "COL=" + self.col

        def get(self, k, d=None):
            return self[k] if k in self else d

    def col_oracle(lf):
        if isinstance(lf, tuple) and len(lf) == 3 and lf[0] in ("==", "!="):
            lit = [x for x in lf[1:] if re.match(r'^"[^"]*"$', str(x))]
            if len(lit) == 1:
                return ("COL=" + str(lit[0]).strip('"'), lf[0] == "==")
        return None
    cstores = [(e, re.match(r"^\w+->(Pos|Vel|F)\(\)\.([xyz])\(\)$", e["target"])) for e in fol.events if e["kind"] == "store"]
    cstores = [(e, m_) for e, m_ in cstores if m_ and not isinstance(e["value"], (tuple, sp.Matrix))]
    conds_l = getattr(fol, "conds", {})
    for col in want:
        # a store handles the column unless its path condition is false when this column (and no other) is the current one
        hit = [(e, m_) for e, m_ in cstores if executes(e, None, OneHot(col), col_oracle, conds_l) is not False]
        if not hit:
            rep.broken("R20.5", "LAMMPS dump reader: no store for column '%s' recognised" % col)
            continue
        q, ax, fn = want[col]
        for e, m_ in hit:
            val = e["value"]
            raws = [a for a in val.atoms(sp.Function) if str(a.func) in ("stod", "lexical_cast", "stof", "atof")]
            # the box symbol's parameter name may differ: normalise getBox(<anything>)
            norm = {x: S(re.sub(r"^getBox\([^)]*\)", "getBox(top)", str(x))) for x in val.free_symbols if str(x).startswith("getBox(")}
            val = val.xreplace(norm)
            ok = len(hit) == 1 and len(raws) == 1 and m_.group(1) == q and m_.group(2) == ax and sp.simplify(val - fn(raws[0])) == 0
            rep.check(ok, "R20.5", "lammps-dump|" + col, "column %s -> %s.%s = raw * %s" % (col, q, ax, sp.simplify(fn(S("raw")) / S("raw"))),
                      "LAMMPSDumpReader::ReadAtoms stores column '%s' into %s.%s as %s; required %s: the length conversion is applied %s, so the value is not in the "
                      "same unit as the box and the other coordinate styles" % (col, m_.group(1), m_.group(2), str(val)[:120], str(fn(S("raw"))),
                                                                              "twice" if (col.endswith("s") and val.has(a2n)) else "inconsistently"), fra.loc(e["node"]), sample=(col in ("x", "xs", "fx")))
    frb = FL.one(LR + "ReadBox")
    rep.analysed(frb)
    fob = Fold(frb, record_calls=r"Topology::setBox$").run()
    sb = [e for e in fob.events if e["kind"] == "call" and e["args"] and isinstance(e["args"][0], sp.Matrix) and e["args"][0].shape == (3, 3)]
    okb = len(sb) == 1
    if okb:
        M = sb[0]["args"][0]
        for i_ in range(3):
            for j_ in range(3):
                ent = M[i_, j_]
                if i_ != j_:
                    okb = okb and ent == 0
                else:
                    q_ = sp.cancel(ent / a2n)
                    okb = okb and ent != 0 and not q_.has(a2n) and not q_.has(k2j)
    rep.check(okb, "R20.5", "lammps-dump|box", "box = (hi - lo) * ang2nm on the diagonal", "LAMMPSDumpReader::ReadBox does not scale the box bounds by conv::ang2nm exactly once (%s)" % (
        str(sb[0]["args"][0])[:160] if sb else "no setBox(matrix) call"), frb.loc(), sample=True)
    rep.assumptions += ["decimal literals are read as exact decimals; agreement 'to four significant digits' is "
                        "|value-reference| <= half a unit of the 4th significant digit of the reference",
                        "reference values: CODATA 2018 (e, a0, u, Eh, kB, hbar, N_A), thermochemical calorie 4.184 J"]
