"""C03 - neighbour searches: kernel guard chains (PATH), distance expression (ALG), sibling agreement of the four
searches and the two grids (SIB), cell index range (RANGE), grid formulas (ALG)."""
import re
import sympy as sp
from sympy import Matrix
from vsa import front
from vsa.facts import Facts, unwrap, show, walk, lit_value
from vsa.front import AnalysisBroken
from vsa.alg import Fold, S, F as Fn, equal, is_zero, vec_atoms, mat_atoms, sqrt
from vsa.cfg import CFG
from vsa.interval import Range, fmt

LEVEL = "other"
C = "votca::csg::"
KERNELS = [(C + "NBList::Generate", "AddPair", "FindPair", 2, 3),
           (C + "NBListGrid::TestCell", "AddPair", "FindPair", 2, None),
           (C + "NBList_3Body::Generate", "AddTriple", "FindTriple", 3, 4),
           (C + "NBListGrid_3Body::TestBead", "AddTriple", "FindTriple", 3, None)]


def local_defs(f):
    """unique definitions of locals (decl init or single assignment)"""
    defs = {}
    for n in f.walk():
        if n.get("k") == "decl":
            for d in n["decls"]:
                if d.get("init") is not None:
                    defs.setdefault(d["decl"], []).append(d["init"])
        elif n.get("k") in ("assign",) and n["op"] == "=" and unwrap(n["lhs"]).get("k") == "ref" and "decl" in unwrap(n["lhs"]):
            defs.setdefault(unwrap(n["lhs"])["decl"], []).append(n["rhs"])
        elif n.get("k") == "opcall" and n.get("op") == "=" and unwrap(n["args"][0]).get("k") == "ref" and "decl" in unwrap(n["args"][0]):
            defs.setdefault(unwrap(n["args"][0])["decl"], []).append(n["args"][1])
    return {k: v[0] for k, v in defs.items() if len(v) == 1}


def resolve(f, defs, n, depth=0):
    """follow unique definitions of plain local references (for rendering bead expressions)"""
    n = unwrap(n)
    while n.get("k") == "ref" and n.get("decl") in defs and depth < 6:
        t = (f.decls.get(n["decl"]) or {}).get("type", "")
        if "iterator" in t:
            break
        n = unwrap(defs[n["decl"]])
        depth += 1
    while n.get("k") in ("construct",) and len(n.get("args", [])) == 1:
        n = unwrap(n["args"][0])
    return n


def run(rep, tier):
    rep.explanation = ("PATH: for each of the four search kernels the insertion (AddPair/AddTriple) is reachable only through "
                       "the true edge of every cutoff comparison, the false edge of every exclusion test (when exclusions are "
                       "on), the true edge of the match callback and the false edge of the duplicate lookup, in that dominance "
                       "order, all on the same beads; ALG: every compared distance is |BCShortestConnection(pos,pos)| of two "
                       "beads of the tuple and the stored vectors are those vectors; SIB: the four kernels and the two grid "
                       "set-ups agree; RANGE: cell indices are proved in [0,N-1]; grid formulas are compared in canonical form.")
    rep.rule("R3.1", "every distance compared with cutoff_ is |top.BCShortestConnection(pos(X), pos(Y))| of two distinct beads of the candidate tuple, compared with strict <")
    rep.rule("R3.2", "guard chain: cutoff test(s) -> exclusion test(s) false (when do_exclusions_) -> match callback true -> FindPair/FindTriple null -> creator on the same beads with the tested vectors; each dominating the next")
    rep.rule("R3.3", "grid searches: a bead is tested against the cells before it is inserted (one-list variant); the insertion loop precedes the test loop (two-list variant)")
    rep.rule("R3.4", "self pairs are skipped: 3-body kernels test all three bead identities; the simple one-list variants start the inner iterator one past the outer")
    rep.rule("R3.5", "grid set-up: cells per direction = Index(max(|height/cutoff|, 1)) with the box heights a.(bxc)/|bxc|...; scaled normals n/(a.n)*N; neighbour offsets -1..1 shrinking to 0 for N<3 (upper) and N<2 (lower); pair grid and 3-body grid agree")
    rep.rule("R3.6", "getCell: every cell index lies in [0, N-1] for every position (interval analysis with symbolic N)")
    units = [front.repo("csg/src/libcsg/" + u) for u in ("nblist.cc", "nblistgrid.cc", "nblist_3body.cc", "nblistgrid_3body.cc", "exclusionlist.cc")]
    F = Facts(front.export(units))
    rep.units = units
    for qn, add, find, arity, _ in KERNELS:
        fs = F.find(qn)
        if not fs:
            rep.broken("R3.2", "kernel %s vanished" % qn)
            continue
        # the 3-list / 2-list kernel is the overload with the most parameters that contains the add site
        fs = [f for f in fs if any(n.get("k") == "mcall" and (n.get("callee") or "").endswith("::" + add) for n in f.walk())]
        if len(fs) != 1:
            rep.broken("R3.2", "expected one definition of %s containing %s, found %d" % (qn, add, len(fs)))
            continue
        rep.analysed(fs[0])
        check_kernel(rep, fs[0], add, find, arity)
    check_grid_order(rep, F)
    check_grid_setup(rep, F)
    check_getcell(rep, F)
    check_simple_iterators(rep, F)
    check_is_excluded(rep, F)
    rep.assumptions += ["completeness of the cell scan (every pair within the cutoff lies in neighbouring cells) and duplicate-freeness for all cell counts are geometric facts not decided here",
                        "exclusion-list construction from bonded interactions (CreateExclusions) is not decided"]


def exclusion_wrapper(f, call):
    """a call of a file-local helper that returns  [flag &&] IsExcluded(a, b)  of its parameters: {'args': [node a, node b], 'switch': flag is do_exclusions_}"""
    from vsa.cases import decision_table
    facts = getattr(f, "facts", None)
    if facts is None:
        return None
    gs = [h for h in facts.find(call["callee"]) if h.j.get("internal") and h.j.get("body") and len(h.j["params"]) == len(call.get("args", []))
          and (h.file == f.file or h.unit == f.unit)]
    if len(gs) != 1 or not any(x.get("k") == "mcall" and (x.get("callee") or "").endswith("ExclusionList::IsExcluded") for x in gs[0].walk()):
        return None
    h = gs[0]
    fo = Fold(h, record_calls=r"ExclusionList::IsExcluded$").run()
    ex = [e for e in fo.events if e["kind"] == "call"]
    if len(ex) < 1 or len(fo.returns) < 1:
        return None
    pnames = [p_["name"] for p_ in h.j["params"]]
    pairs_ = []
    for e_ in ex:
        a_, b_ = str(e_["args"][0]), str(e_["args"][1])
        if a_ not in pnames or b_ not in pnames:
            return None
        pairs_.append((a_, b_))
    # truth table of the returned value over (flag parameters, IsExcluded result)
    flags = [p_["name"] for p_ in h.j["params"] if (p_.get("type") or "").replace("const ", "").strip() == "bool"]
    val = fo.returns[0][0] if len(fo.returns) == 1 else None
    if val is None:
        return None
    import itertools
    from vsa.cases import decide

    def orc(lf):
        s_ = str(lf)
        if s_.startswith("IsExcluded("):
            # one predicate per tested pair: the helper may return the disjunction over several pairs
            for k_, (a1, b1) in enumerate(pairs_):
                if re.search(r"\b%s\b.*\b%s\b" % (re.escape(a1), re.escape(b1)), s_):
                    return ("excl%d" % k_, True)
            return ("excl0", True)
        if s_ in flags:
            return ("flag:" + s_, True)
        return None
    names = ["excl%d" % k_ for k_ in range(len(pairs_))] + ["flag:" + x for x in flags]
    ok_flag = None
    for vals in itertools.product((True, False), repeat=len(names)):
        A = dict(zip(names, vals))
        r = decide(val, None, A, orc, getattr(fo, "conds", {}))
        if r is None:
            return None
        want = any(A["excl%d" % k_] for k_ in range(len(pairs_))) and all(A[k_] for k_ in names[len(pairs_):])
        if r != want:
            return None
    argn = {pn: an for pn, an in zip(pnames, call["args"])}
    sw = bool(flags) and all(unwrap(argn[x]).get("k") == "member" and unwrap(argn[x]).get("fname") == "do_exclusions_" for x in flags)
    return {"args": [argn[pairs_[0][0]], argn[pairs_[0][1]]], "pairs": [[argn[a1], argn[b1]] for a1, b1 in pairs_], "switch": sw}


def check_kernel(rep, f, add, find, arity):
    name = f.qname.split("votca::csg::")[-1]
    g = CFG(f)
    defs = local_defs(f)
    adds = [n for n in f.walk() if n.get("k") == "mcall" and (n.get("callee") or "").endswith("::" + add)]
    if len(adds) != 1:
        rep.broken("R3.2", "%s: expected one %s site" % (name, add))
        return
    A = adds[0]
    creator = unwrap(A["args"][0])
    while creator.get("k") in ("construct", "cast") and creator.get("args"):
        creator = unwrap(creator["args"][0])
    cargs = creator.get("args", [])
    if creator.get("k") == "opcall" and creator.get("op") == "()":
        cargs = creator["args"][1:]
    elif creator.get("k") == "call" and creator.get("callee_expr") is not None:
        cargs = creator["args"]
    beads = [show(x) for x in cargs[:arity]]
    vecs = [x for x in cargs[arity:]]
    if len(beads) != arity or len(set(beads)) != arity:
        rep.broken("R3.2", "%s: creator arguments not recognised: %s" % (name, [show(x) for x in cargs]))
        return
    assume = lambda c: True if (c.get("k") == "member" and c.get("fname") == "do_exclusions_") else None
    # --- cutoff comparisons
    cmps = [n for n in f.walk() if n.get("k") == "binop" and n["op"] in ("<", "<=", ">", ">=") and
            any(unwrap(s_).get("k") == "member" and unwrap(s_).get("fname") == "cutoff_" for s_ in (n["lhs"], n["rhs"]))]
    want_cmp = 1 if arity == 2 else 2
    rep.floor("R3.1", len(cmps), want_cmp, "cutoff comparisons in " + name)
    fold = Fold(f)
    bc_of = {}     # show(vector local) -> (beadX, beadY)

    def bead_of_pos(n):
        """bead expression whose getPos() is n (through local definitions)"""
        n = resolve(f, defs, n)
        if n.get("k") == "mcall" and (n.get("callee") or "").endswith("::getPos"):
            o = unwrap(n["obj"])
            return show(o)
        return None

    def bc_pair(n):
        n = resolve(f, defs, n)
        if n.get("k") == "mcall" and n.get("callee") == C + "Topology::BCShortestConnection" and show(n["obj"]) == "top":
            return bead_of_pos(n["args"][0]), bead_of_pos(n["args"][1])
        return None
    tested_pairs = []
    for c in cmps:
        lhs, rhs = unwrap(c["lhs"]), unwrap(c["rhs"])
        strict = c["op"] == "<" and unwrap(rhs).get("fname") == "cutoff_"
        d = resolve(f, defs, lhs)
        pair = None
        if d.get("k") == "mcall" and (d.get("callee") or "").endswith("::norm"):
            pair = bc_pair(d["obj"])
        key = "%s|cutoff|%s" % (name, show(lhs))
        okp = pair is not None and None not in pair and set(pair) <= set(beads) and pair[0] != pair[1]
        rep.check(strict and okp, "R3.1", key, "%s = |BC(pos %s, pos %s)| < cutoff_" % (show(lhs), *(pair or ("?", "?"))),
                  "%s: the value compared with the cutoff is %s %s cutoff_ with %s = %s; it must be the norm of "
                  "top.BCShortestConnection of two beads of the tuple %s, compared with strict '<'" % (
                      name, show(lhs), c["op"], show(lhs), show(d), beads), f.loc(c), sample=True)
        if okp:
            tested_pairs.append(pair)
        req = g.edge_required(c["id"], True, A["id"], assume)
        rep.check(req is True, "R3.2", "%s|cutoff-edge|%s" % (name, show(lhs)), "insertion only on the true edge of %s" % show(c),
                  "%s: %s is reachable without passing %s == true" % (name, add, show(c)), f.loc(c))
    # --- "exactly the pairs below the cutoff": no further condition on the distance / connection vector gates the insertion
    dist_names = {show(unwrap(c["lhs"])) for c in cmps} | {show(unwrap(c["rhs"])) for c in cmps}
    dist_names = {x for x in dist_names if re.match(r"^[A-Za-z_]\w*$", x) and not x.endswith("cutoff_")}
    for c in cmps:
        d_ = resolve(f, defs, unwrap(c["lhs"]))
        if d_.get("k") == "mcall" and (d_.get("callee") or "").endswith("::norm") and re.match(r"^[A-Za-z_]\w*$", show(unwrap(d_["obj"]))):
            dist_names.add(show(unwrap(d_["obj"])))
    cmp_ids = {c["id"] for c in cmps}
    extra = []
    for n in f.walk():
        if n.get("k") not in ("binop", "mcall") or n["id"] in cmp_ids:
            continue
        if n.get("k") == "binop" and n.get("op") not in ("<", "<=", ">", ">=", "==", "!="):
            continue
        # a comparison on the distance, or a predicate called on the distance/vector itself (r.isZero()); the match callback and the
        # creator only receive them as arguments and are handled by their own rules
        toks = set(re.findall(r"[A-Za-z_]\w*", show(n) if n["k"] == "binop" else show(n.get("obj") or {})))
        if not (toks & dist_names) or not g.cond_blocks(n["id"]):
            continue
        if any(g.edge_required(n["id"], v, A["id"], assume) is True for v in (True, False)):
            extra.append(n)
    rep.check(not extra, "R3.1", name + "|no-extra-distance-filter", "only the cutoff comparison tests the distance",
              "%s: the insertion is additionally gated by %s on the distance/connection vector: pairs below the cutoff that fail it are not reported (e.g. two beads on the "
              "same point or exactly one box vector apart have distance 0)" % (name, ", ".join("'%s'" % show(x) for x in extra)), f.loc(extra[0]) if extra else f.loc())
    centre = beads[0]
    want_pairs = {(beads[0], beads[1])} if arity == 2 else {(beads[0], beads[1]), (beads[0], beads[2])}
    got_pairs = {tuple(p) for p in tested_pairs}
    rep.check(got_pairs == want_pairs or (arity == 2 and {tuple(reversed(p)) for p in got_pairs} == want_pairs), "R3.1", name + "|tested-pairs",
              "cutoff applied to %s" % sorted(want_pairs), "%s applies the cutoff to bead pairs %s, required %s" % (name, sorted(got_pairs), sorted(want_pairs)), f.loc())
    # --- stored vectors are the tested vectors, in creator order
    want_vec_pairs = [(beads[0], beads[1])] if arity == 2 else [(beads[0], beads[1]), (beads[0], beads[2]), (beads[1], beads[2])]
    gotv = [bc_pair(v) for v in vecs]
    rep.check(gotv == want_vec_pairs, "R3.2", name + "|stored-vectors", "creator receives BC vectors of %s" % want_vec_pairs,
              "%s stores connection vectors of bead pairs %s with the tuple %s; required %s (direction matters)" % (name, gotv, beads, want_vec_pairs), f.loc(A), sample=True)
    # --- exclusion tests
    excl = [n for n in f.walk() if n.get("k") == "mcall" and (n.get("callee") or "").endswith("ExclusionList::IsExcluded")]
    wrapped = {}
    for n in f.walk():
        if n.get("k") == "call" and n.get("callee"):
            w = exclusion_wrapper(f, n)
            if w is not None:
                wrapped[n["id"]] = w
                for pr_ in w.get("pairs", [w["args"]]):
                    excl.append({"id": n["id"], "args": pr_, "k": "call", "line": n.get("line"), "wrapper": True})
    want_ex = 1 if arity == 2 else 3
    rep.floor("R3.2", len(excl), want_ex, "exclusion tests in " + name)
    ex_pairs = set()
    for e in excl:
        pr = tuple(show(a) for a in e["args"])
        ex_pairs.add(frozenset(pr))
        req = g.edge_required(e["id"], False, A["id"], assume)
        rep.check(req is True, "R3.2", "%s|exclusion-edge|%s" % (name, ",".join(pr)), "with exclusions on, insertion only if IsExcluded(%s) is false" % ",".join(pr),
                  "%s: with do_exclusions_ set, %s is reachable although IsExcluded(%s) returned true (or the test is bypassed)" % (name, add, ",".join(pr)), f.loc(e), sample=True)
        # the test is only skipped when do_exclusions_ is false
        sw = [x for x in f.walk() if x.get("k") == "member" and x.get("fname") == "do_exclusions_"]
        guards = [x for x in sw if g.edge_required(x["id"], True, e["id"], None) is True]
        if e.get("wrapper") and wrapped[e["id"]]["switch"]:
            guards = [True]          # the helper itself evaluates IsExcluded only when its flag argument (do_exclusions_) is set
        rep.check(bool(guards), "R3.2", "%s|exclusion-switch|%s" % (name, ",".join(pr)), "exclusion test guarded by do_exclusions_",
                  "%s: the exclusion test is not controlled by do_exclusions_" % name, f.loc(e))
    want_exp = {frozenset(p) for p in ([(beads[0], beads[1])] if arity == 2 else [(beads[0], beads[1]), (beads[0], beads[2]), (beads[1], beads[2])])}
    rep.check(ex_pairs == want_exp, "R3.2", name + "|exclusion-pairs", "exclusions tested for %s" % sorted(map(sorted, want_exp)),
              "%s tests exclusions for %s, required %s" % (name, sorted(map(sorted, ex_pairs)), sorted(map(sorted, want_exp))), f.loc())
    # --- match callback
    match = [n for n in f.walk() if n.get("k") in ("call", "opcall") and "match_function_" in show(n.get("callee_expr") or (n["args"][0] if n.get("k") == "opcall" else None) or {})]
    match = [m for m in match if m.get("k") == "call" or m.get("op") == "()"]
    if len(match) != 1:
        rep.violation("R3.2", name + "|match-once", "%s calls the match callback %d times per candidate tuple (must be exactly once)" % (name, len(match)), f.loc())
        return
    M = match[0]
    margs = M["args"] if M["k"] == "call" else M["args"][1:]
    rep.check([show(x) for x in margs[:arity]] == beads, "R3.2", name + "|match-beads", "callback on %s" % beads,
              "%s calls the match callback on %s but inserts %s" % (name, [show(x) for x in margs[:arity]], beads), f.loc(M))
    rep.check(g.edge_required(M["id"], True, A["id"], assume) is True, "R3.2", name + "|match-edge", "insertion only when the callback returns true",
              "%s: %s is reachable although the match callback returned false" % (name, add), f.loc(M), sample=True)
    # --- duplicate lookup
    finds = [n for n in f.walk() if n.get("k") == "mcall" and (n.get("callee") or "").endswith("::" + find)]
    if not finds:
        rep.violation("R3.2", name + "|find-edge", "%s inserts without looking the tuple up first (%s is never called): tuples found through "
                      "several cells/passes are stored more than once" % (name, find), f.loc(A))
    for fd in finds:
        rep.check([show(x) for x in fd["args"]] == beads, "R3.2", name + "|find-beads", "%s on %s" % (find, beads),
                  "%s looks up %s but inserts %s" % (name, [show(x) for x in fd["args"]], beads), f.loc(fd))
        rep.check(g.edge_required(fd["id"], False, A["id"], assume) is True, "R3.2", name + "|find-edge", "insertion only when the tuple is not yet stored",
                  "%s: %s is reachable although %s found the tuple (duplicates)" % (name, add, find), f.loc(fd), sample=True)
    # --- order by dominance: cutoff -> exclusion -> match -> find -> add
    chain = [c["id"] for c in cmps] + [e["id"] for e in excl] + [M["id"]] + [fd["id"] for fd in finds] + [A["id"]]
    stages = [("cutoff", [c["id"] for c in cmps]), ("exclusion", [e["id"] for e in excl]), ("match", [M["id"]]), ("lookup", [fd["id"] for fd in finds]), ("insert", [A["id"]])]
    reach = g.reachable_blocks(assume=assume)
    ok, why = True, ""
    passv = {"cutoff": True, "exclusion": False, "match": True, "lookup": False}
    for (n1, ids1), (n2, ids2) in zip(stages, stages[1:]):
        for a in ids1:
            for b in ids2:
                # the earlier test precedes the later step on every path: by dominance, or because the later step is reachable only over
                # the passing edge of the earlier test (a conjunct of a materialised !(A && B) does not dominate, but is required)
                if a in g.where and b in g.where and not dominates_under(g, a, b, assume) and g.edge_required(a, passv[n1], b, assume) is not True:
                    ok, why = False, "%s test does not dominate the %s step" % (n1, n2)
    rep.check(ok, "R3.2", name + "|order", "cutoff -> exclusion -> callback -> lookup -> insert", "%s: %s (e.g. the callback sees excluded or out-of-range tuples, or is called after insertion)" % (name, why), f.loc(), sample=True)
    # --- self exclusion (3-body)
    if arity == 3:
        ids = []
        for x, y in ((0, 1), (0, 2), (1, 2)):
            cand = [n for n in f.walk() if (n.get("k") == "binop" and n["op"] == "==" and {show(n["lhs"]), show(n["rhs"])} == {beads[x], beads[y]})
                    or (n.get("k") == "opcall" and n.get("op") == "==" and {show(n["args"][0]), show(n["args"][1])} == {beads[x], beads[y]})]
            ok = any(g.edge_required(c["id"], False, A["id"], assume) is True for c in cand)
            rep.check(ok, "R3.4", "%s|distinct|%s,%s" % (name, beads[x], beads[y]), "tuples with %s == %s are skipped" % (beads[x], beads[y]),
                      "%s can insert a triple in which %s and %s are the same bead" % (name, beads[x], beads[y]), f.loc(), sample=(x == 0 and y == 1))


def dominates_under(g, a, b, assume):
    """node a dominates node b in the CFG pruned by assume: b unreachable if a's block is removed (or same block, earlier)"""
    (ba, ia), (bb, ib) = g.where[a], g.where[b]
    if ba == bb:
        return ia <= ib
    # remove all out-edges of ba
    removed = [(ba, i) for i in range(len(g.succs[ba]))]
    if ba == g.entry:
        return True
    return bb not in g.reachable_blocks(removed_edges=removed, assume=assume) or bb == ba


def check_grid_order(rep, F):
    for cls, tester in (("NBListGrid", "TestBead"), ("NBListGrid_3Body", "TestBead")):
        gens = F.find(C + cls + "::Generate")
        rep.floor("R3.3", len(gens), 2, cls + "::Generate overloads")
        for f in gens:
            rep.analysed(f)
            g = CFG(f)
            tests = [n for n in f.walk() if n.get("k") == "mcall" and n.get("callee") == C + cls + "::" + tester]
            pushes = [n for n in f.walk() if n.get("k") == "mcall" and (n.get("callee") or "").endswith("::push_back") and "beads" in show(n["obj"])]
            if not tests or not pushes:
                rep.broken("R3.3", "%s: test or insertion site not found" % f.qname)
                continue
            nl = len(f.j["params"]) - 1
            key = "%s::Generate/%d-lists" % (cls, nl)
            ok, why = True, ""
            for t in tests:
                for p in pushes:
                    bt, bp = g.where[t["id"]][0], g.where[p["id"]][0]
                    same_loop = innermost_loop(f, t) is not None and innermost_loop(f, t) is innermost_loop(f, p)
                    if same_loop:
                        # same iteration: test must come first, on the same element
                        first = g.dominates(t["id"], p["id"])
                        el_t = show(t["args"][-1])
                        el_p = show(p["args"][0])
                        if not first:
                            ok, why = False, "bead %s is inserted into its cell before it is tested (it would be paired with itself / counted twice)" % el_p
                        elif el_t != el_p:
                            ok, why = False, "tested element %s differs from inserted element %s" % (el_t, el_p)
                    else:
                        # different loops: all insertions of the other list precede the tests
                        if bp in g.reaches([bt]):
                            ok, why = False, "beads are still being inserted after testing has started: pairs with later beads are missed"
            rep.check(ok, "R3.3", key, "test-before-insert / insert-all-before-test", "%s: %s" % (f.qname, why), f.loc(), sample=True)
            ig = [n for n in f.walk() if n.get("k") == "mcall" and n.get("callee") == C + cls + "::InitializeGrid"]
            okg = len(ig) == 1 and show(ig[0]["args"][0]) == "top.getBox()" and all(g.dominates(ig[0]["id"], x["id"]) for x in tests + pushes)
            rep.check(okg, "R3.3", key + "|grid-first", "InitializeGrid(top.getBox()) before any cell access", "%s does not initialise the grid from the topology's box before using cells" % f.qname, f.loc())


def innermost_loop(f, n):
    for a in f.ancestors(n):
        if a.get("k") in ("for", "rangefor", "while"):
            return a
    return None


def check_grid_setup(rep, F):
    vals = {}
    for cls in ("NBListGrid", "NBListGrid_3Body"):
        f = F.one(C + cls + "::InitializeGrid")
        rep.analysed(f)
        box = mat_atoms(f.j["params"][0]["name"])

        def atom(fold, n, env, box=box):
            return NotImplemented
        fo = Fold(f).run({f.j["params"][0]["decl"]: box})
        a, b, c = box[:, 0], box[:, 1], box[:, 2]

        def height(x, y, z):
            nn = y.cross(z)
            return (x.T * nn)[0, 0] / sqrt((nn.T * nn)[0, 0])
        hs = {"a": height(a, b, c), "b": height(b, c, a), "c": height(c, a, b)}
        cut = S("cutoff_")
        stores = {}
        for e in fo.events:
            if e["kind"] == "store" and e.get("field"):
                stores.setdefault(e["field"].split("::")[-1], []).append(e)
        for ax in "abc":
            fld = "box_N%s_" % ax
            st = stores.get(fld, [])
            want = Fn("toint")(Fn("max")(sp.Abs(hs[ax] / cut), 1))
            ok = len(st) == 1 and eq_fn(st[0]["value"], want)
            rep.check(ok, "R3.5", "%s|cells|%s" % (cls, ax), "N_%s = Index(max(|height_%s/cutoff|, 1))" % (ax, ax),
                      "%s::InitializeGrid sizes direction %s as %s; the cell thickness must come from the box HEIGHT %s.(n) / cutoff "
                      "(cells thinner than the cutoff make the +-1 neighbour scan miss pairs in tilted boxes)" % (cls, ax, str(st[0]["value"])[:200] if st else "?", ax),
                      f.loc(st[0]["node"] if st else None), sample=(ax == "a"))
            # scaled normal (last store to norm_x_)
            ns = stores.get("norm_%s_" % ax, [])
            if ns and isinstance(ns[-1]["value"], Matrix):
                x, y, z = {"a": (a, b, c), "b": (b, c, a), "c": (c, a, b)}[ax]
                nn = y.cross(z)
                nhat = nn / sqrt((nn.T * nn)[0, 0])
                Nsym = st[0]["value"] if st else S("?")
                wantn = nhat / (x.T * nhat)[0, 0] * Nsym
                okn = all(eq_fn(ns[-1]["value"][k], wantn[k]) for k in range(3))
                rep.check(okn, "R3.5", "%s|normal|%s" % (cls, ax), "norm_%s = n/(%s.n) * N_%s" % (ax, ax, ax),
                          "%s::InitializeGrid scales the %s normal incorrectly (cell index = floor(r.norm) would not run 0..N)" % (cls, ax), f.loc(ns[-1]["node"]))
            else:
                rep.broken("R3.5", "%s: store to norm_%s_ not recognised" % (cls, ax))
        # neighbour offsets
        env = fo.exit_env()
        offs = {}
        for d, dd in f.decls.items():
            if dd.get("name") in ("a1", "a2", "b1", "b2", "c1", "c2") and d in env:
                offs[dd["name"]] = str(env[d])
        vals[cls] = offs
        for ax in "abc":
            lo, hi = offs.get(ax + "1", ""), offs.get(ax + "2", "")
            oklo = re.match(r"^ite\(\(.* < 2\), 0, -1\)$", lo) is not None and "box_N%s_" % ax in lo or re.match(r"^ite\(\(toint.* < 2\), 0, -1\)$", lo) is not None
            okhi = re.match(r"^ite\(\(.* < 3\), 0, 1\)$", hi) is not None
            rep.check(oklo and okhi, "R3.5", "%s|offsets|%s" % (cls, ax), "offsets: lower -1 (0 if N<2), upper 1 (0 if N<3)",
                      "%s::InitializeGrid neighbour offsets for direction %s are lower=%s upper=%s; required lower = (N<2 ? 0 : -1), "
                      "upper = (N<3 ? 0 : 1) (otherwise cells are scanned twice or not at all)" % (cls, ax, lo[:80], hi[:80]), f.loc())
    if len(vals) == 2:
        a_, b_ = vals["NBListGrid"], vals["NBListGrid_3Body"]
        norm = lambda d: {k: re.sub(r"\s+", "", v) for k, v in d.items()}
        rep.check(norm(a_) == norm(b_), "R3.5", "siblings|offsets", "pair grid and 3-body grid use the same neighbour offsets",
                  "the pair grid and the 3-body grid disagree on neighbour offsets: %s vs %s" % (a_, b_), None)


def eq_fn(a, b):
    try:
        if isinstance(a, (Matrix, tuple)) or isinstance(b, (Matrix, tuple)):
            return False
        return is_zero(a - b) or sp.simplify(a - b) == 0
    except Exception:
        return False


def check_getcell(rep, F):
    for cls in ("NBListGrid", "NBListGrid_3Body"):
        for f in F.find(C + cls + "::getCell"):
            rep.analysed(f)
            rets = [n for n in f.walk() if n.get("k") == "return"]
            if len(rets) != 1:
                rep.broken("R3.6", "%s::getCell: expected one return" % cls)
                continue
            e = unwrap(rets[0]["value"])
            if e.get("k") == "opcall" and e.get("op") == "()" and len(e["args"]) == 4:
                idxs = e["args"][1:]
            elif e.get("k") == "mcall" and (e.get("callee") or "").endswith("::getCell") and len(e["args"]) == 3:
                idxs = e["args"]
            else:
                if len(f.j["params"]) == 3:
                    continue        # the (a,b,c) accessor itself
                rep.broken("R3.6", "%s::getCell does not return grid_(a,b,c)" % cls)
                continue
            if len(f.j["params"]) != 1:
                continue
            for idx, ax in zip(idxs, "abc"):
                fld = C + cls + "::box_N%s_" % ax
                R = Range(f, lambda n, fld=fld: n.get("k") == "member" and n.get("field") == fld, nmin=1).run()
                iv = R.value_at(idx)
                ok = iv is not None and R.in_range(iv)
                rep.check(ok, "R3.6", "%s|cell-index|%s" % (cls, ax), "index %s in %s within [0, N-1]" % (show(idx), fmt(iv) if iv else "?"),
                          "%s::getCell: cell index %s ranges over %s, outside [0, N_%s-1] for some positions (negative coordinates / far "
                          "images): out-of-bounds cell access" % (cls, show(idx), fmt(iv) if iv else "unknown", ax), f.loc(rets[0]), sample=(ax == "a"))
            # the index must be congruent (mod N) to floor(r . norm_x_) and depend on the position only through it
            fo = Fold(f).run()
            rv = [v for v, _g, _s in fo.returns]
            if len(rv) != 1 or isinstance(rv[0], (Matrix, tuple)) or str(getattr(rv[0], "func", "")) not in ("at", "getCell") or len(rv[0].args) != 4:
                rep.broken("R3.6", "%s::getCell: the returned cell does not fold to grid_(a,b,c) (%s)" % (cls, str(rv)[:120]))
                continue
            r_atoms = vec_atoms(f.j["params"][0]["name"])
            for val, ax in zip(rv[0].args[1:], "abc"):
                nrm = vec_atoms("norm_%s_" % ax)
                want = sum(r_atoms[i] * nrm[i] for i in range(3))
                floors = {a for a in sp.preorder_traversal(val) if str(getattr(a, "func", "")) == "floor"}
                okf = len(floors) == 1
                why = "no unique floor(...) of the position in %s" % str(val)[:160]
                if okf:
                    fl = list(floors)[0]
                    Z = S("_Z")
                    rest = val.xreplace({Fn("toint")(fl): Z}).xreplace({fl: Z})
                    okf = is_zero(fl.args[0] - want) and not any(a in rest.free_symbols for a in r_atoms)
                    why = "the %s index is %s" % (ax, str(val)[:200])
                    if okf:
                        okf = congruent(rest, Z, S("box_N%s_" % ax))
                        why = "the %s index %s is not congruent to floor(r . norm_%s_) modulo box_N%s_" % (ax, str(rest)[:200], ax, ax)
                rep.check(okf, "R3.6", "%s|cell-formula|%s" % (cls, ax), "cell %s == floor(r . norm_%s_) (mod N_%s)" % (ax, ax, ax),
                          "%s::getCell: %s (required: floor(r.dot(norm_%s_)) wrapped into [0, N))" % (cls, why, ax), f.loc())


from vsa.cases import congruent


def check_simple_iterators(rep, F):
    from vsa.cases import decide, resolve_ite, ites
    for qn, nlists in ((C + "NBList::Generate", 2),):
        for f in F.find(qn):
            if len(f.j["params"]) != 3:
                continue
            fo = Fold(f, inline="internal", record_calls=r"::AddPair$").run()
            adds = [e for e in fo.events if e["kind"] == "call"]
            loops = getattr(fo, "loops", [])
            ok, why = False, "inner loop of the pair search not found"
            if len(adds) == 1:
                lids = [g_[0][1] for g_ in adds[0]["guards"] if isinstance(g_[0], tuple) and g_[0] and g_[0][0] == "loop"]
                inner = [l for l in loops if lids and l["lid"] == lids[-1]]
                outer = [l for l in loops if len(lids) >= 2 and l["lid"] == lids[-2]]
                if inner and outer:
                    its = [v for v in inner[0]["init"].values() if v is not None and not isinstance(v, (Matrix,))]
                    osyms = list(outer[0]["syms"].values())
                    p1, p2 = f.j["params"][0]["name"], f.j["params"][1]["name"]
                    conds = getattr(fo, "conds", {})

                    def same_oracle(lf):
                        if isinstance(lf, tuple) and len(lf) == 3 and lf[0] in ("==", "!=") and {str(lf[1]), str(lf[2])} == {"('&', %s)" % p1, "('&', %s)" % p2}:
                            return ("same-list", lf[0] == "==")
                        return None
                    ok = False
                    why = "the inner iterator starts at %s" % [str(v)[:80] for v in its]
                    for v in its:
                        if isinstance(v, tuple):
                            continue
                        vs = resolve_ite(v, lambda cs: decide(conds[cs], None, {"same-list": True}, same_oracle, conds) if cs in conds else None)
                        vd = resolve_ite(v, lambda cs: decide(conds[cs], None, {"same-list": False}, same_oracle, conds) if cs in conds else None)
                        if ites(vs) or ites(vd):
                            continue
                        s_same, s_diff = str(vs), str(vd)
                        after = any(s_same in ("iterinc(%s)" % o, "next(%s)" % o, "next(%s, 1)" % o) for o in map(str, osyms))
                        ok = ok or (after and s_diff == "begin(%s)" % p2)
            rep.check(ok, "R3.4", "NBList::Generate|one-list-start", "same list: inner iterator starts one past the outer; different lists: at the beginning of the second",
                      "NBList::Generate: %s - when both lists are the same the inner iterator must start after the outer one (pairs twice / self pairs), otherwise at list2.begin()" % why, f.loc())


def check_is_excluded(rep, F):
    """ExclusionList::IsExcluded is a membership test over the COMPLETE partner list of the smaller-id bead: true exactly when bead2 is found (std::find over
    [begin, end) or a scan that returns on equality and has no other way out of the loop); a scan that stops early assumes an order the list does not have"""
    from vsa.cases import executes
    rep.rule("R3.8", "ExclusionList::IsExcluded(a, b): different molecules -> false; otherwise true exactly when the larger-id bead is in the partner list of the smaller-id bead, "
                     "searched over the whole list (no early stop on an assumed ordering)")
    f = F.one(C + "ExclusionList::IsExcluded")
    rep.analysed(f)
    fo = Fold(f).run()
    conds = getattr(fo, "conds", {})
    rets = [e for e in fo.events if e["kind"] == "return"]
    # `return <condition>;` is `if (<condition>) return true; return false;`
    rets = [dict(e, guards=list(e["guards"]) + [(e["value"], True, None)], value=True) if isinstance(e["value"], tuple) and e["value"] and e["value"][0] in ("!=", "==", "&&", "||", "!") else e
            for e in rets]
    trues = [e for e in rets if e["value"] in (True, sp.true)]
    ok, why = len(trues) == 1, "expected one 'found' return, got %d" % len(trues)
    if ok:
        e = trues[0]
        lids = [g[0][1] for g in e["guards"] if isinstance(g[0], tuple) and g[0] and g[0][0] == "loop"]
        last = e["guards"][-1]
        lst = None
        if lids:
            lp = [l for l in getattr(fo, "loops", []) if l["lid"] == lids[-1]][0]
            lst = lp.get("range")
            var = lp.get("var")
            eq = isinstance(last[0], tuple) and last[0][0] == "==" and last[1] is True and var in last[0][1:]
            ok, why = eq and lst is not None, "the scan does not return true on 'partner == the other bead'"
            if ok and lp.get("breaks"):
                ok, why = False, ("the scan over the partner list is left early when %s: partners are appended in the order the interactions list them, not by id, so a partner stored "
                                  "behind a larger id is never reached and a pair sharing an interaction is reported as not excluded" % fo.cond_str(lp["breaks"][0][0])[:160])
            if ok:
                other_exits = [r_ for r_ in rets if r_ is not e and any(isinstance(g[0], tuple) and g[0] and g[0][0] == "loop" and g[0][1] == lids[-1] for g in r_["guards"])]
                ok, why = not other_exits, "the scan returns from inside the loop for another reason than a match"
            probe = [x for x in last[0][1:] if x != var][0] if ok else None
        else:
            c = last[0]
            fnd = [x for x in (c[1:] if isinstance(c, tuple) and len(c) == 3 else []) if str(getattr(x, "func", "")) == "find" and len(x.args) == 3]
            ok = isinstance(c, tuple) and c[0] == "!=" and last[1] is True and len(fnd) == 1 and str(fnd[0].args[0]).startswith("begin(") and str(fnd[0].args[1]).startswith("end(") \
                and str(fnd[0].args[0])[6:] == str(fnd[0].args[1])[4:] and [x for x in c[1:] if x is not fnd[0]] and str([x for x in c[1:] if x is not fnd[0]][0]) == str(fnd[0].args[1])
            why = "the 'found' condition %s is not std::find over the whole partner list" % fo.cond_str(c)[:160]
            lst = fnd[0].args[0].args[0] if ok and getattr(fnd[0].args[0], "args", None) else None
            probe = fnd[0].args[2] if ok else None
        if ok:
            ok = "exclude_" in str(lst) and "GetExclusions(this, " in str(lst)
            why = "the list searched is %s, not the partner list of a bead" % lst
        if ok:
            # key = the smaller-id bead, probe = the other one: by cases of the id order
            p1, p2 = [p_["name"] for p_ in f.j["params"][:2]]
            key = re.search(r"GetExclusions\(this, (.*?)\)\)", str(lst) + ")")
            keyv = key.group(1) if key else "?"

            def ord_orc(lf):
                if isinstance(lf, tuple) and len(lf) == 3 and lf[0] in ("<", ">", "<=", ">="):
                    a_, b_ = str(lf[1]), str(lf[2])
                    if {a_, b_} == {"getId(%s)" % p1, "getId(%s)" % p2}:
                        lt = (lf[0] in ("<", "<=")) == (a_ == "getId(%s)" % p2)       # "id(p2) < id(p1)"
                        return ("P2SMALLER", lt)
                return None
            from vsa.cases import decide, resolve_ite
            for p2small in (True, False):
                A = {"P2SMALLER": p2small}
                pick = lambda cs: decide(conds[cs], None, A, ord_orc, conds) if cs in conds else None
                kv = resolve_ite(S(keyv) if not hasattr(keyv, "args") else keyv, pick)
                # the key/probe expressions are folded values: resolve them from the events' symbols
                kx = [x for x in sp.preorder_traversal(lst) if str(getattr(x, "func", "")) == "GetExclusions"]
                kval = resolve_ite(kx[0].args[-1], pick) if kx and hasattr(kx[0].args[-1], "args") else (kx[0].args[-1] if kx else None)
                pval = resolve_ite(probe, pick) if hasattr(probe, "args") else probe
                want_k, want_p = (p2, p1) if p2small else (p1, p2)
                if str(kval) != want_k or str(pval) != want_p:
                    ok, why = False, "with id(%s) %s id(%s) the list of %s is searched for %s (required: the smaller-id bead's list for the other bead)" % (p2, "<" if p2small else ">=", p1, kval, pval)
                    break
    rep.check(ok, "R3.8", "is-excluded", "membership over the whole partner list of the smaller-id bead", "ExclusionList::IsExcluded: " + why, f.loc(), sample=True)
