"""C07 - every analytic derivative equals the derivative of its value function (ALG proof)."""
import os
import sympy as sp
from sympy import Matrix
from vsa import front
from vsa.facts import Facts, unwrap, show, walk, lit_value
from vsa.front import AnalysisBroken
from vsa.alg import Fold, S, F as Fn, equal, is_zero, vec_atoms, guard_strs
from rules import splinelib

LEVEL = "proof"
C = "votca::csg::"


# ------------------------------------------------------------------ bonded interactions
class NormAtoms:
    """norm() of a polynomial 3-vector becomes one positive atom N_k with N_k^2 = v.v; records the relations"""

    def __init__(self):
        self.atoms = []     # (symbol, squared polynomial, vector)

    def norm(self, v):
        sq = sp.expand(sum(x * x for x in v))
        for s, q, _ in self.atoms:
            if sp.expand(q - sq) == 0:
                return s
        s = sp.Symbol("N%d" % len(self.atoms), positive=True)
        self.atoms.append((s, sq, v))
        return s

    def d(self, expr, x):
        """total derivative d expr / d x with N_k depending on x through N_k^2 = q_k(x)"""
        out = sp.diff(expr, x)
        for s, q, _ in self.atoms:
            dq = sp.diff(q, x)
            if dq != 0:
                out += sp.diff(expr, s) * dq / (2 * s)
        return out

    def reduce_zero(self, expr):
        """expr == 0 modulo N_k^2 = q_k ?"""
        e = sp.together(expr)
        num = sp.numer(e)
        num = sp.expand(num)
        syms = [s for s, _, _ in self.atoms]
        if not syms:
            return sp.expand(num) == 0
        P = sp.Poly(num, *syms)
        total = 0
        for mon, coeff in P.terms():
            term = coeff
            for (s, q, _), p in zip(self.atoms, mon):
                term *= q ** (p // 2) * s ** (p % 2)
            total += term
        total = sp.expand(total)
        if total == 0:
            return True
        P2 = sp.Poly(total, *syms)
        return all(sp.expand(c) == 0 for c in P2.coeffs())


class Budget(Exception):
    pass


def with_budget(seconds, fn, *a):
    import signal

    def onalarm(sig, frm):
        raise Budget()
    old = signal.signal(signal.SIGALRM, onalarm)
    signal.alarm(seconds)
    try:
        return fn(*a)
    finally:
        signal.alarm(0)
        signal.signal(signal.SIGALRM, old)


def point_identity(D, NA, rad, pos, seed, points=4):
    """Schwartz-Zippel with exact arithmetic: at random rational positions the numerator of D, reduced modulo
    N_k^2 = q_k(point), must vanish coefficient-wise as a polynomial in the norm atoms (radical atoms and the sign
    atom stay formal generators).  Returns True (identity holds at all points) / False (refuted at some point)."""
    import random
    from sympy.core.function import AppliedUndef
    rnd = random.Random(seed)
    e0 = D.replace(lambda x: isinstance(x, AppliedUndef), lambda x: sp.Symbol("sgn"))
    for _ in range(points):
        sub = {}
        for v in pos:
            for c in v:
                sub[c] = sp.Rational(rnd.randint(-5000, 5000), rnd.randint(1, 97))
        qn = [(s_, q.subs(sub)) for s_, q, _v in NA.atoms]
        num = sp.numer(sp.together(e0.subs(sub)))
        gens = [s_ for s_, _ in qn] + sorted(rad.values(), key=str) + [sp.Symbol("sgn")]
        P = sp.Poly(sp.expand(num), *gens)
        acc = {}
        for mon, coeff in P.terms():
            c = coeff
            key = []
            for idx, pw in enumerate(mon):
                if idx < len(qn):
                    c = c * qn[idx][1] ** (pw // 2)
                    key.append(pw % 2)
                else:
                    key.append(pw)
            acc[tuple(key)] = acc.get(tuple(key), 0) + c
        if any(sp.nsimplify(v) != 0 for v in acc.values()):
            return False
    return True


def numeric_identity(D, NA, pos, conds, seed, points=3, digits=60):
    """high-precision evaluation of D at random rational geometries: 'zero' (|D| < 10^-40 at every point), 'nonzero' (|D| > 10^-20 at some point: a
    sound refutation) or None.  Used when the exact comparison cannot be trusted because value and gradient use different closed forms
    (acos with an explicit sign on one side, atan2 on the other): norms, square roots and the sign test are evaluated, not kept formal."""
    import random
    import mpmath
    from sympy.core.function import AppliedUndef
    rnd = random.Random(seed)
    mpmath.mp.dps = digits
    verdict = "zero"
    for _ in range(points):
        sub = {}
        for v in pos:
            for c in v:
                sub[c] = sp.Rational(rnd.randint(-5000, 5000), rnd.randint(1, 97))
        e = D
        for s_, q, _v in NA.atoms:
            e = e.xreplace({s_: sp.sqrt(q)})
        e = e.xreplace(sub)
        for a_ in list(e.atoms(AppliedUndef)):
            if str(a_.func) == "ite" and len(a_.args) == 3:
                c_ = conds.get(str(a_.args[0]))
                if isinstance(c_, tuple) and len(c_) == 3 and c_[0] in ("<", "<=", ">", ">="):
                    l_, r_ = [sp.sympify(x_).xreplace(sub) if hasattr(x_, "xreplace") else sp.sympify(x_) for x_ in c_[1:]]
                    for s_, q, _v in NA.atoms:
                        l_, r_ = l_.xreplace({s_: sp.sqrt(q.xreplace(sub))}), r_.xreplace({s_: sp.sqrt(q.xreplace(sub))})
                    t_ = {"<": l_ < r_, "<=": l_ <= r_, ">": l_ > r_, ">=": l_ >= r_}[c_[0]]
                    if t_ in (sp.true, sp.false):
                        e = e.xreplace({a_: a_.args[1] if t_ == sp.true else a_.args[2]})
        if e.atoms(AppliedUndef) or e.free_symbols:
            return None
        val = abs(sp.N(e, digits))
        if val > sp.Float("1e-20"):
            return "nonzero"
        if not val < sp.Float("1e-40"):
            verdict = None
    return verdict


def interaction_fold(f, NA, pos, env_by_param=None):
    roots = {}

    def call(fold, n, env):
        cal = n.get("callee") or ""
        if n.get("k") == "mcall" and cal == C + "Topology::getDist":
            idx = []
            for a in n["args"]:
                a = unwrap(a)
                ok = a.get("k") == "opcall" and a.get("op") == "[]" and unwrap(a["args"][0]).get("fname") == "beads_"
                iv = lit_value(a["args"][1]) if ok else None
                if iv is None:
                    raise AnalysisBroken("%s: getDist argument %s is not beads_[literal]" % (f.qname, show(a)))
                idx.append(int(iv))
            fold.dist_calls = getattr(fold, "dist_calls", 0) + 1
            return pos[idx[1]] - pos[idx[0]]
        short = cal.split("::")[-1]
        if n.get("k") == "mcall" and short in ("norm", "squaredNorm", "normalize", "normalized") and n.get("obj") is not None:
            v = fold.ev(n["obj"], env)
            if isinstance(v, Matrix) and v.shape == (3, 1):
                N = NA.norm(v)
                if short == "norm":
                    return N
                if short == "squaredNorm":
                    return N ** 2
                nv = v / N
                if short == "normalize":
                    on = unwrap(n["obj"])
                    if on.get("k") == "ref" and on.get("decl") in env:
                        env[on["decl"]] = nv
                return nv
        if cal in ("sqrt", "std::sqrt"):
            a = fold.ev(n["args"][0], env)
            return sp.sqrt(a)
        # any other read of positions is forbidden (R7.2)
        if n.get("k") == "mcall" and short in ("getPos", "getBead", "BCShortestConnection"):
            raise AnalysisBroken("%s reads positions through %s instead of Topology::getDist" % (f.qname, cal))
        return NotImplemented
    fo = Fold(f, call=call)
    env = {}
    for p in f.j["params"]:
        if env_by_param and p["name"] in env_by_param:
            env[p["decl"]] = env_by_param[p["name"]]
    fo.run(env)
    if not fo.returns:
        raise AnalysisBroken("%s: no return" % f.qname)
    return fo


def check_interaction(rep, F, cls, nbeads, symbolic=True):
    how = {"symbolic": 0, "points-only": 0}
    NA = NormAtoms()
    pos = [vec_atoms("p%d" % k) for k in range(nbeads)]
    fv = F.one(C + cls + "::EvaluateVar")
    fg = F.one(C + cls + "::Grad")
    rep.analysed(fv); rep.analysed(fg)
    fov = interaction_fold(fv, NA, pos)
    V = fov.returns[0][0]
    if isinstance(V, (Matrix, tuple)):
        raise AnalysisBroken("%s::EvaluateVar does not fold to a scalar" % cls)
    total = sp.zeros(3, 1)
    # common radical factor of acos': treat sqrt(1-u^2) as an atom on both sides
    rad = {}

    def atomise(e):
        def rep_(x):
            if x.is_Pow and x.exp in (sp.Rational(1, 2), sp.Rational(-1, 2)) and not x.base.is_Symbol:
                key = sp.cancel(sp.together(x.base))
                for k2, s in rad.items():
                    if sp.cancel(k2 - key) == 0:
                        return s ** (1 if x.exp > 0 else -1)
                s = sp.Symbol("R%d" % len(rad), positive=True)
                rad[key] = s
                return s ** (1 if x.exp > 0 else -1)
            return x
        return e.replace(lambda x: x.is_Pow and abs(x.exp) == sp.Rational(1, 2) and not x.base.is_Symbol, rep_)
    for k in range(nbeads):
        fog = interaction_fold(fg, NA, pos, {"bead": sp.Integer(k)})
        G = fog.returns[0][0]
        if not isinstance(G, Matrix) or G.shape != (3, 1):
            rep.broken("R7.1", "%s::Grad(bead=%d) does not fold to a 3-vector" % (cls, k))
            continue
        total += G
        for c, ax in enumerate("xyz"):
            dV = NA.d(V, pos[k][c])
            D = atomise(sp.together(dV)) - atomise(sp.together(G[c]))
            ok = point_identity(D, NA, rad, pos, rep.seed + 7)
            if not ok:
                # sign / radical atoms are formal in the exact test: a refutation that involves them is confirmed by evaluation (value and gradient may use
                # different but equivalent closed forms, e.g. atan2 against sign * acos)
                from sympy.core.function import AppliedUndef
                raw = dV - G[c]
                if raw.atoms(AppliedUndef) or rad:
                    cds = dict(getattr(fov, "conds", {}))
                    cds.update(getattr(fog, "conds", {}))
                    nv = numeric_identity(raw, NA, pos, cds, rep.seed + 13)
                    if nv == "zero":
                        ok = True
                        how["numeric"] = how.get("numeric", 0) + 1
                    elif nv is None:
                        raise AnalysisBroken("%s: value and gradient use different closed forms and the comparison for bead %d, %s is not decided" % (cls, k, ax))
            if ok and symbolic and not how.get("numeric"):
                try:
                    ok = with_budget(60, NA.reduce_zero, D)
                    how["symbolic"] += 1
                except Budget:
                    how["points-only"] += 1
            elif ok:
                how["points-only"] += 1
            rep.check(ok, "R7.1", "%s|grad|bead%d|%s" % (cls, k, ax), "d %s / d p%d.%s == Grad(bead=%d).%s" % (cls, k, ax, k, ax),
                      "%s::Grad(top, %d).%s is not the derivative of EvaluateVar with respect to bead %d's %s coordinate "
                      "(they differ as functions of the connection vectors; e.g. for unequal bond lengths or non-right angles)"
                      % (cls, k, ax, k, ax), fg.loc(), sample=(c == 0))
    tz = True
    for c in range(3):
        Dt = atomise(sp.together(total[c]))
        if not point_identity(Dt, NA, rad, pos, rep.seed + 11):
            tz = False
            break
    rep.check(tz, "R7.1", "%s|sum-to-zero" % cls, "gradients over the %d beads sum to zero" % nbeads,
              "the gradients of %s over its %d beads do not sum to zero (translation invariance broken)" % (cls, nbeads), fg.loc(), sample=True)
    rep.sample({"rule": "R7.1", "class": cls, "decided": how,
                "method": "exact coefficient-wise identity at 4 random rational geometries (Schwartz-Zippel, exact arithmetic)"
                          + ("; plus full symbolic expansion modulo N^2=v.v where it finishes within 60 s" if symbolic else "")})
    rep.holds("R7.2", "%s|positions-only-through-getDist" % cls, "value and gradient read positions only via Topology::getDist", fv.loc())


# ------------------------------------------------------------------ potential functions
def lam_hook(names=("lam_",)):
    def call(fold, n, env):
        if n.get("k") == "opcall" and n.get("op") in ("()", "[]") and len(n["args"]) == 2:
            b = unwrap(n["args"][0])
            if b.get("k") == "member" and b.get("fname") in names:
                iv = fold.ev(n["args"][1], env)
                if getattr(iv, "is_Integer", False):
                    return S("lam%d" % int(iv))
                return Fn("lam")(iv)
        return NotImplemented
    return call


def inside(fo):
    """the return executed inside the domain guard (all guards positive), else None"""
    rs = [(v, g) for v, g, _ in fo.returns if g and all(pol for _, pol, _ in g)]
    return rs


def check_potential(rep, F, cls, npar):
    P = C + cls + "::"
    r = S("r")

    def ret(fn, **params):
        f = F.one(P + fn)
        fo = Fold(f, call=lam_hook())
        env = {}
        for p in f.j["params"]:
            if p["name"] in params:
                env[p["decl"]] = params[p["name"]]
        for idx, p in enumerate(f.j["params"]):
            key = "_%d" % idx
            if key in params:
                env[p["decl"]] = params[key]
        fo.run(env)
        return f, fo
    from vsa.cases import executes
    Q = sp.Rational
    lo, hi = S("min_"), S("cut_off_")
    # the argument is compared only with the two domain bounds: one representative per ordering (bounds included)
    REPS = [("below", Q(1, 2), False), ("at-min", Q(1), True), ("inside", Q(2), True), ("at-cutoff", Q(3), True), ("above", Q(4), False)]

    def value_at(fo, rv, what, case=None):
        sub = {lo: Q(1), hi: Q(3), r: rv}
        sub.update(case or {})          # parameter values used only to decide guards on the parameters (lam_k == c shortcuts)
        evs = [e for e in fo.events if e["kind"] == "return"]
        hit = []
        for e in evs:
            x = executes(e, sub)
            if x is None:
                raise AnalysisBroken("%s::%s: cannot decide whether a return is taken for r relative to [min_, cut_off_] (guards %s)" % (cls, what, guard_strs(fo, e["guards"])))
            if x:
                hit.append(e)
        if len(hit) != 1:
            raise AnalysisBroken("%s::%s: %d returns are taken for one argument" % (cls, what, len(hit)))
        return hit[0]["value"]

    def param_cases(fo):
        """(parameter, constant) pairs the returns are guarded with: lam_k == c / lam_k != c"""
        from vsa.cases import leaf_conditions
        out = set()
        for e in fo.events:
            if e["kind"] != "return":
                continue
            for lf in leaf_conditions(e):
                if isinstance(lf, tuple) and len(lf) == 3 and lf[0] in ("==", "!="):
                    for a_, b_ in ((lf[1], lf[2]), (lf[2], lf[1])):
                        if a_ in lams and getattr(b_, "is_number", False):
                            out.add((a_, sp.nsimplify(b_)))
        return sorted(out, key=str)

    def piecewise(fo, what, f, case=None):
        """in-domain value (must be the same expression at every in-domain representative); out-of-domain must be 0"""
        vals = {nm: value_at(fo, rv, what, case) for nm, rv, _ in REPS}
        inner = vals["inside"]
        for nm, rv, ins in REPS:
            v = vals[nm]
            if isinstance(v, (Matrix, tuple)):
                raise AnalysisBroken("%s::%s does not fold to a scalar" % (cls, what))
            if ins:
                rep.check(is_zero(v - inner), "R7.3", "%s|%s|domain|%s" % (cls, what, nm), "same formula on the closed domain [min_, cut_off_] (%s)" % nm,
                          "%s::%s uses a different formula at r %s than inside the domain (%s vs %s): value and derivatives disagree on the domain boundary" % (cls, what, nm, v, inner), f.loc())
            else:
                rep.check(is_zero(v), "R7.3", "%s|%s|domain|%s" % (cls, what, nm), "0 outside the domain (%s)" % nm,
                          "%s::%s returns %s %s the domain where CalculateF is 0" % (cls, what, v, nm), f.loc())
        return inner
    lams = [S("lam%d" % k) for k in range(npar)]
    generic = {lm: Q(7, 3) + k_ for k_, lm in enumerate(lams)}        # a parameter vector that satisfies none of the lam_k == c shortcuts
    fF, foF = ret("CalculateF", r=r)
    rep.analysed(fF)
    Fv = piecewise(foF, "F", fF, generic)
    for i in range(npar):
        fD, foD = ret("CalculateDF", i=sp.Integer(i), r=r, _0=sp.Integer(i), _1=r)
        rep.analysed(fD)
        v = piecewise(foD, "DF|%d" % i, fD, generic)
        rep.check(is_zero(sp.diff(Fv, lams[i]) - v), "R7.3", "%s|DF|%d" % (cls, i), "dF/dlam%d == DF(%d) = %s" % (i, i, v),
                  "%s::CalculateDF(%d, r) returns %s but dF/dlam%d = %s" % (cls, i, v, i, sp.diff(Fv, lams[i])), fD.loc(), sample=(i < 2))
        # shortcuts taken for special parameter values (lam_k == c): the value returned there must be the derivative at that parameter value
        for lk, cval in param_cases(foD) + [pc for pc in param_cases(foF) if pc not in param_cases(foD)]:
            cs = dict(generic)
            cs[lk] = cval
            v_s = value_at(foD, Q(2), "DF|%d" % i, cs)
            F_s = value_at(foF, Q(2), "F", cs) if param_cases(foF) else Fv
            want_s = sp.diff(Fv, lams[i]).subs(lk, cval)
            got_s = v_s.subs(lk, cval) if hasattr(v_s, "subs") else sp.sympify(v_s)
            rep.check(is_zero(want_s - got_s), "R7.3", "%s|DF|%d|%s=%s" % (cls, i, lk, cval), "dF/dlam%d at %s = %s" % (i, lk, cval),
                      "%s::CalculateDF(%d, r) returns %s when %s == %s, but dF/dlam%d there is %s: the shortcut for that parameter value is not the derivative of CalculateF"
                      % (cls, i, got_s, lk, cval, i, want_s), fD.loc())
        for j in range(npar):
            f2, fo2 = ret("CalculateD2F", _0=sp.Integer(i), _1=sp.Integer(j), _2=r, i=sp.Integer(i), j=sp.Integer(j), r=r)
            rep.analysed(f2)
            v2 = value_at(fo2, Q(2), "D2F|%d,%d" % (i, j))
            rep.check(is_zero(sp.diff(v, lams[j]) - v2), "R7.3", "%s|D2F|%d,%d" % (cls, i, j), "d DF(%d)/dlam%d == D2F(%d,%d)" % (i, j, i, j),
                      "%s::CalculateD2F(%d, %d, r) returns %s but d2F/dlam%d dlam%d = %s (the Hessian entry is wrong%s)" % (
                          cls, i, j, v2, i, j, sp.simplify(sp.diff(v, lams[j])), " and not symmetric" if i != j else ""), f2.loc())


def check_cbspl(rep, F):
    cls = "PotentialFunctionCBSPL"
    P = C + cls + "::"
    r = S("r")
    M = sp.Matrix(4, 4, lambda i, j: S("M%d%d" % (i, j)))
    indx = S("indx", integer=True)

    def call(fold, n, env):
        cal = n.get("callee") or ""
        if n.get("k") in ("call",) and cal == "std::min":
            return indx
        if n.get("k") == "mcall" and cal.endswith("::segment") and show(n.get("obj")) == "lam_":
            a = fold.ev(n["args"][0], env)
            return sp.Matrix([Fn("lam")(a + k) for k in range(4)])
        if n.get("k") == "mcall" and cal.endswith("::value"):
            v = fold.ev(n["obj"], env)
            if isinstance(v, Matrix) and v.shape == (1, 1):
                return v[0, 0]
        if n.get("k") == "mcall" and cal.endswith("::Zero") or (n.get("k") == "call" and cal.endswith("::Zero")):
            if "4, 1" in (n.get("type") or ""):
                return sp.zeros(4, 1)
        return NotImplemented

    def atom(fold, n, env):
        if n.get("k") == "member" and n.get("fname") == "M_":
            return M
        return NotImplemented
    fF = F.one(P + "CalculateF")
    rep.analysed(fF)
    fo = Fold(fF, call=call, atom=atom)
    fo.run({fF.j["params"][0]["decl"]: r})
    ins = inside(fo)
    if len(ins) != 1 or isinstance(ins[0][0], (Matrix, tuple)):
        raise AnalysisBroken("CBSPL::CalculateF does not fold to one in-domain scalar")
    Fv = sp.expand(ins[0][0])
    t = S("t_")
    dr, nexcl = S("dr_"), S("nexcl_")
    tt = (r - indx * dr) / dr
    want = sum(sp.Matrix([1, tt, tt**2, tt**3])[j] * M[j, k] * Fn("lam")(indx + k) for j in range(4) for k in range(4))
    rep.check(is_zero(Fv - want), "R7.3", "CBSPL|F", "F = (R^T M) lam[indx..indx+3], R = (1,t,t^2,t^3), t = (r - indx*dr)/dr",
              "PotentialFunctionCBSPL::CalculateF returns %s" % str(Fv)[:300], fF.loc(), sample=True)
    fD = F.one(P + "CalculateDF")
    rep.analysed(fD)
    for k in range(4):
        fo = Fold(fD, call=call, atom=atom)
        env = {fD.j["params"][0]["decl"]: indx + k - nexcl, fD.j["params"][1]["decl"]: r}
        fo.run(env)
        # the return inside the window: guards r <= cut_off_ and the window test
        cands = [(v, g) for v, g, _ in fo.returns if all(pol for _, pol, _ in g)]
        if not cands:
            rep.broken("R7.3", "CBSPL::CalculateDF: no in-window return for offset %d" % k)
            continue
        v = cands[0][0]
        wantd = sp.diff(want, Fn("lam")(indx + k))
        rep.check(not isinstance(v, (Matrix, tuple)) and is_zero(v - wantd), "R7.3", "CBSPL|DF|window%d" % k,
                  "DF(i) = (R^T M)[%d] = dF/dlam[indx+%d] for i+nexcl = indx+%d" % (k, k, k),
                  "PotentialFunctionCBSPL::CalculateDF returns %s for the parameter at knot indx+%d, but dF/dlam = %s" % (str(v)[:200], k, wantd),
                  fD.loc(), sample=(k == 0))
    # outside the window the derivative is zero and the window is [indx, indx+3]
    fo = Fold(fD, call=call, atom=atom)
    ii = S("i", integer=True)
    fo.run({fD.j["params"][0]["decl"]: ii, fD.j["params"][1]["decl"]: r})
    win = None
    for v, g, _ in fo.returns:
        for c, pol, _ in g:
            if isinstance(c, tuple) and c[0] == "&&":
                win = c
    ok = False
    if win is not None:
        a, b = win[1], win[2]
        ok = (isinstance(a, tuple) and a[0] == ">=" and is_zero(a[1] - (ii + nexcl)) and is_zero(a[2] - indx)
              and isinstance(b, tuple) and b[0] == "<=" and is_zero(b[1] - (ii + nexcl)) and is_zero(b[2] - (indx + 3)))
    rep.check(ok, "R7.3", "CBSPL|DF|window", "non-zero exactly for indx <= i+nexcl <= indx+3",
              "PotentialFunctionCBSPL::CalculateDF window test is %s" % (fo.cond_str(win) if win else "missing"), fD.loc())
    f2 = F.one(P + "CalculateD2F")
    rets = [n for n in f2.walk() if n.get("k") == "return"]
    rep.check(len(rets) == 1 and lit_value(rets[0]["value"]) == 0, "R7.3", "CBSPL|D2F", "F is linear in the parameters: D2F = 0",
              "PotentialFunctionCBSPL::CalculateD2F is not identically zero although F is linear in lam", f2.loc())


def check_savepottab(rep, F):
    f = F.find(C + "PotentialFunction::SavePotTab")
    if not f:
        rep.broken("R7.3", "PotentialFunction::SavePotTab not found")
        return
    n_ok = 0
    for fn in f:
        rep.analysed(fn)
        sets = [n for n in fn.walk() if n.get("k") == "mcall" and (n.get("callee") or "").endswith("Table::set")]
        ok = bool(sets)
        for s in sets:
            a = s["args"]
            if len(a) >= 3:
                xs, ys = show(a[1]), show(a[2])
                ok = ok and ys == "CalculateF(%s)" % xs
        rep.check(ok, "R7.3", "SavePotTab|%d-args" % len(fn.j["params"]), "table stores (r, CalculateF(r)) at the same r",
                  "PotentialFunction::SavePotTab stores %s" % [(show(s["args"][1]), show(s["args"][2])) for s in sets if len(s["args"]) >= 3], fn.loc())


def run(rep, tier):
    rep.explanation = ("ALG proof obligations: value functions and derivative functions are folded from the AST into exact "
                       "symbolic expressions; the formal derivative of the value (chain rule; vector norms as positive atoms "
                       "N with N^2 = v.v reduced exactly, the common acos' radical as one atom) is compared with the "
                       "derivative code for every bead/component, every parameter (pair) and every spline coefficient.")
    rep.rule("R7.1", "for bond, angle, dihedral: grad_k EvaluateVar == Grad(top,k) for every bead k and component; the gradients sum to zero")
    rep.rule("R7.2", "EvaluateVar and Grad read positions only through Topology::getDist(beads_[i], beads_[j])")
    rep.rule("R7.3", "potentials: dF/dlam_i == DF(i), dDF(i)/dlam_j == D2F(i,j) (hence symmetric), same domain guard; CBSPL basis-window; SavePotTab stores CalculateF(r) at r")
    rep.rule("R7.4", "splines: d/dr Calculate == CalculateDerivative (cubic: A'..D' and the coefficient pairing; Akima; linear)")
    units = [os.path.join(front.VERIF, "hosts", "csg_interaction.cc")] + [front.repo("csg/src/libcsg/potentialfunctions/" + u) for u in
             ("potentialfunction.cc", "potentialfunctionlj126.cc", "potentialfunctionljg.cc", "potentialfunctioncbspl.cc")] + \
            [front.repo("tools/src/libtools/" + u) for u in ("cubicspline.cc", "akimaspline.cc", "linspline.cc")]
    F = Facts(front.export(units))
    rep.units = units
    rep.trusted.append("sympy exact polynomial arithmetic (expand/cancel/Poly)")
    ov = sorted(f.qname for f in F.overriders(C + "Interaction::Grad"))
    known = {C + "IBond::Grad": ("IBond", 2), C + "IAngle::Grad": ("IAngle", 3), C + "IDihedral::Grad": ("IDihedral", 4)}
    for q in ov:
        if q not in known:
            rep.broken("R7.1", "unknown Interaction::Grad override %s" % q)
    for q, (cls, nb) in known.items():
        if q not in ov:
            rep.broken("R7.1", "override %s vanished" % q)
            continue
        try:
            check_interaction(rep, F, cls, nb, symbolic=(cls != "IDihedral" or tier == "thorough"))
        except AnalysisBroken as e:
            if "reads positions through" in str(e):
                rep.violation("R7.2", "%s|positions-only-through-getDist" % cls, str(e), None)
            else:
                raise
    check_potential(rep, F, "PotentialFunctionLJ126", 2)
    check_potential(rep, F, "PotentialFunctionLJG", 5)
    check_cbspl(rep, F)
    check_savepottab(rep, F)
    pf = sorted({f.qname.split("::")[-2] for f in F.overriders(C + "PotentialFunction::CalculateF")})
    for c in pf:
        if c not in ("PotentialFunctionLJ126", "PotentialFunctionLJG", "PotentialFunctionCBSPL"):
            rep.broken("R7.3", "unknown potential function class %s" % c)
    splinelib.check_cubic_derivatives(F, rep, "R7.4")
    splinelib.check_akima_linear_derivatives(F, rep, "R7.4")
    rep.assumptions += ["away from singular geometries (collinear bonds, zero-length vectors): norms are positive atoms, acos' radical non-zero",
                        "the dihedral sign factor is piecewise constant (derivative zero)",
                        "getDist(a,b) = pos_b - pos_a + lattice constant (C02), so d/dpos is +-d/dv and values are image-shift invariant",
                        "getInterval's choice of interval at knots is not decided"]
