"""C06 - inverse solvers: Tikhonov expression shape, matrix layout, index split, fmatch row layout, block reset,
constrained-QR shape (ordered matrix-product shapes on the AST, ALG on index expressions, PATH)."""
import re
import sympy as sp
from vsa import front
from vsa.facts import Facts, unwrap, show, walk, lit_value
from vsa.front import AnalysisBroken
from vsa.alg import Fold, S, F as Fn, equal, is_zero, guard_strs
from vsa.cfg import CFG
from vsa.cases import subst
from rules import C08

LEVEL = "other"
C = "votca::csg::"
T = "votca::tools::"


def nows(s):
    return re.sub(r"\s+", "", s)


def product_chain(n):
    """ordered factors of a (non-commutative) matrix product expression: (sign, [factor strings])"""
    n = unwrap(n)
    sign = 1
    while True:
        if n.get("k") in ("construct", "cast") and n.get("args") and len(n["args"]) >= 1 and n["k"] == "construct":
            n = unwrap(n["args"][0]); continue
        if n.get("k") == "cast":
            n = unwrap(n["sub"]); continue
        break
    if n.get("k") == "opcall" and n.get("op") == "-" and len(n["args"]) == 1:
        s2, f2 = product_chain(n["args"][0])
        return -s2, f2
    if n.get("k") == "unop" and n.get("op") == "-":
        s2, f2 = product_chain(n["sub"])
        return -s2, f2
    if n.get("k") == "opcall" and n.get("op") == "*" and len(n["args"]) == 2:
        s1, f1 = product_chain(n["args"][0])
        s2, f2 = product_chain(n["args"][1])
        return s1 * s2, f1 + f2
    return 1, [nows(show(n))]


def local_init(f, name):
    d = [dd for dd in f.decls.values() if dd.get("name") == name and dd.get("init") is not None]
    return d[0]["init"] if len(d) == 1 else None


def run(rep, tier):
    rep.explanation = ("The solver routines are matched structurally: ordered factor chains of the (non-commutative) matrix "
                       "products, guarded stores of the regularised inverse spectrum, index arithmetic of the result split and of "
                       "the force-matching rows (canonical form), writer/reader layout of the matrix file, reset of the "
                       "accumulators at block boundaries, and the null-space construction of the constrained solve.")
    rep.rule("R6.1", "csg_imc_solve: ATA = A^T A; spectrum of ATA; inv_i = 1/(lambda_i + reg) unless |lambda_i + reg| < etol (then 0); "
                     "inverse = V diag(inv) V^T; x.y = -inverse A^T B.y")
    rep.rule("R6.2", "matrix file layout: imcio_write_matrix / imcio_read_matrix agree on (row,column) (shared with C08 R8.5)")
    rep.rule("R6.3", "result split: 1-based index ranges -> x(r-1), y(r-1); file name <interaction>.dpot.imc")
    rep.rule("R6.4", "csg_fmatch rows: component c in {x,y,z} of atom a in frame f sits in row off + 3 nbeads f + c nbeads + a, in all "
                     "AddToFitMatrix calls and in b_; pair forces enter with +g for the first and -g for the second bead; bonded rows use -Grad(bead)")
    rep.rule("R6.5", "at a block boundary both least-squares variants clear A_ (or re-assign the constraints into it), clear b_ and restart the frame counter")
    rep.rule("R6.6", "constrained solve: QR of constr^T; A Q; right NoVariables-NoConstrains columns; least squares for z; result Q [0; z]")
    units = [front.repo("csg/src/tools/csg_imc_solve.cc"), front.repo("csg/src/libcsg/imcio.cc"), front.repo("csg/src/tools/csg_fmatch.cc"),
             front.repo("tools/src/libtools/linalg.cc"), front.repo("tools/src/libtools/cubicspline.cc")]
    F = Facts(front.export(units))
    rep.units = units

    # ---------------------------------------------------------------- R6.1
    f = [x for x in F.funcs if x.qname.endswith("CG_IMC_solve::Run")]
    if len(f) != 1:
        raise AnalysisBroken("CG_IMC_solve::Run not found")
    f = f[0]
    rep.analysed(f)

    from vsa.matfold import MatFold, nc_factors, nc_is_zero
    from vsa.vecfold import K
    from vsa.cases import decide, resolve_ite, ites
    from sympy.core.function import AppliedUndef
    fo = MatFold(f, record_calls=r"Table::(push_back|Save|Load)$").run()
    sol = [e for e in fo.events if e["kind"] == "store" and e.get("target_node") is not None and unwrap(e["target_node"]).get("k") == "mcall"
           and (unwrap(e["target_node"]).get("callee") or "").endswith("Table::y") and not unwrap(e["target_node"]).get("args")]
    if len(sol) != 1 or isinstance(sol[0]["value"], (tuple, sp.Matrix)):
        raise AnalysisBroken("CG_IMC_solve::Run: expected one assignment of the solution to <table>.y(), found %d" % len(sol))
    coeff, fac = nc_factors(sol[0]["value"])
    fname = lambda t: str(getattr(t, "func", ""))
    shape_ok = coeff == -1 and len(fac) == 5 and [fname(t) for t in fac] == ["eigenvectors", "asDiagonal", "transpose", "transpose", "y"]
    rep.check(shape_ok, "R6.1", "solution", "x.y = -(V diag V^T) A^T b", "the solution is computed as %s * %s (required -V diag(inv) V^T A^T b)" % (coeff, [fname(t) for t in fac]),
              f.loc(sol[0]["node"]), sample=True)
    if shape_ok:
        V, Dg, Vt, At, bv = fac
        Am = At.args[0]
        E = V.args[0].args[0] if fname(V.args[0]) == "eigensolver" else None
        rep.check(Vt.args[0] == V, "R6.1", "inverse", "inverse = V diag V^T", "the inverse is assembled with %s on the right of the diagonal, not the transpose of the eigenvectors on its left" % str(Vt)[:80],
                  f.loc(sol[0]["node"]), sample=True)
        rep.check(E is not None and nc_is_zero(E - At * Am), "R6.1", "ATA", "eigen-decomposition of A^T A",
                  "the eigen-decomposition is taken of %s, not of A^T A with the A that multiplies b" % str(E)[:160], f.loc(), sample=True)
        rep.check(E is not None and fname(V.args[0]) == "eigensolver", "R6.1", "eigensolver", "SelfAdjointEigenSolver of ATA", "the eigenvectors do not come from an eigen solver", f.loc())
        rep.check(fname(Am) == "imcio_read_matrix" and '"gmcfile"' in str(Am), "R6.1", "input-A", "A read from the gmc file", "A is %s, not the matrix read from the gmc file" % str(Am)[:100], f.loc())
        loads = [e for e in fo.events if e["kind"] == "call" and e["callee"].endswith("Table::Load")]
        rep.check(len(loads) == 1 and loads[0]["obj"] == bv.args[0] and '"imcfile"' in str(loads[0]["args"][0]), "R6.1", "input-b", "b = y column of the table loaded from the imc file",
                  "the right-hand side %s is not the y column of the table loaded from the imc file" % str(bv)[:80], f.loc())
        D = fo.vecs.get(str(Dg.args[0]))
        lam = Fn("at")(sp.Function("eigenvalues", commutative=False)(V.args[0]), K)
        ok, got = False, "the diagonal is not an element-wise function of the eigenvalues"
        if D is not None and D.e.has(lam):
            conds = getattr(fo, "conds", {})
            brs = [a_ for a_ in ites(D.e)]
            nz = [x for a_ in brs for x in a_.args[1:] if x != 0 and not ites(x)]
            reg = sp.cancel(1 / nz[0] - lam) if nz else None
            got = "%s" % str(D.e)[:240]
            if reg is not None and not reg.has(lam) and '"regularization"' in str(reg):
                ok = True
                Q = sp.Rational
                for t, want in ((Q(0), 0), (Q(5, 10**13), 0), (Q(-5, 10**13), 0), (Q(1, 10**12), 10**12), (Q(2), Q(1, 2)), (Q(-2), Q(-1, 2))):
                    sub = {lam: t - reg}
                    v = resolve_ite(D.e, lambda cs: decide(subst(conds.get(cs), sub), sub) if cs in conds else None)
                    v = sp.simplify(v.xreplace(sub)) if hasattr(v, "xreplace") else v
                    if ites(v) or sp.simplify(v - want) != 0:
                        ok = False
                        got = "for lambda + reg = %s the inverse eigenvalue is %s (required %s); diag = %s" % (t, v, want, str(D.e)[:160])
                        break
        rep.check(ok, "R6.1", "inverse-spectrum", "inv_i = 1/(lambda_i + reg) unless |lambda_i + reg| < 1e-12 (then 0: pseudo-inverse)", "regularised inverse spectrum: " + got,
                  f.loc(sol[0]["node"]), sample=True)

    # ---------------------------------------------------------------- R6.2 (shared)
    C08.check_imcio(AliasRep(rep, {"R8.5": "R6.2"}), F)

    # ---------------------------------------------------------------- R6.3
    pb = [e for e in fo.events if e["kind"] == "call" and e["callee"].endswith("Table::push_back")]
    sv = [e for e in fo.events if e["kind"] == "call" and e["callee"].endswith("Table::Save")]
    ok, why = False, "expected one push_back into the result table"
    if len(pb) == 1 and len(pb[0]["args"]) >= 2:
        a0, a1 = pb[0]["args"][0], pb[0]["args"][1]
        tn = unwrap(sol[0]["target_node"])
        tx = fo.final_env.get(unwrap(tn["obj"]).get("decl")) if tn.get("obj") is not None else None
        ok = fname(a0) == "x" and fname(a1) == "y" and len(a0.args) == 2 and len(a1.args) == 2 and a0.args[0] == a1.args[0] == tx and a0.args[1] == a1.args[1]
        why = "rows are built from %s, %s" % (str(a0)[:60], str(a1)[:60])
        if ok:
            idx = a0.args[1]
            rsyms = [x for x in idx.free_symbols if re.match(r"^\w+@L\d+$", str(x))]
            ok = len(rsyms) == 1 and sp.expand(idx - rsyms[0]) == -1
            why = "solution rows are addressed with %s, not (1-based index) - 1" % idx
            if ok:
                loops = [a_ for a_ in f.ancestors(pb[0]["node"]) if a_.get("k") == "rangefor"]
                rng = str(fo.range_values.get(loops[0]["var"]["decl"])) if loops else ""
                outer = str(fo.range_values.get(loops[1]["var"]["decl"])) if len(loops) > 1 else ""
                ok = ".second" in rng and "imcio_read_index" in outer and '"idxfile"' in outer
                why = "the rows are not taken from the index ranges of the index file (inner range %s, outer %s)" % (rng[:60], outer[:80])
    rep.check(ok, "R6.3", "index-split", "table rows x(r-1), y(r-1) for r in the 1-based range", "csg_imc_solve: " + why, f.loc(pb[0]["node"] if pb else None), sample=True)
    oks = len(sv) == 1 and len(pb) == 1 and sv[0]["obj"] == pb[0]["obj"] and ".first" in str(sv[0]["args"][0]) and '".dpot.imc"' in str(sv[0]["args"][0])
    rep.check(oks, "R6.3", "file-name", "saved as <name>.dpot.imc", "result table saved as %s" % (str(sv[0]["args"][0])[:80] if sv else "?"), f.loc())

    # ---------------------------------------------------------------- R6.4
    FM = C + "CGForceMatching::" if F.find(C + "CGForceMatching::EvalBonded") else "CGForceMatching::"
    off, nb, fc = S("least_sq_offset_"), S("nbeads_"), S("frame_counter_")
    total_rows = 0
    for fn, kind in (("EvalBonded", "bonded"), ("EvalNonbonded", "pair"), ("EvalNonbonded_Threebody", "triple")):
        g = F.one(FM + fn)
        rep.analysed(g)
        fo_g = Fold(g, inline="internal", record_calls=r"CubicSpline::AddToFitMatrix$").run()
        calls = [e for e in fo_g.events if e["kind"] == "call"]
        rep.floor("R6.4", len(calls), {"bonded": 3, "pair": 6, "triple": 9}[kind], "AddToFitMatrix calls in " + fn)
        per_atom = {}
        absc = set()
        for e in calls:
            a = e["args"]
            if len(a) < 5 or isinstance(a[2], (tuple, sp.Matrix)) or isinstance(a[4], (tuple, sp.Matrix)):
                rep.broken("R6.4", "%s: AddToFitMatrix arguments do not fold to scalars" % fn)
                continue
            row, scale = a[2], a[4]
            # which component: the scale argument is written as +-<vector>.x() / .y() / .z() at the call (in the kernel or in its helper)
            txt = nows(show(e["node"]["args"][4]))
            mc = re.search(r"\.([xyz])\(\)\)?$", txt)
            comps = {mc.group(1)} if mc else set()
            if not comps and hasattr(scale, "free_symbols"):
                # value-based: the folded scale is odd in exactly one Cartesian component of the vectors it is built from (g.x, r.x/|r|, -g[0] through a helper ...)
                for c_ in "xyz":
                    sy_ = [x_ for x_ in scale.free_symbols if str(x_).endswith("." + c_)]
                    if sy_ and sp.simplify(scale.xreplace({x_: -x_ for x_ in sy_}) + scale) == 0:
                        comps.add(c_)
            key = "%s|row|%s|%s#%d" % (fn, str(sp.expand(row))[-40:], txt[-24:], len(per_atom) + total_rows)
            if len(comps) != 1:
                rep.broken("R6.4", "%s: the scale argument %s is not one component of a vector" % (fn, str(scale)[:80]))
                continue
            ci = "xyz".index(comps.pop())
            rest = sp.expand(row - (off + 3 * nb * fc + ci * nb))
            ok = not rest.has(off) and not rest.has(nb) and not rest.has(fc) and re.search(r"getId\(|getBeadId\(", str(rest)) is not None and str(a[0]) == "A_"
            total_rows += 1
            rep.check(ok, "R6.4", key, "row = off + 3 nbeads frame + %d nbeads + %s for component %s" % (ci, rest, "xyz"[ci]),
                      "%s: the %s component (%s) is added to row %s; required least_sq_offset_ + 3*nbeads_*frame_counter_ + %d*nbeads_ + <atom> "
                      "(rows of A_ and b_ no longer describe the same force component)" % (fn, "xyz"[ci], str(scale)[:60], str(sp.expand(row))[:120], ci), g.loc(e["node"]), sample=(ci == 1 and kind == "pair"))
            if ok:
                per_atom.setdefault(str(rest), []).append((ci, scale))
            absc.add(str(a[1]))
        # signs and gradient sources
        if kind == "pair":
            pn = [str(x) for x in absc]
            pr = re.match(r"^dist\((.*)\)$", pn[0]) if len(pn) == 1 else None
            ok = pr is not None
            signs = {}
            if ok:
                pv = pr.group(1)
                R = sp.Matrix([S("r(%s).%s" % (pv, c_)) for c_ in "xyz"])
                nrm = sp.sqrt(sum(x * x for x in R))
                for at, lst in per_atom.items():
                    for ci, sc_ in lst:
                        q = sp.simplify(sc_ * nrm / R[ci])
                        signs.setdefault(at, set()).add(str(q))
                first = [at for at in signs if "first(%s)" % pv in at]
                second = [at for at in signs if "second(%s)" % pv in at]
                ok = len(first) == 1 and len(second) == 1 and signs[first[0]] == {"1"} and signs[second[0]] == {"-1"} and len(per_atom[first[0]]) == 3 and len(per_atom[second[0]]) == 3
            rep.check(ok, "R6.4", fn + "|newton3", "+g on the first bead, -g on the second (g = r/|r| of the pair)",
                      "%s: pair force coefficients relative to r/|r| are %s (required +1 for first(), -1 for second(), all three components)" % (fn, signs), g.loc(), sample=True)
            rep.check(pr is not None, "R6.4", fn + "|abscissa", "spline argument = pair distance", "spline argument is %s" % sorted(absc), g.loc())
        if kind == "bonded":
            ok = len(absc) == 1 and re.match(r"^EvaluateVar\(", list(absc)[0]) is not None and len(per_atom) == 1
            if ok:
                at, lst = list(per_atom.items())[0]
                mloop = re.search(r"getBeadId\((.*), (.*)\)$", at)
                ok = mloop is not None and len(lst) == 3
                if ok:
                    inter_, loop_ = mloop.groups()
                    for ci, sc_ in lst:
                        gsyms = [x for x in sc_.free_symbols if nows(str(x)).startswith("Grad(%s" % nows(inter_)) and nows(str(x)).endswith(",%s).%s" % (nows(loop_), "xyz"[ci]))]
                        ok = ok and len(gsyms) == 1 and sp.simplify(sc_ + gsyms[0]) == 0
                    ok = ok and list(absc)[0].startswith("EvaluateVar(%s" % inter_)
            rep.check(ok, "R6.4", fn + "|gradient", "rows of bead 'loop' use -Grad(conf, loop) and the interaction's own value",
                      "%s: scales %s, abscissa %s" % (fn, {k_: [str(x[1])[:50] for x in v_] for k_, v_ in per_atom.items()}, sorted(absc)), g.loc(), sample=True)
    ec = F.one(FM + "EvalConfiguration")
    rep.analysed(ec)
    foe = Fold(ec, opaque_types=r"Eigen::Matrix<double, -1", record_calls=r"::setZero$|FmatchAssignSmoothCondsToMatrix$|FmatchAccumulateData$|WriteOutFiles$").run()
    bst = [e for e in foe.events if e["kind"] == "store" and e["target"].startswith("b_(")]
    rep.floor("R6.4", len(bst), 3, "stores to b_")
    for e in bst:
        t = unwrap(e["target_node"])
        row = Fold(ec).ev(t["args"][1], {})
        m = re.search(r"getF\(.*\)\.([xyz])$", str(e["value"]))
        ci = "xyz".index(m.group(1)) if m else -1
        rest = sp.expand(row - (off + 3 * nb * fc + ci * nb))
        okb = ci >= 0 and str(rest) == "iatom"
        rep.check(okb, "R6.4", "b|row|%s" % (m.group(1) if m else "?"), "b_ row of component %s matches the A_ rows" % (m.group(1) if m else "?"),
                  "EvalConfiguration stores %s in row %s of b_ (required off + 3 nbeads frame + c nbeads + atom, like the rows of A_)" % (e["value"], nows(show(t["args"][1]))), ec.loc(e["node"]), sample=True)

    # ---------------------------------------------------------------- R6.5
    blk = [e for e in foe.events if any("mod(frame_counter_ + 1, nframes_) == 0" in g_ for g_ in guard_strs(foe, e["guards"]))]
    names = []
    for e in blk:
        if e["kind"] == "store":
            names.append(("store", e["target"], str(e["value"]), guard_strs(foe, e["guards"])[-1]))
        else:
            names.append(("call", e["callee"].split("::")[-1], str(e["obj"]) + "|" + ",".join(str(a) for a in e["args"]), guard_strs(foe, e["guards"])[-1]))
    reset_fc = any(k == "store" and t == "frame_counter_" and v == "0" for k, t, v, g_ in names)
    constr = [(k, t, v) for k, t, v, g_ in names if g_ == "constr_least_sq_"]
    simple = [(k, t, v) for k, t, v, g_ in names if g_ == "!constr_least_sq_"]
    okc = ("call", "setZero", "A_|") in constr and ("call", "setZero", "b_|") in constr and any(k == "call" and t == "FmatchAssignSmoothCondsToMatrix" and "B_constr_" in v for k, t, v in constr)
    oks = ("call", "setZero", "b_|") in simple and any(k == "call" and t == "FmatchAssignSmoothCondsToMatrix" and v.endswith("A_") for k, t, v in simple)
    rep.check(reset_fc, "R6.5", "frame-counter", "frame counter restarts at the block boundary", "frame_counter_ is not reset to 0 at the block boundary", ec.loc(), sample=True)
    rep.check(okc, "R6.5", "reset|constrained", "constrained LS: A_ and b_ zeroed, constraints re-assigned", "constrained least squares: block reset is %s" % constr, ec.loc(), sample=True)
    rep.check(oks, "R6.5", "reset|simple", "simple LS: constraints re-assigned into A_ (which clears it), b_ zeroed", "simple least squares: block reset is %s (b_ or A_ keeps the previous block)" % simple, ec.loc(), sample=True)
    fa = F.one(FM + "FmatchAssignSmoothCondsToMatrix")
    first = unwrap(fa.body["stmts"][0]) if fa.body.get("stmts") else {}
    rep.check(first.get("k") == "mcall" and (first.get("callee") or "").endswith("::setZero") and show(first.get("obj")) == fa.j["params"][0]["name"], "R6.5", "assign-clears",
              "FmatchAssignSmoothCondsToMatrix zeroes the matrix first", "FmatchAssignSmoothCondsToMatrix does not clear the matrix before assigning the smoothing conditions", fa.loc())
    order = [t for k, t, v, g_ in names if k == "call" and t in ("FmatchAccumulateData", "WriteOutFiles")]
    zero_pos = [i for i, (k, t, v, g_) in enumerate(names) if (k == "call" and t in ("setZero", "FmatchAssignSmoothCondsToMatrix"))]
    acc_pos = [i for i, (k, t, v, g_) in enumerate(names) if k == "call" and t == "FmatchAccumulateData"]
    rep.check(order[:1] == ["FmatchAccumulateData"] and bool(acc_pos) and all(z > acc_pos[0] for z in zero_pos), "R6.5", "solve-before-reset", "block solved before its data is cleared",
              "the block is cleared before FmatchAccumulateData solves it", ec.loc())

    # ---------------------------------------------------------------- R6.6
    q = F.one(T + "linalg_constrained_qrsolve")
    rep.analysed(q)
    A_, b_, c_ = [p["name"] for p in q.j["params"]]
    fq = Fold(q).run()
    Av, bv, cv = S(A_), S(b_), S(c_)
    nvar, ncon = Fn("cols")(Av), Fn("rows")(cv)
    Qv = Fn("householderQ")(Fn("transpose")(cv))
    sts = [e for e in fq.events if e["kind"] == "store"]
    tl = [e for e in sts if unwrap(e.get("target_node") or {}).get("k") == "mcall" and (unwrap(e["target_node"]).get("callee") or "").endswith("::tail") and not e["guards"]]
    ok = len(sts) == 1 and len(tl) == 1 and len(tl[0].get("idx") or []) == 1
    rep.check(ok, "R6.6", "assemble", "result = [0; z]: one assignment, into the tail of the result vector", "the solution vector is not assembled as [0; z] (head must stay zero so that the constraints hold exactly): stores %s" % [e["target"] for e in sts],
              q.loc(), sample=True)
    if ok:
        e = tl[0]
        dof = e["idx"][0]
        rep.check(sp.simplify(dof - (nvar - ncon)) == 0, "R6.6", "dims|deg_of_freedom", "free part has cols(A) - rows(constr) entries", "linalg_constrained_qrsolve: the free part has %s entries (required cols(%s) - rows(%s))" % (dof, A_, c_), q.loc())
        want_z = Fn("solve")(Fn("rightCols")(Av * Qv, nvar - ncon), bv)
        val = e["value"]
        rep.check(not isinstance(val, (tuple, sp.Matrix)) and sp.simplify(val - want_z) == 0, "R6.6", "shape|A2", "z = QR(rightCols(A Q, dof)).solve(b) with Q = householderQ(constr^T)",
                  "linalg_constrained_qrsolve solves %s for the free part (required the least-squares solution of rightCols(A*Q, dof) z = b with Q from the QR decomposition of constr^T)" % str(val)[:200], q.loc(), sample=True)
        rdecl = unwrap(unwrap(e["target_node"]).get("obj") or {}).get("decl")
        zero0 = str(e.get("target_val") or "").startswith(str(Fn("Zero")(nvar)))
        rep.check(rdecl is not None and zero0, "R6.6", "shape|result", "result starts as the zero vector of cols(A) entries", "linalg_constrained_qrsolve: the assembled vector starts as %s" % e.get("target_val"), q.loc())
        rets = [x for x in fq.events if x["kind"] == "return"]
        okr = len(rets) == 1 and not rets[0]["guards"] and not isinstance(rets[0]["value"], (tuple, sp.Matrix)) and sp.simplify(rets[0]["value"] - Qv * Fn("Zero")(nvar)) == 0 and \
            any(x.get("k") == "ref" and x.get("decl") == rdecl for x in walk(rets[0]["node"]))
        rep.check(okr, "R6.6", "back-transform", "return Q result", "linalg_constrained_qrsolve returns %s (required Q * [0; z] with the Q of constr^T)" % (str(rets[0]["value"])[:160] if rets else None), q.loc(), sample=True)
    # ---------------------------------------------------------------- R6.8 (shared with C07)
    import os
    from rules import C07
    rep.rule("R6.8", "the bonded rows of the force-matching matrix are Interaction::Grad: for bond, angle and dihedral the gradient with respect to every "
                     "bead equals the derivative of EvaluateVar and the gradients sum to zero (shared with C07 R7.1); a wrong gradient makes bonded force functions "
                     "that lie in the spline space irreproducible")
    hostI = os.path.join(front.VERIF, "hosts", "csg_interaction.cc")
    FI = Facts(front.export([hostI]))
    rep.units = list(rep.units) + [hostI]
    ebs = [f_ for f_ in F.funcs if f_.qname.endswith("CGForceMatching::EvalBonded")]
    eb = ebs[0] if len(ebs) == 1 else None
    if eb is None or not any(n.get("k") == "mcall" and (n.get("callee") or "").endswith("Interaction::Grad") for n in eb.walk()):
        rep.broken("R6.8", "CGForceMatching::EvalBonded no longer takes its matrix rows from Interaction::Grad")
    else:
        rep.analysed(eb)
        for cls, nb in (("IBond", 2), ("IAngle", 3), ("IDihedral", 4)):
            try:
                C07.check_interaction(AliasRep(rep, {"R7.1": "R6.8", "R7.2": "R6.8"}), FI, cls, nb, symbolic=(cls != "IDihedral"))
            except AnalysisBroken as e_:
                if "reads positions through" in str(e_):
                    # value and gradient must both use the minimum-image connection: a raw position difference gives a wrong direction for bonds across the box
                    rep.violation("R6.8", "%s|positions-only-through-getDist" % cls, str(e_) + " (the gradient rows of the fit matrix point along the raw position "
                                  "difference while the value uses the minimum image: wrong for a bonded pair on opposite sides of the periodic box)", None)
                else:
                    raise
    # ---------------------------------------------------------------- R6.7 (shared with C12)
    from rules import splinelib
    rep.rule("R6.7", "the spline space used by csg_fmatch: cubic basis interpolates, the constraint rows of AddBCToFitMatrix are the C1 "
                     "conditions with the correct one-sided slope coefficients (shared with C12 R12.2)")
    splinelib.check_cubic_interpolation(F, rep, "R6.7")
    rep.assumptions += ["Eigen's decompositions are correct; accuracy on data and spline-space representability are not decided",
                        "why R6.6 implies exact constraint satisfaction: constr^T = Q R with R upper-trapezoidal, so constr * Q [0; z] = R^T [0; z] restricted to the first NoConstrains rows = 0"]


class AliasRep:
    """forwards to a Report, renaming rule ids (shared rule bodies)"""

    def __init__(self, rep, ren):
        self.rep, self.ren = rep, ren

    def __getattr__(self, k):
        return getattr(self.rep, k)

    def check(self, cond, rule, *a, **kw):
        return self.rep.check(cond, self.ren.get(rule, rule), *a, **kw)

    def holds(self, rule, *a, **kw):
        return self.rep.holds(self.ren.get(rule, rule), *a, **kw)

    def violation(self, rule, *a, **kw):
        return self.rep.violation(self.ren.get(rule, rule), *a, **kw)

    def broken(self, rule, *a, **kw):
        return self.rep.broken(self.ren.get(rule, rule), *a, **kw)

    def floor(self, rule, *a, **kw):
        return self.rep.floor(self.ren.get(rule, rule), *a, **kw)
