"""C11 - option handling: pipeline order (PATH), keyword/guard tables (AST), lint of every shipped option description
against tables extracted from the validator (DATA), XML escaping on output (TAINT), bool literals."""
import glob, os, re
import xml.etree.ElementTree as ET
from vsa import front
from vsa.facts import Facts, unwrap, show, walk, lit_value
from vsa.front import AnalysisBroken
from vsa.alg import Fold, S, guard_strs
import sympy as sp
from sympy.core.function import AppliedUndef
from vsa.cfg import CFG
from vsa.cases import decide, executes, table_mismatch

LEVEL = "other"
T = "votca::tools::"
OH = T + "OptionsHandler::"


def nows(s):
    return re.sub(r"\s+", "", s)


def strings_in(n):
    return [x["v"] for x in walk(n) if x.get("k") == "str"]


def run(rep, tier):
    rep.explanation = ("PATH: every path through ProcessUserInput runs the seven pipeline stages in the required order; AST: the "
                       "guards of CheckUserInput / CheckRequired / RemoveOptional / InjectDefaultsAsValues use the reserved "
                       "keywords consistently and the list branch copies pristine defaults; DATA: all shipped option XML files "
                       "are linted against the type heads and choice syntax extracted from the validator's own code; TAINT: "
                       "values and attribute values reach the XML stream only through an escaping function; bool literals.")
    rep.rule("R11.1", "ProcessUserInput: LoadDefaults < CheckUserInput < OverwriteDefaultsWithUserInput < {RemoveOptional, CheckRequired} and "
                      "{Overwrite, InjectDefaultsAsValues} < RecursivelyCheckOptions on every path; the processed tree is returned")
    rep.rule("R11.2", "guards: undeclared child throws unless an enclosing node is 'unchecked'; REQUIRED without 'injected' throws; exactly "
                      "OPTIONAL and not injected children are removed; defaults are injected except reserved keywords and injected nodes")
    rep.rule("R11.3", "every shipped option description: links resolve, choices parse with the validator's own type heads, every non-reserved "
                      "default satisfies its own choices, list sections have pairwise distinct child tags")
    rep.rule("R11.4", "PrintNodeXML: node values and attribute values reach the stream only through an XML-escaping function")
    rep.rule("R11.9", "typed access to numbers: the arithmetic convert_impl converts the whole string (boost::lexical_cast through tools::lexical_cast); no prefix parser "
                      "(std::stod/stoi/.., strtod/strtol, atof/atoi, sscanf) whose end position is not checked is called on the value - such a parser accepts '0,5', '1.5nm', '3.0.1'")
    rep.rule("R11.5", "typed access: bool accepts exactly true/false (case-insensitive), 1, 0; everything else throws")
    rep.rule("R11.6", "list merge: the default element copied for additional user elements is read before any element of that tag is "
                      "merged with user input (user values of one list element never leak into the next)")
    rep.rule("R11.7", "XML reader: the character-data callback appends every (text, length) chunk to the current node unconditionally; the "
                      "start callback adds the element under the current node with every attribute and makes it current, the end callback "
                      "pops; LoadFromXML registers exactly these callbacks (trimming happens only when values are read)")
    host = os.path.join(front.VERIF, "hosts", "tools_tokenizer.cc")
    units = [front.repo("tools/src/libtools/optionshandler.cc"), front.repo("tools/src/libtools/property.cc"), host]
    F = Facts(front.export(units))
    rep.units = units

    # ---------------------------------------------------------------- R11.1
    f = F.one(OH + "ProcessUserInput")
    rep.analysed(f)
    g = CFG(f)
    stages = ["LoadDefaults", "CheckUserInput", "OverwriteDefaultsWithUserInput", "RemoveOptional", "CheckRequired", "InjectDefaultsAsValues", "RecursivelyCheckOptions"]
    calls = {}
    for n in f.walk():
        if n.get("k") == "mcall" and (n.get("callee") or "").startswith(OH) and n["callee"].split("::")[-1] in stages:
            calls.setdefault(n["callee"].split("::")[-1], []).append(n)
    for s_ in stages:
        ok = len(calls.get(s_, [])) == 1 and all(g.dominates_block(g.where[calls[s_][0]["id"]][0], b) for b in g.exit_blocks())
        rep.check(ok, "R11.1", "stage|" + s_, "%s runs once on every path" % s_, "ProcessUserInput does not run %s exactly once on every path" % s_, f.loc(), sample=(s_ == "CheckRequired"))
    order = [("LoadDefaults", "CheckUserInput"), ("CheckUserInput", "OverwriteDefaultsWithUserInput"), ("OverwriteDefaultsWithUserInput", "RemoveOptional"),
             ("OverwriteDefaultsWithUserInput", "CheckRequired"), ("OverwriteDefaultsWithUserInput", "RecursivelyCheckOptions"),
             ("InjectDefaultsAsValues", "RecursivelyCheckOptions"), ("OverwriteDefaultsWithUserInput", "InjectDefaultsAsValues"),
             ("RemoveOptional", "InjectDefaultsAsValues"), ("CheckRequired", "InjectDefaultsAsValues"),
             # an OPTIONAL section the user left out is pruned before REQUIRED is enforced: its REQUIRED leaves are not the user's obligation
             ("RemoveOptional", "CheckRequired")]
    for a, b in order:
        if len(calls.get(a, [])) == 1 and len(calls.get(b, [])) == 1:
            rep.check(g.dominates(calls[a][0]["id"], calls[b][0]["id"]) and calls[a][0]["id"] != calls[b][0]["id"], "R11.1", "order|%s<%s" % (a, b), "%s before %s" % (a, b),
                      "ProcessUserInput runs %s before %s (e.g. REQUIRED is checked before user input is merged, or defaults are validated before they are injected)" % (b, a), f.loc(), sample=(b == "CheckRequired"))
    # value-based: every stage receives the tree LoadDefaults returned (or its "options" child), the user tree enters only the two stages that read it, and that tree is returned
    fpu = Fold(f, inline=False, record_calls=r"OptionsHandler::\w+$").run()
    sc = {e["callee"].split("::")[-1]: e for e in fpu.events if e["kind"] == "call" and e["callee"].split("::")[-1] in stages}
    okt = "LoadDefaults" in sc and all(s_ in sc for s_ in stages)
    if okt:
        tree_v = sc["LoadDefaults"]["value"]
        un = f.j["params"][0]["name"]
        is_tree = lambda v: str(v) == str(tree_v) or re.match(r'^get\(%s, (ctor\()?"options"' % re.escape(str(tree_v)), str(v)) is not None
        is_user = lambda v: str(v) == un or re.match(r'^get\(%s, (ctor\()?"options"' % re.escape(un), str(v)) is not None
        okt = all(is_tree(sc[s_]["args"][-1]) for s_ in stages[1:]) and not any(sc[s_]["guards"] for s_ in stages)
        okt = okt and is_user(sc["CheckUserInput"]["args"][0]) and is_user(sc["OverwriteDefaultsWithUserInput"]["args"][0])
        ov_a = sc["OverwriteDefaultsWithUserInput"]["args"]
        okt = okt and ('"options"' in str(ov_a[0])) == ('"options"' in str(ov_a[1]))        # both at the same level of their trees
        rets_ = [e for e in fpu.events if e["kind"] == "return"]
        okt = okt and len(rets_) == 1 and str(rets_[0]["value"]) == str(tree_v)
    rep.check(okt, "R11.1", "same-tree", "all stages work on the loaded tree and it is returned", "ProcessUserInput stages do not all operate on (and return) the loaded defaults tree", f.loc())

    # ---------------------------------------------------------------- R11.2
    cu = F.one(OH + "CheckUserInput")
    rep.analysed(cu)
    fo = Fold(cu, record_calls=r"CheckUserInput$").run()
    thr = [guard_strs(fo, t) for t in fo.throws]
    ok = len(thr) == 1 and any("hasAttribute(user_input" in x and "unchecked" in x and x.startswith("!") for x in thr[0]) and any(x.startswith("!") and "exists(defaults" in x and "name(child" in x for x in thr[0])
    rec = [e for e in fo.events if e["kind"] == "call"]
    ok = ok and len(rec) == 1 and "get(defaults" in str(rec[0]["args"][1]) and "name(child" in str(rec[0]["args"][1])
    rep.check(ok, "R11.2", "undeclared-rejected", "child not declared in the defaults -> throw, unless the node is 'unchecked'; declared children are checked recursively",
              "CheckUserInput throws under %s and recurses with %s" % (thr, [str(e["args"]) for e in rec]), cu.loc(), sample=True)
    kw = F.record(T + "OptionsHandler")
    res = [fld for fld in kw["fields"] if fld["name"] == "reserved_keywords_"]
    reserved = sorted(strings_in(res[0].get("init"))) if res and res[0].get("init") else []
    rep.check(reserved == ["OPTIONAL", "REQUIRED"], "R11.2", "reserved-keywords", "reserved keywords = {OPTIONAL, REQUIRED}", "reserved_keywords_ is %s" % reserved, "%s:%s" % (kw["file"], kw["line"]))
    # truth tables over the predicates A = has a 'default', I = 'injected', E = default equals the keyword, K = default is a reserved
    # keyword, C = has children; the guards are folded (local helpers inlined) and decided for all assignments
    def prop_oracle(keyword):
        def orc(leaf):
            s_ = str(leaf)
            if isinstance(leaf, tuple):
                if leaf[0] in ("noneof", "anyof", "allof") and len(leaf) == 3:
                    from vsa.alg import ALG_RANGES
                    c_ = leaf[2]
                    if "reserved_keywords_" in str(ALG_RANGES.get(leaf[1])) and isinstance(c_, tuple) and len(c_) == 3 and c_[0] in ("==", "!=") and "elem@%s" % leaf[1] in (str(c_[1]), str(c_[2])):
                        # some keyword equals the value  <=>  K
                        if c_[0] == "==" and leaf[0] in ("noneof", "anyof"):
                            return ("K", leaf[0] == "anyof")
                        if c_[0] == "!=" and leaf[0] == "allof":
                            return ("K", False)
                    return None
                if leaf[0] in ("==", "!=") and len(leaf) == 3:
                    if "getAttribute" in s_ and '"default"' in s_ and keyword is not None and '"%s"' % keyword in s_:
                        return ("E", leaf[0] == "==")
                    if "find(" in s_ and "reserved_keywords_" in s_ and "end(" in s_:
                        return ("K", leaf[0] == "!=")
                return None
            if "hasAttribute(" in s_ and '"default"' in s_:
                return ("A", True)
            if "hasAttribute(" in s_ and '"injected"' in s_:
                return ("I", True)
            if s_.startswith("HasChildren("):
                return ("C", True)
            if s_.startswith("none_of(") and "reserved_keywords_" in s_:
                return ("K", False)
            if s_.startswith("any_of(") and "reserved_keywords_" in s_:
                return ("K", True)
            if s_.startswith("count(") and "reserved_keywords_" in s_:
                return ("K", True)
            return None
        return orc

    def fmt_row(m):
        a_, g_, w_ = m
        return "for %s it %s (required: %s)" % (", ".join("%s=%s" % kv for kv in sorted(a_.items())),
                                                "is undecided" if g_ is None else ("happens" if g_ else "does not happen"), "happens" if w_ else "does not happen")
    cr = F.one(OH + "CheckRequired")
    rep.analysed(cr)
    fc = Fold(cr, record_calls=r"CheckRequired$").run()
    thr = [e for e in fc.events if e["kind"] == "throw"]
    rec_calls = [e for e in fc.events if e["kind"] == "call"]
    if len(thr) != 1:
        rep.broken("R11.2", "CheckRequired: expected one throw, found %d" % len(thr))
    else:
        mm = table_mismatch(["A", "I", "E"], lambda a_: executes(thr[0], None, a_, prop_oracle("REQUIRED")), lambda a_: a_["A"] and a_["E"] and not a_["I"])
        rep.check(mm is None and len(rec_calls) == 1, "R11.2", "required", "default == REQUIRED and not injected -> throw (recursively for all nodes)",
                  "CheckRequired: the throw %s" % (fmt_row(mm) if mm else "is fine but the recursion into the children is missing or duplicated"), cr.loc(thr[0]["node"]), sample=True)
    ro = F.one(OH + "RemoveOptional")
    rep.analysed(ro)
    lam = [n for n in ro.walk() if n.get("k") == "lambda"]
    dc = [n for n in ro.walk() if n.get("k") == "mcall" and (n.get("callee") or "").endswith("Property::deleteChildren")]
    if len(lam) != 1 or len(dc) != 1 or len(lam[0].get("params", [])) != 1:
        rep.broken("R11.2", "RemoveOptional: expected one deleteChildren(predicate) call with a lambda predicate")
    else:
        fr = Fold(ro)
        pv = fr.eval_lambda(lam[0], [S(lam[0]["params"][0]["name"] or "p")])
        mm = table_mismatch(["A", "I", "E"], lambda a_: decide(pv, None, a_, prop_oracle("OPTIONAL")), lambda a_: a_["A"] and a_["E"] and not a_["I"])
        rep.check(mm is None, "R11.2", "optional", "children with default == OPTIONAL and not injected are deleted",
                  "RemoveOptional: deletion %s" % (fmt_row(mm) if mm else ""), ro.loc(dc[0]), sample=True)
    ij = F.one(OH + "InjectDefaultsAsValues")
    rep.analysed(ij)
    fj = Fold(ij, record_calls=r"InjectDefaultsAsValues$").run()
    asg = [e for e in fj.events if e["kind"] == "store" and re.sub(r"\s", "", e["target"]).endswith(".value()")]
    if len(asg) != 1:
        rep.broken("R11.2", "InjectDefaultsAsValues: expected one assignment to <option>.value(), found %d" % len(asg))
    else:
        mm = table_mismatch(["C", "A", "I", "K"], lambda a_: executes(asg[0], None, a_, prop_oracle(None)),
                            lambda a_: (not a_["C"]) and a_["A"] and not a_["I"] and not a_["K"])
        val_ok = "getAttribute" in str(asg[0]["value"]) and '"default"' in str(asg[0]["value"])
        rep.check(mm is None and val_ok, "R11.2", "inject", "leaf value := default unless injected or a reserved keyword",
                  "InjectDefaultsAsValues: the assignment of the default %s" % (fmt_row(mm) if mm else "stores %s, not the 'default' attribute" % str(asg[0]["value"])[:120]),
                  ij.loc(asg[0]["node"]), sample=True)

    # ---------------------------------------------------------------- R11.6
    ow = F.one(OH + "OverwriteDefaultsWithUserInput")
    rep.analysed(ow)
    g2 = CFG(ow)
    rec = [n for n in ow.walk() if n.get("k") == "mcall" and n.get("callee") == OH + "OverwriteDefaultsWithUserInput"]
    un_, dn_ = [p_["name"] for p_ in ow.j["params"][:2]]
    # the loop over the distinct tags of a list: the range-for that encloses both an add to the defaults and a recursive merge
    alladds = [n for n in ow.walk() if n.get("k") == "mcall" and (n.get("callee") or "").endswith("Property::add") and show(n["obj"]) == dn_]
    tagloops = [n for n in ow.walk() if n.get("k") == "rangefor" and any(any(a["id"] == n["id"] for a in ow.ancestors(ad_)) for ad_ in alladds)
                and any(any(a["id"] == n["id"] for a in ow.ancestors(r_)) for r_ in rec)]
    tagloops = tagloops[:1]
    adds = [n for n in alladds if any(a["id"] == (tagloops[0]["id"] if tagloops else -1) for a in ow.ancestors(n))]
    ok, why = False, "list branch not recognised"
    if tagloops and adds and rec:
        # the loop head block of the tag loop: block whose terminator is this CXXForRangeStmt
        heads = [b for b in g2.blocks if (g2.term(b) or {}).get("stmt") == tagloops[0]["id"]]
        rec_in = [r_ for r_ in rec if any(a["id"] == tagloops[0]["id"] for a in ow.ancestors(r_))]
        ok, why = True, ""
        for ad in adds:
            src = unwrap(ad["args"][0])
            # resolve the added value to its defining read of `defaults`
            reads = [x for x in walk(src) if x.get("k") == "mcall" and (x.get("callee") or "").endswith(("Property::get", "Property::Select")) and show(x["obj"]) == dn_]
            if src.get("k") == "ref" and src.get("decl") in ow.decls and ow.decls[src["decl"]].get("init") is not None:
                reads += [x for x in walk(ow.decls[src["decl"]]["init"]) if x.get("k") == "mcall" and (x.get("callee") or "").endswith(("Property::get", "Property::Select")) and show(x["obj"]) == dn_]
            if not reads:
                ok, why = False, "the element added for extra user entries (%s) is not read from the defaults" % show(src)
                break
            for rd in reads:
                rb = g2.where[rd["id"]][0]
                for r_ in rec_in:
                    if rb in g2.reaches([g2.where[r_["id"]][0]], avoid=set(heads)) and not (g2.where[r_["id"]][0] == rb and g2.where[rd["id"]][1] < g2.where[r_["id"]][1]):
                        ok, why = False, ("the default element copied for additional user entries is read from `defaults` after an earlier element of the same "
                                          "tag was already merged with user input: values (and 'injected' marks) of list element k leak into element k+1")
    rep.check(ok, "R11.6", "list-pristine-copy", "extra list elements are copies of the untouched default element", "OverwriteDefaultsWithUserInput: " + why, ow.loc(), sample=True)
    fow = Fold(ow, inline=False).run()
    vst = [e for e in fow.events if e["kind"] == "store" and e["target"].replace(" ", "") == dn_ + ".value()"]
    gtxt = [" ".join(guard_strs(fow, e["guards"])) for e in vst]
    rep.check(len(vst) == 1 and str(vst[0]["value"]) == "value(%s)" % un_ and re.search(r'!\(?hasAttribute\(%s, (ctor\()?"list"' % re.escape(dn_), gtxt[0]) is not None, "R11.2", "overwrite-value",
              "user value replaces the default value (non-list nodes)", "OverwriteDefaultsWithUserInput assigns %s under %s" % ([str(e["value"]) for e in vst], gtxt), ow.loc())
    lits = {x["v"] for n in ow.walk() if n.get("k") == "if" for x in walk(n["cond"]) if x.get("k") == "str"}
    # also through boolean locals: the literals in the folded path conditions
    for e_ in fow.events:
        for g_ in e_["guards"]:
            lits |= set(re.findall(r'"(\w+)"', fow.cond_str(g_[0])))
    rep.check({"list", "unchecked"} <= lits, "R11.2", "overwrite-cases",
              "three cases: normal, list, unchecked", "OverwriteDefaultsWithUserInput does not distinguish the list and unchecked cases (attributes tested: %s)" % sorted(lits), ow.loc())

    # ---------------------------------------------------------------- R11.8 linked sub-packages
    rep.rule("R11.8", "ResolveLinks: every file named in a link attribute is loaded into a Property object of its own (LoadFromXML adds to the object it is called on, "
                      "so an object that lives across the loop over the files still holds the first file when the second is loaded)")
    rl = F.one(OH + "ResolveLinks")
    rep.analysed(rl)
    loads = [n for n in rl.walk() if n.get("k") == "mcall" and (n.get("callee") or "").endswith("Property::LoadFromXML")]
    okl, whyl = len(loads) >= 1, "no LoadFromXML call found"
    for n in loads:
        loops_ = [a_ for a_ in rl.ancestors(n) if a_.get("k") in ("rangefor", "for", "while")]
        o = unwrap(n.get("obj") or {})
        if not loops_:
            continue                      # a single load outside any loop
        if o.get("k") != "ref" or o.get("dk") != "local":
            okl, whyl = False, "LoadFromXML is called on %s inside the loop over the linked files" % show(n.get("obj"))
            break
        inner = loops_[0]
        declared_inside = any(x.get("k") == "decl" and any(d_["decl"] == o.get("decl") for d_ in x["decls"]) for x in walk(inner["body"]))
        cleared = False
        if not declared_inside:
            g_ = CFG(rl)
            for c_ in walk(inner["body"]):
                if c_.get("k") in ("opcall", "assign") and c_.get("op") == "=" and unwrap((c_.get("args") or [c_.get("lhs")])[0]).get("decl") == o.get("decl") \
                        and c_.get("id") in g_.where and n.get("id") in g_.where and g_.dominates(c_["id"], n["id"]):
                    cleared = True
        if not (declared_inside or cleared):
            okl, whyl = False, ("the Property %s that LoadFromXML fills is declared outside the loop over the linked files and is not reset in it: from the second file on it still "
                                "contains the first file, whose root is merged again while the later files are ignored" % o.get("name"))
            break
    rep.check(okl, "R11.8", "links|fresh-package", "one Property object per linked file", "OptionsHandler::ResolveLinks: " + whyl, rl.loc(loads[0]) if loads else rl.loc(), sample=True)

    # ---------------------------------------------------------------- R11.3 DATA
    iv = F.one(OH + "IsValidOption")
    rep.analysed(iv)
    heads = []
    for n in iv.walk():
        if n.get("k") in ("opcall", "binop") and n.get("op") == "==" and "head" in show(n):
            heads += [s_ for s_ in strings_in(n)]
    heads = sorted(set(heads))
    rep.check(heads == sorted(["bool", "float", "float+", "int", "int+"]), "R11.3", "type-heads", "validator type heads: %s" % heads,
              "IsValidOption type heads are %s" % heads, iv.loc(), sample=True)
    # float+ / int+ must test non-negativity: the folded result, with the head bound to the keyword and the conversion succeeding, for values -1, 0, 1
    fiv = Fold(iv).run()
    civ = getattr(fiv, "conds", {})
    rv = [e for e in fiv.events if e["kind"] == "return"]
    pnm, cnm = iv.j["params"][0]["name"], iv.j["params"][1]["name"]

    def valid_oracle(lf):
        if isinstance(lf, tuple) and len(lf) == 3 and lf[0] in ("==", "!="):
            a_, b_ = str(lf[1]), str(lf[2])
            for x_, y_ in ((a_, b_), (b_, a_)):
                if x_ == "front(%s)" % cnm and re.match(r'^"[^"]*"$', y_):
                    return ("HEAD=" + y_.strip('"'), lf[0] == "==")
                if x_.startswith("find(") and "additional_choices_" in x_ and "additional_choices_" in y_:
                    return ("ADD", lf[0] == "!=")
                if x_.startswith("find(") and '"choices"' in x_ and "npos" in y_:
                    return ("MULTI", lf[0] == "!=")
        if str(getattr(lf, "func", "")) == "IsValidCast":
            return ("CAST", True)
        return None
    for h in ("float+", "int+"):
        val = result_term(fiv)
        ok_h, why_h = val is not None, "no return found"
        if ok_h:
            stack, asat = [val], set()
            while stack:
                c_ = stack.pop()
                if isinstance(c_, tuple):
                    stack += list(c_[1:])
                elif isinstance(c_, sp.Basic):
                    asat |= {a_ for a_ in c_.atoms(AppliedUndef) if str(a_.func) == "as" and str(a_.args[0]) == pnm}
            for v_, want_ in ((-1, False), (0, True), (1, True)):
                A = {"HEAD=" + k_: k_ == h for k_ in heads}
                A.update({"CAST": True, "ADD": False, "MULTI": False})
                t_ = decide(val, {a_: sp.Integer(v_) for a_ in asat}, A, valid_oracle, civ)
                if t_ is None or t_ != want_:
                    ok_h, why_h = False, "for the value %d it answers %s" % (v_, t_)
                    break
        rep.check(ok_h, "R11.3", "nonnegative|" + h, "%s requires value >= 0" % h, "IsValidOption: type %s: %s (negative values must be rejected, zero and positive ones accepted)" % (h, why_h), iv.loc())
    check_multichoice(rep, iv)
    lint_xml(rep, heads, reserved)

    # ---------------------------------------------------------------- R11.4 TAINT
    pn = [f_ for f_ in F.funcs if f_.qname == T + "PrintNodeXML"]
    if len(pn) != 1:
        rep.broken("R11.4", "PrintNodeXML not found")
    else:
        pn = pn[0]
        rep.analysed(pn)
        sinks = []
        for n in pn.walk():
            if n.get("k") == "opcall" and n.get("op") == "<<":
                rhs = unwrap(n["args"][1])
                sinks.append(rhs)
        tainted = []
        n_src = 0
        for rhs in sinks:
            srcs = [x for x in walk(rhs) if (x.get("k") == "mcall" and (x.get("callee") or "").endswith("Property::value")) or
                    (x.get("k") == "member" and x.get("fname") == "second")]
            for s_ in srcs:
                n_src += 1
                # must be wrapped in a call to an escaping function
                wrap = [a for a in pn.ancestors(s_) if a.get("k") == "call" and a["id"] in [y["id"] for y in walk(rhs)]]
                esc = [w for w in wrap if is_escaper(F, w.get("callee"))]
                if not esc:
                    tainted.append(show(rhs))
        rep.floor("R11.4", n_src, 2, "value/attribute sinks in PrintNodeXML")
        check_escaper(rep, F, pn)
        rep.check(not tainted, "R11.4", "xml-escape", "values and attribute values are escaped before they reach the stream",
                  "PrintNodeXML writes %s to the XML stream without escaping &, <, >, \": a tree with such characters does not survive write/load" % tainted, pn.loc(), sample=True)

    # ---------------------------------------------------------------- R11.7 XML reader side
    check_xml_reader(rep, F)

    # ---------------------------------------------------------------- R11.5
    cb = [f_ for f_ in F.find(T + "internal::convert_impl") if "type<bool>" in f_.j["sig"]]
    if len(cb) != 1:
        rep.broken("R11.5", "convert_impl(type<bool>) not found")
    else:
        cb = cb[0]
        rep.analysed(cb)
        fo = Fold(cb).run()
        table = {}
        for v, gs, _ in fo.returns:
            lits = []
            for c, pol, _n in gs:
                if pol:
                    lits = re.findall(r'"(\w+)"', fo.cond_str(c))
                    lowered = "to_lower_copy" in fo.cond_str(c)
            table[str(v)] = sorted(lits)
        ok = table.get("True") == ["1", "true"] and table.get("False") == ["0", "false"] and len(fo.throws) == 1
        rep.check(ok, "R11.5", "bool-literals", "true/1 -> true, false/0 -> false, else throw", "convert_impl<bool> accepts %s (throws: %d)" % (table, len(fo.throws)), cb.loc(), sample=True)
    # ---------------------------------------------------------------- R11.9
    PREFIX = re.compile(r"^(std::)?(sto(d|f|ld|i|l|ll|ul|ull)|strto(d|f|ld|l|ll|ul|ull)|ato(f|i|l|ll)|sscanf)$")
    conv = [f_ for f_ in F.funcs if (f_.qname == T + "internal::convert_impl" and "type<bool>" not in f_.j["sig"]) or f_.qname == T + "lexical_cast"]
    arith = [f_ for f_ in conv if f_.qname.endswith("convert_impl") and ("is_arithmetic" in f_.j["sig"] or re.search(r"type<(double|long|int|float|unsigned long)>", f_.j["sig"]))]
    rep.floor("R11.9", len(conv), 2, "conversion helpers (convert_impl overloads, tools::lexical_cast)")
    whole = 0
    for f_ in conv:
        rep.analysed(f_)
        bad = []
        for n in f_.walk():
            if n.get("k") in ("call", "mcall", "unresolved_call", "ucall"):
                cal = (n.get("callee") or show(n.get("callee_expr") or {}) or "")
                base = cal.split("(")[0].strip()
                if PREFIX.match(base) or PREFIX.match(base.split("::")[-1]):
                    args_ = n.get("args") or []
                    checked = len(args_) >= 2 and show(args_[1]) not in ("nullptr", "0", "NULL", "")
                    if not checked:
                        bad.append("%s(%s)" % (base, ", ".join(show(a_) for a_ in args_)))
            txt = show(n) if n.get("k") in ("call", "unresolved_call", "ucall", "mcall") else ""
            if "lexical_cast" in txt:
                whole += 1
        key = "whole-string|%s|%s" % (f_.qname.split("::")[-1], f_.j["sig"][:60])
        rep.check(not bad, "R11.9", key, "no unchecked prefix parser",
                  "%s converts with %s, which parses only the leading numeric prefix and ignores the rest: values such as '0,5', '1.5nm', '3.0.1' or '2 3' are accepted "
                  "(as<T>, float/int choices) instead of being rejected" % (f_.qname, ", ".join(bad)), f_.loc(), sample=bool(bad) or f_ is conv[0])
    if not whole:
        rep.broken("R11.9", "no call of lexical_cast found in the conversion helpers: unrecognised conversion")

    rep.assumptions += ["expat decodes the standard entities on load", "the full merge semantics on arbitrary user trees (multiplicities beyond the pristine-copy rule) are not decided"]


def is_escaper(F, callee):
    """a function whose body maps the XML markup characters to entities"""
    if not callee:
        return False
    fs = F.find(callee)
    for f in fs:
        strs = set(strings_in(f.body))
        chars = {x.get("v") for x in f.walk() if x.get("k") == "char"}
        if {"&amp;", "&lt;", "&gt;", "&quot;"} <= strs and ({ord("&"), ord("<"), ord(">"), ord('"')} <= chars or any(set("&<>\"") <= set(v_) for v_ in strs)):
            return True
    return False


def appended_piece(step, csym, acc, ch):
    """the text a folded per-character step appends to the accumulated string `acc` when the character is `ch` (None: not decided).  Understands
    ?:/if on comparisons, string::find of a character in a literal, and subscripts into a literal list."""
    NPOS = "npos"

    def ev(t):
        if isinstance(t, tuple):
            if t and t[0] == "ite" and len(t) == 4:
                c = ev(t[1])
                return None if c is None else ev(t[2] if c else t[3])
            if t and t[0] == "cat" and len(t) == 3:
                a_, b_ = t[1], ev(t[2])
                if b_ is None:
                    return None
                b_ = chr(b_) if isinstance(b_, int) else b_
                if a_ == acc:
                    return ("acc", b_)
                a_ = ev(a_)
                if isinstance(a_, tuple) and a_[0] == "acc" and isinstance(b_, str):
                    return ("acc", a_[1] + b_)
                return None
            if t and t[0] in ("==", "!=") and len(t) == 3:
                a_, b_ = ev(t[1]), ev(t[2])
                if a_ is None or b_ is None:
                    return None
                return (a_ == b_) == (t[0] == "==")
            if t and t[0] == "!" and len(t) == 2:
                c = ev(t[1])
                return None if c is None else (not c)
            return None
        if t == csym:
            return ch
        if isinstance(t, (int, sp.Integer)):
            return int(t)
        if isinstance(t, sp.Symbol):
            nm = t.name
            if nm.endswith("::npos"):
                return NPOS
            if len(nm) >= 2 and nm[0] == '"' and nm[-1] == '"':
                return nm[1:-1]
            return None
        fn = str(getattr(t, "func", ""))
        if fn == "ctor" and t.args:
            return ev(t.args[0])
        if fn == "find" and len(t.args) in (2, 3):
            s_, c_ = ev(t.args[0]), ev(t.args[1])
            if isinstance(s_, str) and isinstance(c_, int) and (len(t.args) == 2 or ev(t.args[2]) == 0):
                i_ = s_.find(chr(c_))
                return NPOS if i_ < 0 else i_
            return None
        if fn == "at" and len(t.args) == 2 and str(getattr(t.args[0], "func", "")) == "list":
            k_ = ev(t.args[1])
            if isinstance(k_, int) and 0 <= k_ < len(t.args[0].args):
                return ev(t.args[0].args[k_])
            return None
        return None
    r = ev(step)
    return r[1] if isinstance(r, tuple) and r[0] == "acc" else None


def lint_xml(rep, heads, reserved):
    base = front.repo("xtp/share/xtp/xml")
    files = sorted(glob.glob(base + "/*.xml")) + sorted(glob.glob(base + "/subpackages/*.xml"))
    rep.floor("R11.3", len(files), 30, "shipped option XML files")
    n_leaf = 0
    for path in files:
        rel = os.path.relpath(path, front.REPO)
        try:
            root = ET.parse(path).getroot()
        except ET.ParseError as e:
            rep.violation("R11.3", "xml|parse|" + rel, "%s is not well-formed XML: %s" % (rel, e), path)
            continue
        for el in root.iter():
            link = el.get("link")
            if link:
                for p in re.split(r"[ ,]+", link.strip()):
                    if p:
                        rep.check(os.path.exists(os.path.join(base, "subpackages", p)), "R11.3", "xml|link|%s|%s" % (rel, p), "link resolves",
                                  "%s: link '%s' of <%s> does not resolve to a sub-package file" % (rel, p, el.tag), path)
            if el.get("list") is not None:
                tags = [c.tag for c in el]
                dup = {t for t in tags if tags.count(t) > 1}
                rep.check(not dup, "R11.3", "xml|list-tags|%s|%s" % (rel, el.tag), "list children have distinct tags",
                          "%s: list section <%s> declares child tag(s) %s twice: the options handler throws for every input" % (rel, el.tag, sorted(dup)), path)
            choices = el.get("choices")
            if choices is None or len(el):
                continue
            n_leaf += 1
            att = choices
            multi = "[" in att
            if multi:
                att = att[att.index("[") + 1: att.index("]")] if "]" in att else att[att.index("[") + 1:]
            toks = [t for t in re.split(r"[ ,]+", att.strip()) if t]
            key = "xml|choices|%s|%s" % (rel, path_of(root, el))
            if not toks:
                continue
            default = el.get("default")
            if default is None or default in reserved:
                rep.holds("R11.3", key, "choices parse; no concrete default to validate")
                continue
            rep.check(valid_value(default, toks, multi), "R11.3", key, "default '%s' satisfies choices '%s'" % (default, choices),
                      "%s: default '%s' of option %s does not satisfy its own choices '%s' (the handler rejects the shipped defaults)" % (rel, default, path_of(root, el), choices),
                      path, sample=(n_leaf % 120 == 1))
    rep.floor("R11.3", n_leaf, 140, "option leaves with choices")


def path_of(root, el):
    parent = {c: p for p in root.iter() for c in p}
    parts = []
    while el is not None:
        parts.append(el.tag)
        el = parent.get(el)
    return ".".join(reversed(parts))


def valid_value(value, choices, multi):
    head = choices[0]
    try:
        if head == "bool":
            return value.lower() in ("true", "false") or value in ("1", "0")
        if head == "float":
            float(value); return True
        if head == "float+":
            return float(value) >= 0
        if head == "int":
            int(value); return True
        if head == "int+":
            return int(value) >= 0
    except ValueError:
        return False
    if not multi:
        return value in choices
    return all(w in choices for w in re.split(r"[ ,]+", value.strip()) if w)


def check_xml_reader(rep, F):
    lf = F.one(T + "Property::LoadFromXML")
    rep.analysed(lf)
    reg = {}
    for n in lf.walk():
        if n.get("k") == "call" and n.get("callee") in ("XML_SetElementHandler", "XML_SetCharacterDataHandler"):
            reg[n["callee"]] = [unwrap_fn(a) for a in n["args"][1:]]
    if "XML_SetElementHandler" not in reg or "XML_SetCharacterDataHandler" not in reg or None in reg["XML_SetElementHandler"] + reg["XML_SetCharacterDataHandler"]:
        rep.broken("R11.7", "Property::LoadFromXML: expat callback registration not found (%s)" % reg)
        return
    start_q, end_q = reg["XML_SetElementHandler"]
    char_q = reg["XML_SetCharacterDataHandler"][0]
    # --- character data: appended unconditionally and completely
    ch = F.one(char_q)
    rep.analysed(ch)
    fo = Fold(ch, record_calls=r"basic_string.*::(append|operator\+=|push_back|insert)$").run()
    apps = [e for e in fo.events if e["kind"] == "call"]
    ps = [p_["name"] for p_ in ch.j["params"]]
    ok, why = False, "no append of the chunk to the current node's value found"
    if len(apps) == 1 and len(ps) == 3:
        e = apps[0]
        syms = {str(x) for a in e["args"] if hasattr(a, "free_symbols") for x in a.free_symbols}
        uncond = not [g_ for g_ in e["guards"] if not (isinstance(g_[0], tuple) and g_[0] and g_[0][0] in ("loop", "each"))] and not e.get("not")
        tgt = str(e["obj"])
        ok = uncond and {ps[1], ps[2]} <= syms and "value(" in tgt and "top(" in tgt
        why = ("the chunk is appended only under %s / unless control left under %s" % (guard_strs(fo, e["guards"]), [guard_strs(fo, g_) for g_ in e.get("not", [])])) if not uncond else \
            "append target %s / arguments %s" % (tgt[:80], [str(a)[:40] for a in e["args"]])
    rep.check(ok, "R11.7", "xml-reader|chardata", "every chunk (txt, len) handed over by expat is appended to the current node's value",
              "%s: %s - character data (line breaks inside values, blanks between entities) is lost when a file is loaded" % (char_q, why), ch.loc(), sample=True)
    # --- start: add under top, all attributes, push
    st = F.one(start_q)
    rep.analysed(st)
    fst = Fold(st, record_calls=r"Property::add$|Property::setAttribute$|stack<.*>::push$").run()
    evs = [e for e in fst.events if e["kind"] == "call"]
    add = [e for e in evs if e["callee"].endswith("Property::add")]
    seta = [e for e in evs if e["callee"].endswith("Property::setAttribute")]
    push = [e for e in evs if re.search(r"stack<.*>::push$", e["callee"])]
    eln, atn = st.j["params"][1]["name"], st.j["params"][2]["name"]
    ok = len(add) == 1 and len(seta) == 1 and len(push) == 1
    why = "expected one add / setAttribute / push, found %d/%d/%d" % (len(add), len(seta), len(push))
    if ok:
        a_, s_, p_ = add[0], seta[0], push[0]
        node = str(a_["value"]) if a_.get("value") is not None else None
        ok = not a_["guards"] and str(a_["obj"]).startswith("top(") and eln in str(a_["args"][0])
        why = "the new element is not added (unconditionally) under the current node with the element name"
    if ok:
        # the node that receives the attributes and is made current is the one just added; it is pushed on every path, after the add
        ok = node is not None and str(s_["obj"]) == node and node in str(p_["args"][0]) and not p_["guards"] and not p_.get("not") and fst.events.index(a_) < fst.events.index(p_)
        why = "the attributes go to / the stack receives a node other than the one just added, or the push is conditional"
    if ok:
        lids = [g_[0][1] for g_ in s_["guards"] if isinstance(g_[0], tuple) and g_[0] and g_[0][0] == "loop"]
        lp = [l for l in fst.loops if lids and l["lid"] == lids[-1]]
        ok, why = len(lp) == 1 and len(s_["guards"]) == 1, "the attributes are not copied in an unconditional loop over the attribute list"
    if ok:
        l = lp[0]
        k_ = list(l["syms"])[0] if len(l["syms"]) == 1 else None
        v = l["syms"].get(k_)
        nm, vl = str(s_["args"][0]), str(s_["args"][1])
        if k_ is not None and l["init"].get(k_) == 0:
            # index form: attr[i], attr[i+1], i += 2 while attr[i]
            good = ("at(%s, %s)" % (atn, v)) in nm and vl == "at(%s, %s + 1)" % (atn, v) and str(l["cond"]) == "at(%s, %s)" % (atn, v)
        elif k_ is not None and str(l["init"].get(k_)) == atn:
            # pointer form: p[0], p[1], p += 2 while *p
            good = (("at(%s, 0)" % v) in nm or ("deref(%s)" % v) in nm) and vl == "at(%s, 1)" % v and str(l["cond"]) in ("deref(%s)" % v, "at(%s, 0)" % v)
        else:
            good = False
        ok = good and k_ is not None and sp.simplify(l["step"][k_] - v - 2) == 0
        why = "the attribute loop (start %s, step %s, condition %s) sets (%s, %s): not every (name, value) pair of the null-terminated list" % (
            l["init"].get(k_), l["step"].get(k_), l["cond"], nm[:60], vl[:60])
    rep.check(ok, "R11.7", "xml-reader|start", "start tag: add child, copy every attribute, push", "%s: %s" % (start_q, why), st.loc())
    en = F.one(end_q)
    rep.analysed(en)
    g2 = CFG(en)
    pops = [n for n in en.walk() if n.get("k") == "mcall" and re.search(r"stack<.*>::pop$", n.get("callee") or "")]
    ok = len(pops) == 1 and all(g2.dominates_block(g2.where[pops[0]["id"]][0], b) for b in g2.exit_blocks(normal=True))
    rep.check(ok, "R11.7", "xml-reader|end", "end tag: pop exactly once on every path", "%s does not pop the node stack exactly once on every path" % end_q, en.loc())


def unwrap_fn(a):
    a = unwrap(a)
    while a is not None and a.get("k") in ("cast", "unop") and a.get("sub") is not None:
        a = unwrap(a["sub"])
    if a is not None and a.get("k") == "ref":
        return a.get("qname") or a.get("name")
    return None


def result_term(fo):
    """the boolean a function returns, as one term: its returns in program order, each under the conjunction of its path conditions
    (`if (ok) return true; return other;` is `ok ? true : other`)"""
    rets = [e for e in fo.events if e["kind"] == "return"]
    if not rets:
        return None
    term = None
    for e in reversed(rets):
        g = None
        for c_, pol_, _n in e["guards"]:
            t_ = c_ if pol_ else ("!", c_)
            g = t_ if g is None else ("&&", g, t_)
        v = e["value"]
        v = True if v in (True, sp.true) else False if v in (False, sp.false) else v
        term = v if (g is None or term is None) else ("ite", g, v, term)
    return term



def check_multichoice(rep, iv):
    """multi-selection choices ('[a,b,c]'): the value is valid exactly when EVERY word is a declared choice.  Decided by running the folded
    word loop on an abstract two-word value for the four membership combinations."""
    import itertools
    import sympy as sp
    from vsa.cases import decide, resolve_ite
    fo = Fold(iv).run()
    conds = getattr(fo, "conds", {})
    cp = iv.j["params"][1]["name"]
    cands = []
    for l in getattr(fo, "loops", []):
        var = l.get("var")
        if var is None:
            continue
        txt = str(l.get("step")) + str(l.get("breaks"))
        if "find(" in txt and str(var) in txt and cp in txt:
            cands.append(l)
    if not cands:
        # std::all_of / any_of / none_of over the words: the term is decided per word
        algs = [l for l in getattr(fo, "loops", []) if l.get("algorithm")]
        rets = [e for e in fo.events if e["kind"] == "return"]
        terms = []

        def find_terms(c):
            if isinstance(c, tuple):
                if c and c[0] in ("allof", "anyof", "noneof") and len(c) == 3:
                    terms.append(c)
                for x in c[1:]:
                    find_terms(x)
        for r_ in rets:
            find_terms(r_["value"])
        terms = [t_ for t_ in terms if "find(" in str(t_[2]) and cp in str(t_[2]) and ("elem@%s" % t_[1]) in str(t_[2])]
        for r_ in rets:
            for g_ in r_["guards"]:
                find_terms(g_[0])
        terms = [t_ for i_, t_ in enumerate(terms) if t_ not in terms[:i_]]
        terms = [t_ for t_ in terms if "find(" in str(t_[2]) and cp in str(t_[2]) and ("elem@%s" % t_[1]) in str(t_[2])]
        whole = result_term(fo)
        if len(terms) != 1 or whole is None:
            rep.broken("R11.3", "IsValidOption: neither a loop nor an all_of/any_of/none_of over the words of a multi-selection value was found")
            return
        kind, lid, pc = terms[0]
        wsym = "elem@%s" % lid

        def orc_w(lf):
            if isinstance(lf, tuple) and len(lf) == 3 and lf[0] in ("==", "!="):
                a_, b_ = str(lf[1]), str(lf[2])
                for x_, y_ in ((a_, b_), (b_, a_)):
                    if x_.startswith("find(") and wsym in x_ and cp in x_ and y_ in ("cend(%s)" % cp, "end(%s)" % cp):
                        return ("FOUND", lf[0] == "!=")
            return None
        pw = {m_: decide(pc, None, {"FOUND": m_}, orc_w, conds) for m_ in (True, False)}
        bad = None
        if None in pw.values():
            bad = "cannot decide the per-word test %s" % fo.cond_str(pc)[:120]
        else:
            def term_value(m1, m2):
                vs = [pw[m1], pw[m2]]
                return all(vs) if kind == "allof" else any(vs) if kind == "anyof" else not any(vs)

            def orc_t(lf):
                if lf == terms[0]:
                    return ("TERM", True)
                return valid_outer(lf)

            def valid_outer(lf):
                if isinstance(lf, tuple) and len(lf) == 3 and lf[0] in ("==", "!="):
                    a_, b_ = str(lf[1]), str(lf[2])
                    for x_, y_ in ((a_, b_), (b_, a_)):
                        if x_ == "front(%s)" % cp and re.match(r'^"[^"]*"$', y_):
                            return ("TYPED", lf[0] == "==")
                        if x_.startswith("find(") and "additional_choices_" in x_ and "additional_choices_" in y_:
                            return ("ADD", lf[0] == "!=")
                        if x_.startswith("find(") and '"choices"' in x_ and "npos" in y_:
                            return ("MULTI", lf[0] == "!=")
                return None
            for m1, m2 in itertools.product((True, False), repeat=2):
                A = {"TERM": term_value(m1, m2), "TYPED": False, "ADD": False, "MULTI": True}
                t_ = decide(whole, None, A, orc_t, conds)
                if t_ is None or t_ != (m1 and m2):
                    bad = "for a two-word value whose words are %s / %s the result is %s (required %s)" % ("declared" if m1 else "UNDECLARED", "declared" if m2 else "UNDECLARED", t_, m1 and m2)
                    break
        rep.check(bad is None, "R11.3", "multi-choice-all-words", "a multi-selection value is valid iff every word is a declared choice", "IsValidOption: %s" % bad, iv.loc(terms and algs[0]["node"] if algs else None), sample=True)
        return
    if len(cands) != 1:
        rep.broken("R11.3", "IsValidOption: the loop over the words of a multi-selection value was not found (%d candidates)" % len(cands))
        return
    l = cands[0]
    var = l["var"]
    keys = [k for k, v in l["step"].items() if v is not None and (v != l["syms"][k] or any(b[1].get(k) is not None and b[1].get(k) != l["syms"][k] for b in l.get("breaks", [])))]
    if len(keys) != 1:
        rep.broken("R11.3", "IsValidOption: the multi-selection loop carries %d variables, expected the validity flag only" % len(keys))
        return
    k = keys[0]
    sym = l["syms"][k]

    def orc(lf):
        if isinstance(lf, tuple) and len(lf) == 3 and lf[0] in ("==", "!="):
            a_, b_ = str(lf[1]), str(lf[2])
            for x_, y_ in ((a_, b_), (b_, a_)):
                if x_.startswith("find(") and str(var) in x_ and cp in x_ and y_ in ("cend(%s)" % cp, "end(%s)" % cp):
                    return ("FOUND", lf[0] == "!=")
        if lf == sym or str(lf) == str(sym):
            return ("PREV", True)
        return None

    def truth(v, A):
        if v in (True, False, sp.true, sp.false):
            return bool(v)
        if hasattr(v, "args") and not isinstance(v, tuple):
            v = resolve_ite(v, lambda cs: decide(conds[cs], None, A, orc, conds) if cs in conds else None)
            if v in (True, False, sp.true, sp.false):
                return bool(v)
        return decide(v, None, A, orc, conds)
    bad = None
    init = l["init"].get(k)
    if init not in (True, sp.true):
        bad = "the validity flag starts as %s before the first word" % init
    for m1, m2 in itertools.product((True, False), repeat=2):
        if bad:
            break
        v, stopped = True, False
        for m in (m1, m2):
            A = {"FOUND": m, "PREV": v}
            took = False
            for bc, vals in l.get("breaks", []):
                t = decide(bc, None, A, orc, conds) if bc is not None else True
                if t is None:
                    bad = "cannot decide whether the loop is left for a word that is %sa declared choice" % ("" if m else "not ")
                    break
                if t:
                    bv = vals.get(k)
                    v = truth(bv, A) if bv is not None else v
                    took = True
                    break
            if bad:
                break
            if took:
                break
            nv = truth(l["step"][k], A)
            if nv is None:
                bad = "cannot decide the flag after a word that is %sa declared choice" % ("" if m else "not ")
                break
            v = nv
        if bad:
            break
        if v is None or v != (m1 and m2):
            bad = "for a two-word value whose words are %s / %s the loop ends with valid = %s (required %s): an undeclared word is accepted when %s" % (
                "declared" if m1 else "UNDECLARED", "declared" if m2 else "UNDECLARED", v, m1 and m2, "a declared word follows it" if not m1 else "it comes last")
    rep.check(bad is None, "R11.3", "multi-choice-all-words", "a multi-selection value is valid iff every word is a declared choice", "IsValidOption: %s" % bad, iv.loc(l["node"]), sample=True)


def check_escaper(rep, F, pn):
    """the escaping function itself: each of & < > " is mapped to its entity, and the text is handed back unchanged only under a test that rules out
    all four characters"""
    ENT = {ord("&"): "&amp;", ord("<"): "&lt;", ord(">"): "&gt;", ord('"'): "&quot;"}
    names = {n.get("callee") for n in pn.walk() if n.get("k") == "call" and is_escaper(F, n.get("callee"))}
    if len(names) != 1:
        rep.broken("R11.4", "expected one escaping function used by PrintNodeXML, found %d" % len(names))
        return
    esc = F.find(next(iter(names)))[0]
    rep.analysed(esc)
    pname = esc.j["params"][0]["name"]
    # (1) per-character table: the statement selected by a markup character appends that character's entity
    table = {}
    for n in esc.walk():
        if n.get("k") == "switch":
            label = None
            for st in (n["body"].get("stmts") or []):
                cur = st
                while cur.get("k") in ("case", "default"):
                    lv = unwrap(cur.get("value") or {}) if cur.get("k") == "case" else None
                    label = lv.get("v") if lv is not None and lv.get("k") in ("char", "int") else (cur.get("label") if cur.get("k") == "case" else "default")
                    cur = cur["sub"]
                for x in walk(cur):
                    if x.get("k") == "str" and label not in (None, "default"):
                        table.setdefault(label, set()).add(x["v"])
        if n.get("k") == "if":
            cmps = [c for c in walk(n["cond"]) if c.get("k") in ("binop", "opcall") and c.get("op") == "=="]
            for c in cmps:
                lits = [unwrap(a) for a in (c.get("args") or [c.get("lhs"), c.get("rhs")]) if a is not None]
                ch = [l_["v"] for l_ in lits if l_.get("k") == "char"]
                if len(ch) == 1:
                    for x in walk(n["then"]):
                        if x.get("k") == "str":
                            table.setdefault(ch[0], set()).add(x["v"])
    tab_ok = all(ENT[c] in {str(v) for v in table.get(c, set())} | {str(v) for v in table.get(chr(c), set())} for c in ENT)
    if not table:
        # no switch / if-chain on character literals: decide what the folded per-character step appends for each markup character (lookup tables)
        fv = Fold(esc).run()
        pieces = {}
        for l in getattr(fv, "loops", []):
            if l.get("var") is None or str(l.get("range")) != pname:
                continue
            for key, stp in l["step"].items():
                got = {ch: appended_piece(stp, l["var"], l["syms"].get(key), ch) for ch in list(ENT) + [ord("a")]}
                if all(v is not None for v in got.values()):
                    pieces = got
        if pieces:
            table = {ch: {pieces[ch]} for ch in pieces}
            tab_ok = all(pieces[c] == ENT[c] for c in ENT) and pieces[ord("a")] == "a"
    rep.check(tab_ok, "R11.4", "escaper|table", "& < > \" are mapped to &amp; &lt; &gt; &quot;", "%s: the per-character table is %s" % (esc.qname, {str(k): sorted(v) for k, v in table.items()}), esc.loc(), sample=True)
    # (2) shortcuts: a return of the unmodified text needs a test that excludes every markup character
    fo = Fold(esc, inline=False).run()
    bad = None
    for e in fo.events:
        if e["kind"] != "return" or str(e.get("value")) != pname:
            continue
        sets = []
        for c, pol, _n in e["guards"]:
            if isinstance(c, tuple) and len(c) == 3 and c[0] in ("==", "!=") and (c[0] == "==") == pol:
                for x_, y_ in ((c[1], c[2]), (c[2], c[1])):
                    if str(getattr(x_, "func", "")) == "find_first_of" and str(x_.args[0]) == pname and "npos" in str(y_):
                        m_ = re.search(r'"((?:[^"\\]|\\.)*)"', str(x_.args[1]))
                        lit = [a_ for a_ in esc.walk() if a_.get("k") == "str" and a_.get("id") is not None and str(x_.args[1]).find(a_["v"]) >= 0 and set(a_["v"]) & set("&<>\"")]
                        sets.append(set(lit[0]["v"]) if lit else set(m_.group(1)) if m_ else set())
        covered = set().union(*sets) if sets else set()
        missing = [ch for ch in "&<>\"" if ch not in covered]
        if missing:
            bad = "the text is returned unescaped under %s, which does not exclude %s: a value containing only %s is written as markup" % (
                [fo.cond_str(g[0])[:80] for g in e["guards"]], " ".join(missing), " ".join(missing))
    rep.check(bad is None, "R11.4", "escaper|no-unsafe-shortcut", "the unmodified text is returned only when it contains none of & < > \"", "%s: %s" % (esc.qname, bad), esc.loc(), sample=True)
