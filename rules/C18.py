"""C18 - ranges, index lists, bead selection: validity vs iterator termination, print/parse grammar agreement,
normalisation through an ordered set, selection decision table (PATH, SIB, ALG)."""
import os, re
import sympy as sp
from vsa import front
from vsa.facts import Facts, unwrap, show, walk, lit_value
from vsa.front import AnalysisBroken
from vsa.alg import Fold, S, F as Fn, equal, is_zero, guard_strs
from vsa.cfg import CFG
from vsa.cases import decide, resolve_ite, executes
from rules.C08 import stream_items

LEVEL = "other"
T = "votca::tools::"


def nows(s):
    return re.sub(r"\s+", "", s)


def run(rep, tier):
    rep.explanation = ("RangeParser: the block validity test of ParseBlock and the end test of iterator::operator++ are folded to "
                       "canonical comparisons and must be the same sign-aware predicate; a zero stride reaches a throw before the "
                       "block is stored; the printer's three block forms and separators are paired with the parser's token roles. "
                       "IndexParser: both directions pass through std::set. BeadList: selection decision table and wildcmp "
                       "argument order. (wildcmp's matching algorithm itself is not decided statically.)")
    rep.rule("R18.1", "ParseBlock: stride 0 reaches a throw before blocks_.push_back (every accepted expression terminates)")
    rep.rule("R18.2", "sign-aware termination: ParseBlock accepts iff begin*stride <= end*stride and operator++ leaves the block iff current*stride > end*stride")
    rep.rule("R18.3", "grammar: printer emits b | b:e | b:s:e joined by ','; Parse strips blanks and splits at ','; ParseBlock reads 1-3 ':' tokens with the same roles")
    rep.rule("R18.4", "IndexParser: CreateIndexVector and CreateIndexString both normalise through std::set<Index>; 'a:b' expands with <= b; runs are printed first:last only for consecutive values")
    rep.rule("R18.5", "BeadList::Generate*: 'name:' prefix selects getName(), otherwise getType(), both through tools::wildcmp(pattern, value)")
    host = os.path.join(front.VERIF, "hosts", "tools_rangeparser.cc")
    units = [front.repo("tools/src/libtools/rangeparser.cc"), front.repo("tools/src/libtools/tokenizer.cc"), host, front.repo("xtp/src/libxtp/IndexParser.cc"), front.repo("csg/src/libcsg/beadlist.cc")]
    F = Facts(front.export(units))
    rep.units = units
    RP = T + "RangeParser::"

    # ---------------------------------------------------------------- R18.1 / R18.2 / R18.3 (parser side)
    # ParseBlock and operator++ touch the numbers only through integer arithmetic and comparisons: both are folded (local helpers
    # and methods of the class inlined) and decided for one representative of every ordering that matters.
    from vsa.cases import executes, decide, resolve_ite, ites
    from sympy.core.function import AppliedUndef
    same_class = lambda q, g_: bool(g_.j.get("internal")) or q.startswith(RP)
    pb = F.one(RP + "ParseBlock")
    rep.analysed(pb)
    fo = Fold(pb, opaque_types=r"std::vector<", inline=same_class, record_calls=r"::push_back$", snap=r"::push_back$").run()
    push = [e for e in fo.events if e["kind"] == "call" and "blocks_" in str(e["obj"])]
    if len(push) != 1:
        raise AnalysisBroken("ParseBlock: expected one blocks_.push_back, found %d" % len(push))
    P = push[0]
    conds_ = getattr(fo, "conds", {})

    def all_atoms(e):
        out = set()

        def rec(c):
            if isinstance(c, tuple):
                for x in c:
                    rec(x)
            elif hasattr(c, "atoms"):
                out.update(c.atoms(AppliedUndef))
        for g_ in e["guards"]:
            rec(g_[0])
        for gl in e.get("not", []):
            for g_ in gl:
                rec(g_[0])
        for c_ in conds_.values():
            rec(c_)
        return out
    ats = all_atoms(P)
    sizes = [a_ for a_ in ats if str(a_.func) == "size"]
    toks = {}
    for a_ in ats:
        if str(a_.func) == "stoi" and str(getattr(a_.args[0], "func", "")) == "at" and getattr(a_.args[0].args[1], "is_Integer", False):
            toks[int(a_.args[0].args[1])] = a_
    if len(sizes) != 1 or not toks:
        raise AnalysisBroken("ParseBlock: token count / token atoms not found (sizes %s, tokens %s)" % (sizes, sorted(toks)))
    # the stored block (begin, end, stride)
    arg = P["args"][0]
    if str(getattr(arg, "func", "")) == "ctor" and len(arg.args) >= 3:
        ctor = [f_ for f_ in F.funcs if f_.qname.endswith("RangeParser::block_t::block_t") and len(f_.j["params"]) == 3]
        order = ["begin_", "end_", "stride_"]
        if ctor:
            pn = [p_["decl"] for p_ in ctor[0].j["params"]]
            m_ = {}
            for ci in ctor[0].j.get("ctor_inits", []) or []:
                r0 = [x for x in walk(ci.get("init")) if x.get("k") == "ref" and x.get("decl") in pn]
                if ci.get("field") and r0:
                    m_[pn.index(r0[0]["decl"])] = ci["field"].split("::")[-1]
            if len(m_) == 3:
                order = [m_[0], m_[1], m_[2]]
        stored = dict(zip(order, arg.args[:3]))
    else:
        env_ = P.get("env") or {}
        an = unwrap(P["node"]["args"][0])
        while an.get("k") in ("cast", "construct") and (an.get("sub") is not None or len(an.get("args", [])) == 1):
            an = unwrap(an["sub"] if an.get("sub") is not None else an["args"][0])
        nm = an.get("name") if an.get("k") == "ref" else str(arg)
        stored = {k_: env_.get(("field", "%s.%s" % (nm, k_))) for k_ in ("begin_", "end_", "stride_")}
    if any(v is None for v in stored.values()):
        raise AnalysisBroken("ParseBlock: the stored block's begin/end/stride could not be folded (%s)" % stored)

    def run_case(n, vals):
        sub = {sizes[0]: sp.Integer(n)}
        for k_, v_ in zip(range(3), vals):
            if k_ in toks:
                sub[toks[k_]] = sp.Integer(v_)
        ex = executes(P, sub, None, None, conds_)
        trip = None
        if ex:
            trip = []
            for k_ in ("begin_", "end_", "stride_"):
                v = resolve_ite(stored[k_], lambda cs: decide(conds_.get(cs), sub, None, None, conds_) if cs in conds_ else None) if hasattr(stored[k_], "args") else stored[k_]
                v = v.xreplace(sub) if hasattr(v, "xreplace") else v
                trip.append(v)
        return ex, trip
    cases_ = [  # (token count, token values, accepted?, (begin, end, stride))
        (0, (), False, None), (4, (1, 1, 3), False, None),
        (1, (7,), True, (7, 7, 1)), (1, (-3,), True, (-3, -3, 1)),
        (2, (1, 2), True, (1, 2, 1)), (2, (2, 2), True, (2, 2, 1)), (2, (3, 2), False, None), (2, (-5, -7), False, None),
        (3, (1, 1, 3), True, (1, 3, 1)), (3, (3, -1, 1), True, (3, 1, -1)), (3, (2, 3, 2), True, (2, 2, 3)), (3, (1, 2, 6), True, (1, 6, 2)),
        (3, (1, 0, 3), False, None), (3, (3, 0, 3), False, None),
        (3, (3, 1, 1), False, None), (3, (1, -1, 3), False, None), (3, (5, 4, 3), False, None), (3, (3, -4, 5), False, None), (3, (-6, -6, -5), False, None),
    ]
    for n_, vals_, acc_, want_ in cases_:
        ex, trip = run_case(n_, vals_)
        txt = ":".join(str(v) for v in vals_) or "(empty)"
        zero = n_ == 3 and vals_[1] == 0
        rid = "R18.1" if zero else ("R18.3" if (acc_ or n_ in (0, 4)) else "R18.2")
        key = ("zero-stride|" if zero else "accepts|" if acc_ else "rejects|") + txt + ("|%d-tokens" % n_ if n_ in (0, 4) else "")
        if ex is None:
            raise AnalysisBroken("ParseBlock: cannot decide whether '%s' is stored" % txt)
        ok = (ex is True) == acc_ and (not acc_ or [sp.simplify(x) for x in trip] == [sp.Integer(want_[0]), sp.Integer(want_[1]), sp.Integer(want_[2])])
        bad = ("'%s' is %s" % (txt, "stored as (begin, end, stride) = %s" % (trip,) if ex else "rejected")) + \
              ("; a block with stride 0 never advances (endless loop)" if zero else "" if acc_ else "; the iterator leaves a block only when current*stride > end*stride, so this block is not a closed interval" if n_ == 3 else "")
        rep.check(ok, rid, key, "'%s' -> %s" % (txt, "begin=%s end=%s stride=%s" % want_ if acc_ else "rejected"), "RangeParser::ParseBlock: " + bad, pb.loc(P["node"]),
                  sample=(txt in ("1:0:3", "3:-1:1", "5:4:3")))
    split = [n for n in pb.walk() if n.get("k") == "construct" and "Tokenizer" in (n.get("type") or "") and len(n.get("args", [])) >= 2]
    rep.check(any(lit_str(n["args"][1]) == ":" for n in split), "R18.3", "block-separator", "blocks are split at ':'", "ParseBlock does not tokenise at ':'", pb.loc())

    inc = F.one(RP + "iterator::operator++")
    rep.analysed(inc)
    fi = Fold(inc, inline=same_class, opaque_types=r"__normal_iterator|std::vector<").run()
    cur0 = S("current_")
    curv = fi.exit_env().get(("field", "current_"))
    conds2 = getattr(fi, "conds", {})
    blk = [e for e in fi.events if e["kind"] == "store" and e["target"].replace(" ", "") in ("block_",)] or \
          [e for e in fi.events if e["kind"] == "store" and "block_" in e["target"] and "current_" not in e["target"]]
    ats2 = set()
    for c_ in list(conds2.values()) + [g_[0] for e in fi.events for g_ in e["guards"]]:
        def rec2(c):
            if isinstance(c, tuple):
                for x in c:
                    rec2(x)
            elif hasattr(c, "free_symbols"):
                ats2.update(c.free_symbols)
        rec2(c_)
    if curv is not None and hasattr(curv, "free_symbols"):
        ats2 |= curv.free_symbols
    from sympy.core.function import AppliedUndef as _AU
    fats = set()
    for c_ in list(conds2.values()) + [g_[0] for e in fi.events for g_ in e["guards"]] + ([curv] if curv is not None else []):
        def rec3(c):
            if isinstance(c, tuple):
                for x in c:
                    rec3(x)
            elif hasattr(c, "atoms"):
                fats.update(a_ for a_ in c.atoms(_AU) if str(a_.func).endswith(("stride_", "end_")))
        rec3(c_)
    st_s = [x for x in ats2 if str(x).endswith("stride_")] + [x for x in fats if str(x.func).endswith("stride_")]
    en_s = [x for x in ats2 if str(x).endswith("end_")] + [x for x in fats if str(x.func).endswith("end_")]
    if curv is None or len(st_s) != 1 or len(en_s) != 1 or len(blk) != 1:
        raise AnalysisBroken("operator++: current_/stride_/end_/block advance not found (stride %s, end %s, block stores %d)" % (st_s, en_s, len(blk)))
    for cur_, s_, e_, leaves in ((1, 1, 3, False), (2, 1, 3, False), (3, 1, 3, True), (3, -1, 1, False), (2, -1, 1, False), (1, -1, 1, True), (1, 2, 2, True), (1, 2, 3, False),
                                (2, 3, 2, True), (-2, -3, -8, False), (-5, -3, -8, False), (-8, -3, -8, True)):
        sub = {cur0: sp.Integer(cur_), st_s[0]: sp.Integer(s_), en_s[0]: sp.Integer(e_)}
        ex = executes(blk[0], sub, None, None, conds2)
        if ex is None:
            raise AnalysisBroken("operator++: cannot decide whether the iterator leaves the block for current=%s stride=%s end=%s" % (cur_, s_, e_))
        okc = True
        nv = None
        if not leaves and ex is False:
            nv = resolve_ite(curv, lambda cs: decide(conds2.get(cs), sub, None, None, conds2) if cs in conds2 else None)
            nv = nv.xreplace(sub) if hasattr(nv, "xreplace") else nv
            okc = not ites(nv) and sp.simplify(nv - (cur_ + s_)) == 0
        rep.check((ex is True) == leaves and okc, "R18.2", "termination|cur=%s,stride=%s,end=%s" % (cur_, s_, e_),
                  "from %s by %s up to %s: %s" % (cur_, s_, e_, "moves on to the next block" if leaves else "stays in the block at %s" % (cur_ + s_)),
                  "RangeParser::iterator::operator++ at current=%s, stride=%s, end=%s %s; ParseBlock accepts begin*stride <= end*stride, so the block must be left exactly when (current+stride)*stride > end*stride" % (
                      cur_, s_, e_, ("stays in the block" if not ex else "leaves the block") if (ex is True) != leaves else "sets current_ to %s" % nv), inc.loc(),
                  sample=((cur_, s_, e_) in ((3, -1, 1), (1, -1, 1))))

    # ---------------------------------------------------------------- R18.8 (iterator position)
    rep.rule("R18.8", "RangeParser::iterator: a position is (block, current); operator== is true exactly when both agree and operator!= is its negation "
                      "(the end position is told apart by the block only: its current_ value is an ordinary integer that a range may contain)")
    other = None

    def pos_oracle(leaf):
        if isinstance(leaf, tuple) and len(leaf) == 3 and leaf[0] in ("==", "!="):
            a_, b_ = sorted((str(leaf[1]), str(leaf[2])), key=len)
            for fld, nm in (("block_", "BLOCK"), ("current_", "CURRENT"), ("parent_", "PARENT")):
                if a_ in (fld, "this->" + fld, "deref(this)." + fld) and b_ in (other + "." + fld, other + "->" + fld):
                    return (nm, leaf[0] == "==")
            if {str(leaf[1]), str(leaf[2])} == {"deref(this)", other}:          # delegation to the sibling operator
                return ("SIBLING" + leaf[0], True)
        return None
    eqs = {}
    for opn in ("operator==", "operator!=", "operator=="):
        if len(eqs.get(opn, {})) == 4:
            continue
        eqs.pop(opn, None)
        fq = F.find(RP + "iterator::" + opn)
        if len(fq) != 1:
            raise AnalysisBroken("RangeParser::iterator::%s not found" % opn)
        fq = fq[0]
        rep.analysed(fq)
        other = fq.j["params"][0]["name"]
        fe = Fold(fq, inline=same_class).run()
        rets = [e for e in fe.events if e["kind"] == "return"]
        for B_, C_ in ((True, True), (True, False), (False, True), (False, False)):
            at_ = {"BLOCK": B_, "CURRENT": C_, "PARENT": True}
            for sib_, tab_ in eqs.items():
                if sib_ == opn or len(tab_) != 4:
                    continue
                at_["SIBLING" + sib_[len("operator"):]] = tab_[(B_, C_)]
            got = None
            for e in rets:
                if executes(e, None, at_, pos_oracle, getattr(fe, "conds", {})) is True:
                    got = decide(e["value"], None, at_, pos_oracle, getattr(fe, "conds", {})) if isinstance(e["value"], tuple) else (
                        True if e["value"] in (sp.true, True, sp.Integer(1)) else False if e["value"] in (sp.false, False, sp.Integer(0)) else None)
                    break
            if got is None and opn == "operator==" and "operator!=" not in eqs:
                break                                   # may delegate to operator!=: decided after it
            if got is None:
                raise AnalysisBroken("RangeParser::iterator::%s: result not decided for same block %s, same current %s (returns %s)" % (opn, B_, C_, [str(e["value"])[:80] for e in rets]))
            want_ = (B_ and C_) if opn == "operator==" else not (B_ and C_)
            eqs.setdefault(opn, {})[(B_, C_)] = got
            rep.check(got == want_, "R18.8", "%s|block-%s,current-%s" % (opn, "same" if B_ else "differs", "same" if C_ else "differs"), "%s -> %s" % (opn, want_),
                      "RangeParser::iterator::%s returns %s for two positions of one parser with %s block and %s current value (required %s): iteration 'it != end()' "
                      "then stops early at, or runs past, an element equal to the end marker's current_" % (opn, got, "the same" if B_ else "different", "the same" if C_ else "different", want_),
                      fq.loc(), sample=(B_ != C_))

    # ---------------------------------------------------------------- R18.3 (printer side)
    pr = [f for f in F.find(T + "operator<<") if "RangeParser" in f.j["sig"]]
    if len(pr) != 1:
        rep.broken("R18.3", "RangeParser printer not found")
    else:
        pr = pr[0]
        rep.analysed(pr)
        fop = Fold(pr, record_calls=r"operator<<$").run()
        # decided by what is printed for representative blocks: the printed text must denote the same sequence as begin:stride:end
        items = stream_items(fop)
        condsp = getattr(fop, "conds", {})

        def role(v):
            t = str(v)
            return "," if t == '","' else ":" if t == '":"' else "b" if t.endswith("begin_") else "e" if t.endswith("end_") else "s" if t.endswith("stride_") else None
        from vsa.cases import executes as _ex
        ats = set()
        for v, e in items:
            for g_ in list(e["guards"]) + [x for nl in e.get("not", []) for x in nl]:
                stack = [g_[0]]
                while stack:
                    c = stack.pop()
                    if isinstance(c, tuple):
                        stack += list(c[1:])
                    elif isinstance(c, sp.Basic):
                        ats |= {a_ for a_ in c.free_symbols}
        pick = lambda suf: [a_ for a_ in ats if str(a_).endswith(suf)]
        bA, sA, eA = pick("begin_"), pick("stride_"), pick("end_")
        okp, whyp = len(bA) == 1 and len(sA) == 1 and len(eA) == 1 and all(role(v) is not None for v, _e in items), "printed items %s" % [str(v) for v, _e in items]
        if okp:
            for b_, s_, e_ in ((1, 1, 1), (1, 1, 3), (1, 1, 2), (1, 2, 5), (1, 2, 2), (3, 5, 7), (2, 3, 2), (20, -5, 5), (5, -1, 3), (0, -1, -5), (4, -1, 4), (-8, -3, -8), (-2, -3, -8)):
                sub = {bA[0]: sp.Integer(b_), sA[0]: sp.Integer(s_), eA[0]: sp.Integer(e_)}
                txt = ""
                for v, e in items:
                    if role(v) == ",":
                        continue
                    gs = [g_ for g_ in e["guards"] if not (isinstance(g_[0], tuple) and g_[0] and g_[0][0] == "loop")]
                    x = _ex({"guards": gs, "not": e.get("not", [])}, sub, {}, None, condsp)
                    if x is None:
                        okp, whyp = False, "cannot decide whether %s is printed for the block %d:%d:%d" % (role(v), b_, s_, e_)
                        break
                    if x:
                        txt += role(v)
                if not okp:
                    break
                n_el = (e_ - b_) // s_ + 1
                good = (txt == "b" and n_el == 1) or (txt == "b:e" and s_ == 1) or txt == "b:s:e"
                if not good:
                    okp, whyp = False, "the block %d:%d:%d (%d element%s) is printed as '%s': parsing that text gives a different sequence" % (b_, s_, e_, n_el, "" if n_el == 1 else "s", txt)
                    break
        seps = [e for v, e in items if role(v) == ","]
        okp = okp and len(seps) == 1
        rep.check(okp, "R18.3", "printer-forms", "prints b (single element), b:e (stride 1), b:s:e otherwise, separated by ','",
                  "RangeParser printer: %s" % whyp, pr.loc(), sample=True)
    par = F.one(RP + "Parse")
    rep.analysed(par)
    toks = [n for n in par.walk() if n.get("k") == "construct" and "Tokenizer" in (n.get("type") or "") and len(n.get("args", [])) >= 2]
    strip = [n for n in par.walk() if n.get("k") == "lambda"]
    oks = any(lit_str(n["args"][1]) == "," for n in toks) and bool(strip) and "' '" in show_lambda(strip[0])
    calls = [n for n in par.walk() if n.get("k") == "mcall" and n.get("callee") == RP + "ParseBlock"]
    rep.check(oks and len(calls) == 1, "R18.3", "parse-split", "blanks removed, split at ',', each block parsed", "RangeParser::Parse does not strip blanks / split at ',' / parse every block", par.loc())

    # ---------------------------------------------------------------- R18.4
    IP = "votca::xtp::IndexParser::"
    civ = F.one(IP + "CreateIndexVector")
    cis = F.one(IP + "CreateIndexString")
    rep.analysed(civ); rep.analysed(cis)
    gciv = CFG(civ)
    rets = [n for n in civ.walk() if n.get("k") == "return"]
    rdecls = {unwrap(r_["value"]).get("decl") for r_ in rets if r_.get("value") is not None and unwrap(r_["value"]).get("k") == "ref"}

    def begin_end(args, decl):
        """the two arguments are <decl>.begin(), <decl>.end()"""
        if len(args) < 2:
            return False
        a0, a1 = unwrap(args[0]), unwrap(args[1])
        return all(x.get("k") == "mcall" and unwrap(x.get("obj") or {}).get("decl") == decl for x in (a0, a1)) and \
            (a0.get("callee") or "").endswith("::begin") and (a1.get("callee") or "").endswith("::end")

    def ctor_args(d):
        init = unwrap(d.get("init") or {})
        while init.get("k") in ("cast", "bind", "cleanup") and init.get("sub") is not None:
            init = unwrap(init["sub"])
        return init.get("args") or []
    ok = len(rdecls) == 1 and None not in rdecls
    if ok:
        rd = next(iter(rdecls))
        sets = [d for d in civ.decls.values() if "std::set<long" in (d.get("type") or "") and begin_end(ctor_args(d), rd)]
        asg = [n for n in civ.walk() if n.get("k") == "mcall" and (n.get("callee") or "").endswith("::assign") and unwrap(n["obj"]).get("decl") == rd
               and any(begin_end(n["args"], d["decl"] if "decl" in d else d.get("id")) for d in sets)]
        via_set = len(sets) == 1 and len(asg) == 1 and all(gciv.dominates(asg[0]["id"], r_["id"]) for r_ in rets if r_["id"] in gciv.where)
        # equivalent idiom: sort, then erase(unique(..), end)
        srt = [n for n in civ.walk() if n.get("k") == "call" and (n.get("callee") or "") == "std::sort" and begin_end(n["args"], rd)]
        unq = [n for n in civ.walk() if n.get("k") == "mcall" and (n.get("callee") or "").endswith("::erase") and unwrap(n["obj"]).get("decl") == rd
               and any(x.get("k") == "call" and (x.get("callee") or "") == "std::unique" and begin_end(x["args"], rd) for x in walk(n))]
        via_sort = len(srt) == 1 and len(unq) == 1 and gciv.dominates(srt[0]["id"], unq[0]["id"]) and all(gciv.dominates(unq[0]["id"], r_["id"]) for r_ in rets if r_["id"] in gciv.where)
        ok = via_set or via_sort
    rep.check(ok, "R18.4", "vector-normalised", "result rebuilt from std::set (or sorted and made unique) before returning",
              "IndexParser::CreateIndexVector does not pass its result through std::set (or sort + unique) before returning it", civ.loc(), sample=True)
    # 'a:b' expands to a..b inclusive: the loop that appends its counter runs from the number before the delimiter while counter <= number after it
    fciv = Fold(civ, record_calls=r"::push_back$", inline=False).run()
    okl, whyl = False, "no loop appending its counter found"
    for l in getattr(fciv, "loops", []):
        pb = [e for e in fciv.events if e["kind"] == "call" and any(isinstance(g_[0], tuple) and g_[0] and g_[0][0] == "loop" and g_[0][1] == l["lid"] for g_ in e["guards"])
              and len(e["args"]) == 1 and e["args"][0] in l["syms"].values()]
        if not pb or not isinstance(l.get("cond"), tuple) or len(l["cond"]) != 3:
            continue
        j = pb[0]["args"][0]
        k_ = [k for k, sy in l["syms"].items() if sy == j][0]
        c = l["cond"]
        other = c[2] if c[1] == j else c[1]
        from vsa.cases import decide
        STOP = sp.Symbol("_STOP", integer=True)
        from sympy.core.function import AppliedUndef
        lc = [a_ for a_ in (other.atoms(AppliedUndef) if hasattr(other, "atoms") else []) if str(a_.func) == "lexical_cast"]
        if len(lc) != 1:
            continue
        tv = [decide(c, {j: v, lc[0]: STOP}) for v in (STOP - 1, STOP, STOP + 1)]
        other = lc[0]
        start = l["init"].get(k_)
        okl = tv == [True, True, False] and sp.simplify(l["step"][k_] - j - 1) == 0 and "lexical_cast" in str(start) and "lexical_cast" in str(other) and str(start) != str(other) \
            and "substr" in str(start)
        whyl = "the range loop runs from %s while %s" % (str(start)[:80], fciv.cond_str(c))
        break
    rep.check(okl, "R18.4", "range-inclusive", "'a:b' expands to a..b inclusive", "IndexParser::CreateIndexVector does not expand a:b to a, a+1, ..., b: " + whyl, civ.loc())
    seps = [n for n in civ.walk() if n.get("k") == "construct" and "Tokenizer" in (n.get("type") or "") and len(n.get("args", [])) >= 2]
    rep.check(any(set(lit_str(n["args"][1]) or "") >= {" ", ","} for n in seps), "R18.4", "vector-separators", "tokens separated by blanks or commas", "CreateIndexVector separators changed", civ.loc())
    ipn = cis.j["params"][0]
    ipd = ipn.get("decl")
    sets2 = [d for d in cis.decls.values() if "std::set<long" in (d.get("type") or "") and begin_end(ctor_args(d), ipd)]
    su = [d for d in cis.decls.values() if "std::vector<long" in (d.get("type") or "") and any(begin_end(ctor_args(d), d2.get("decl", d2.get("id"))) for d2 in sets2)]
    uses = [n for n in cis.walk() if n.get("k") == "ref" and n.get("decl") == ipd]
    ok = len(sets2) == 1 and len(su) == 1 and len(uses) == 2
    rep.check(ok, "R18.4", "string-normalised", "string built from the sorted unique copy only", "IndexParser::CreateIndexString uses the raw input after/without normalising it through std::set", cis.loc(), sample=True)
    # one iteration of the printing loop, decided for the four cases (next value continues the run?) x (a run is open?)
    fo3 = Fold(cis, opaque_types=r"std::vector<|std::set<").run()
    lp = [l for l in getattr(fo3, "loops", []) if l.get("step") and any(isinstance(v, tuple) and v and v[0] in ("cat", "ite") for v in l["step"].values())]
    okf, why = False, "the loop that prints the runs was not recognised"
    if len(lp) == 1:
        l = lp[0]
        names = {k_: fo3.keyname(k_) for k_ in l["step"]}
        resk = [k_ for k_ in l["step"] if "basic_string" in ((cis.decls.get(k_) or {}).get("type") or "")]
        boolk = [k_ for k_ in l["step"] if (cis.decls.get(k_) or {}).get("type") in ("bool",)]
        idxk = [k_ for k_ in l["step"] if sp.simplify((l["step"][k_] if not isinstance(l["step"][k_], tuple) else sp.Integer(0)) - l["syms"][k_]) == 1]
        startk = [k_ for k_ in l["step"] if k_ not in resk + boolk + idxk]
        if len(resk) == 1 and len(boolk) == 1 and len(idxk) == 1 and len(startk) == 1:
            rs, bs, is_, ss = l["syms"][resk[0]], l["syms"][boolk[0]], l["syms"][idxk[0]], l["syms"][startk[0]]
            cur = Fn("at")(S("sorted_unique"), is_)
            conds3 = getattr(fo3, "conds", {})

            def orc(lf):
                if isinstance(lf, tuple) and len(lf) == 3 and lf[0] in ("==", "!=") and 1 in (lf[1], lf[2]):
                    other = lf[1] if lf[2] == 1 else lf[2]
                    if str(getattr(other, "func", "")) == "at" and "difference" in str(other.args[0]) and sp.simplify(other.args[1] - is_ - 1) == 0:
                        return ("RUN", lf[0] == "==")
                if lf == bs:
                    return ("OPEN", True)
                return None

            def res(v, atoms):
                if isinstance(v, tuple) and v and v[0] == "ite":
                    t = decide(v[1], None, atoms, orc, conds3)
                    return None if t is None else res(v[2] if t else v[3], atoms)
                if isinstance(v, tuple) and v and v[0] == "cat":
                    parts = []
                    for x in v[1:]:
                        r_ = res(x, atoms)
                        if r_ is None:
                            return None
                        parts += list(r_[1:]) if isinstance(r_, tuple) and r_ and r_[0] == "cat" else [r_]
                    return ("cat",) + tuple(parts)
                if hasattr(v, "args") and not isinstance(v, tuple):
                    v = resolve_ite(v, lambda cs: decide(conds3[cs], None, atoms, orc, conds3) if cs in conds3 else None)
                return v
            ts = lambda x: Fn("to_string")(x)
            okf, why = True, ""
            for run, opn in ((True, False), (True, True), (False, True), (False, False)):
                atoms = {"RUN": run, "OPEN": opn}
                rv, bv, sv = res(l["step"][resk[0]], atoms), res(l["step"][boolk[0]], atoms), res(l["step"][startk[0]], atoms)
                if rv is None or bv is None or sv is None:
                    okf, why = False, "one iteration is undecided for run-continues=%s, run-open=%s" % (run, opn)
                    break
                pieces = tuple(rv[1:]) if isinstance(rv, tuple) and rv and rv[0] == "cat" else (rv,)
                pieces = tuple(str(x) for x in pieces)
                if run:
                    want_p, want_b, want_s = (str(rs),), True, (ss if opn else cur)
                elif opn:
                    want_p, want_b, want_s = (str(rs), str(ts(ss)), '":"', str(ts(cur)), '" "'), False, ss
                else:
                    want_p, want_b, want_s = (str(rs), str(ts(cur)), '" "'), False, ss
                bval = True if bv is sp.true else (False if bv is sp.false else (opn if bv == bs else None))
                if pieces != want_p or bval != want_b or (run and sv != want_s):
                    okf, why = False, "for run-continues=%s, run-open=%s the string becomes %s (required %s), the run stays open: %s (required %s), run start %s" % (
                        run, opn, pieces, want_p, bv, want_b, sv)
                    break
    rep.check(okf, "R18.4", "run-format", "runs printed as first:last, singles as the value; a run opens at its first and closes at its last member",
              "IndexParser::CreateIndexString: " + why, cis.loc(), sample=True)
    rep.check(okf, "R18.4", "run-condition", "a run continues only while the next difference is 1", "CreateIndexString: " + why, cis.loc())

    # ---------------------------------------------------------------- R18.5
    BL = "votca::csg::BeadList::"
    gens = [f for f in F.funcs if f.qname.startswith(BL + "Generate")]
    rep.floor("R18.5", len(gens), 2, "BeadList::Generate* functions")
    for f in gens:
        rep.analysed(f)
        check_selection(rep, f)
    check_wildcmp(rep, F)
    check_wildcmp_overload(rep, F)
    rep.assumptions += ["tools::wildcmp's back-tracking matcher is not decided statically (needs exhaustive comparison with a reference matcher)",
                        "std::stoi's own input validation ('malformed expressions are rejected') is trusted"]


def check_wildcmp(rep, F):
    """conditional rule: IF wildcmp is the single-restart-point back-tracking matcher (pattern pointer rewound to a position saved at
    the last '*'), THEN the branch that rewinds the pattern must also rewind the string pointer to one past the start of the failed
    attempt.  A different matching algorithm yields no obligation (the glob semantics as a whole are not decided statically)."""
    rep.rule("R18.6", "wildcmp (if it is the restart-point back-tracking matcher): where the pattern pointer is rewound to the position saved at the last '*', "
                      "the string pointer is rewound to a saved restart point that was set to string+1 at the '*' and advances by one per failed attempt")
    fs = [f for f in F.find(T + "wildcmp") if "const char *" in f.j["sig"]]
    if len(fs) != 1:
        rep.broken("R18.6", "wildcmp(const char*, const char*) not found")
        return
    f = fs[0]
    rep.analysed(f)
    W, Sx = f.j["params"][0], f.j["params"][1]
    asg = [n for n in f.walk() if n.get("k") == "assign" and n["op"] == "="]
    saved = {}      # local decl -> 'pattern' if assigned from the pattern pointer
    for n in asg:
        l, r_ = unwrap(n["lhs"]), unwrap(n["rhs"])
        if l.get("k") == "ref" and l.get("dk") == "local" and r_.get("k") == "ref" and r_.get("decl") == W["decl"]:
            saved[l["decl"]] = n
    rewinds = [n for n in asg if unwrap(n["lhs"]).get("decl") == W["decl"] and unwrap(n["rhs"]).get("decl") in saved]
    if not rewinds:
        rep.holds("R18.6", "wildcmp|scheme", "wildcmp is not a restart-point back-tracking matcher: no obligation (semantics not decided)", f.loc())
        return
    for k, rw in enumerate(rewinds):
        comp = next(a for a in f.ancestors(rw) if a.get("k") == "compound")
        s_asg = [n for n in walk(comp) if n.get("k") == "assign" and n["op"] == "=" and unwrap(n["lhs"]).get("decl") == Sx["decl"]]
        key = "wildcmp|rewind#%d" % k
        if not s_asg:
            rep.violation("R18.6", key, "wildcmp rewinds the pattern to the position saved at the last '*' but leaves the string pointer where the failed partial match "
                          "stopped: the next attempt does not start one past the previous one, so matches that overlap a failed partial match are missed "
                          "(e.g. '*aa' against 'aaa')", f.loc(rw))
            continue
        src = unwrap(s_asg[0]["rhs"])
        inc_inline = src.get("k") == "unop" and src.get("op") == "++" and src.get("postfix")
        cp = unwrap(src["sub"]) if inc_inline else src
        if cp.get("k") != "ref" or cp.get("dk") != "local":
            rep.holds("R18.6", key, "string rewound by an expression the rule does not interpret (%s): not decided" % show(src), f.loc(rw))
            continue
        # restart pointer protocol: set to string+1 in the '*' branch (where the pattern position is saved), advanced by one here
        sets = [n for n in asg if unwrap(n["lhs"]).get("decl") == cp["decl"]]
        set_ok = any(nows(show(n["rhs"])) in ("(%s+1)" % Sx["name"], "(1+%s)" % Sx["name"]) and
                     any(any(x.get("id") == sv["id"] for x in walk(a)) for sv in saved.values() for a in [next(b for b in f.ancestors(n) if b.get("k") == "compound")])
                     for n in sets)
        adv = inc_inline or any(x.get("k") == "unop" and x.get("op") == "++" and unwrap(x["sub"]).get("decl") == cp["decl"] for x in walk(comp))
        rep.check(set_ok and adv, "R18.6", key, "string = restart; restart advances by one; restart = string+1 at '*'",
                  "wildcmp restart-point protocol broken: restart pointer %s is %s at the '*' and %s after a failed attempt" % (
                      cp.get("name"), "set to string+1" if set_ok else "NOT set to string+1", "advanced" if adv else "NOT advanced"), f.loc(rw), sample=True)


def lit_str(n):
    n = unwrap(n)
    while n.get("k") in ("construct", "cast") and (n.get("args") or n.get("sub")):
        n = unwrap(n["args"][0] if n["k"] == "construct" else n["sub"])
    return n.get("v") if n.get("k") == "str" else None


def show_lambda(l):
    return " ".join(show(x) for x in walk(l["body"]) if x.get("k") in ("binop", "return", "char"))


def check_wildcmp_overload(rep, F):
    """the std::string overload answers what the character matcher answers.  A shortcut that rejects on lengths alone is decided: every pattern
    character other than '*' consumes exactly one character, a '*' none or more - so with s stars and c other characters a string of length L can
    match iff L >= c (s > 0) or L == c (s == 0).  Other shortcuts are not interpreted (analysis-broken, not a verdict)."""
    import itertools
    from vsa.cases import decide
    rep.rule("R18.7", "wildcmp(std::string, std::string) returns what wildcmp(const char*, const char*) returns; a length-based rejection in front of the delegation "
                      "never fires for a pattern/string pair whose lengths allow a match (patterns with several '*' included)")
    fs = [f for f in F.find(T + "wildcmp") if "basic_string" in f.j["sig"]]
    if len(fs) != 1:
        rep.broken("R18.7", "the std::string overload of wildcmp was not found")
        return
    f = fs[0]
    rep.analysed(f)
    wp, sp_ = [p_["name"] for p_ in f.j["params"][:2]]
    fo = Fold(f, inline=False).run()
    conds = getattr(fo, "conds", {})
    rets = [e for e in fo.events if e["kind"] == "return"]
    deleg = [e for e in rets if str(e["value"]) == "wildcmp(c_str(%s), c_str(%s))" % (wp, sp_)]
    other = [e for e in rets if e not in deleg]
    if len(deleg) != 1:
        rep.check(False, "R18.7", "string-overload", "delegates to the character matcher", "wildcmp(string, string) does not return wildcmp(%s.c_str(), %s.c_str()) (returns %s)" % (wp, sp_, [str(e["value"])[:60] for e in rets]), f.loc(), sample=True)
        return
    SW, SS = Fn("size")(S(wp)), Fn("size")(S(sp_))
    bad = None
    for e in other:
        if e["value"] != 0:
            rep.broken("R18.7", "wildcmp(string, string) has a shortcut returning %s that the rule does not interpret" % e["value"])
            return
        for c_, s_, L in itertools.product(range(0, 4), range(0, 4), range(0, 5)):
            def orc(lf, s_=s_):
                if isinstance(lf, tuple) and len(lf) == 3 and lf[0] in ("==", "!=") and "find(%s, 42" % wp in str(lf[1]) + str(lf[2]) and "npos" in str(lf[1]) + str(lf[2]):
                    return ("STAR", lf[0] == "!=")
                return None
            sub = {SW: sp.Integer(c_ + s_), SS: sp.Integer(L)}
            for a_ in [x for g in e["guards"] for x in _walk_atoms(g[0])]:
                if str(getattr(a_, "func", "")) == "count" and "42" in str(a_):
                    sub[a_] = sp.Integer(s_)
            x = executes(e, sub, {"STAR": s_ > 0}, orc, conds)
            if x is None:
                rep.broken("R18.7", "wildcmp(string, string): the shortcut condition %s is not a function of the lengths and the presence/number of '*'" % guard_strs(fo, e["guards"]))
                return
            possible = (L >= c_) if s_ > 0 else (L == c_)
            if x and possible:
                bad = "the shortcut %s rejects a pattern with %d '*' and %d other characters against a string of length %d, although such a pair can match (e.g. '%s' vs '%s')" % (
                    guard_strs(fo, e["guards"])[0][:140], s_, c_, L, "*" * (s_ // 2) + "a" * c_ + "*" * (s_ - s_ // 2), "a" * L)
                break
        if bad:
            break
    rep.check(bad is None, "R18.7", "string-overload", "the string overload only delegates (length shortcuts never reject a possible match)", "wildcmp(string, string): %s" % bad, f.loc(), sample=True)


def _walk_atoms(c):
    out, stack = [], [c]
    while stack:
        x = stack.pop()
        if isinstance(x, tuple):
            stack += list(x[1:])
        elif isinstance(x, sp.Basic):
            out += list(sp.preorder_traversal(x))
    return out


def check_selection(rep, f):
    """BeadList::Generate*: by cases of 'the selection starts with name:' the bead is appended exactly when wildcmp(pattern, bead name / bead type) matches,
    the pattern being the selection without the prefix / the whole selection"""
    fo = Fold(f, record_calls=r"::push_back$").run()
    conds = getattr(fo, "conds", {})
    sel = f.j["params"][1]["name"]
    pushes = [e for e in fo.events if e["kind"] == "call" and str(e["obj"]) == "beads_"]
    ws = []
    for e in pushes:
        for g in list(e["guards"]) + [x for nl in e.get("not", []) for x in nl]:
            for a_ in _walk_atoms(g[0]):
                if str(getattr(a_, "func", "")) == "wildcmp" and len(a_.args) == 2 and a_ not in ws:
                    ws.append(a_)
    key = "selection|" + f.qname.split("::")[-1]
    if not pushes or not ws:
        rep.check(False, "R18.5", key, "selection by wildcmp", "%s: no append of a bead guarded by wildcmp found" % f.qname, f.loc(), sample=True)
        return
    bad = None
    fast = {"chars": set(), "eq": []}
    for byname in (True, False):
        decisive = []
        for k, w in enumerate(ws + [None]):
            def orc(lf, w=w):
                if isinstance(lf, tuple) and len(lf) == 3 and lf[0] in ("==", "!=", ">", "<", ">=", "<="):
                    t_ = str(lf[1]) + " " + str(lf[2])
                    if lf[0] in ("==", "!=") and str(getattr(lf[1], "func", "")) == "wildcmp" and lf[2] == 0:
                        return ("W%d" % ws.index(lf[1]), lf[0] == "!=")
                    if lf[0] in ("==", "!=") and '"name:"' in t_ and sel in t_ and str(getattr(lf[1], "func", "")) in ("substr", "compare") and "wildcmp" not in t_:
                        return ("BYNAME", lf[0] == "==")
                    fn_ = str(getattr(lf[1], "func", ""))
                    if lf[0] in ("==", "!=") and fn_ in ("find", "find_first_of", "find_first_not_of") and "npos" in str(lf[2]) and len(lf[1].args) >= 2:
                        a1 = lf[1].args[1]
                        txt = str(a1)
                        if fn_ == "find_first_not_of":
                            return None
                        chars = set(chr(int(txt))) if re.match(r"^\d+$", txt) else set(txt.strip('"').strip("'"))
                        fast["chars"] |= chars
                        return ("ISPAT", lf[0] == "!=")
                    if lf[0] in ("==", "!=") and "wildcmp" not in t_ and '"name:"' not in t_ and ("getName(" in t_ or "getType(" in t_):
                        fast["eq"].append((lf[1], lf[2]))
                        return ("EQ", lf[0] == "==")
                    if "radius" in t_ and "BCShortestConnection" in t_:
                        far_when_true = (lf[0] in (">", ">=") and "radius" in str(lf[2])) or (lf[0] in ("<", "<=") and "radius" in str(lf[1]))
                        return ("FAR", far_when_true)
                if str(getattr(lf, "func", "")) == "wildcmp" and lf in ws:
                    return ("W%d" % ws.index(lf), True)
                return None
            A = {"BYNAME": byname, "FAR": False, "ISPAT": True, "EQ": False}
            A.update({"W%d" % j: (w is not None and j == ws.index(w)) for j in range(len(ws))})
            live = []
            for e in pushes:
                x = executes(e, None, A, orc, conds)
                if x is None:
                    bad = "cannot decide whether a bead is appended (selection %s name:)" % ("with" if byname else "without")
                    break
                if x:
                    live.append(e)
            if bad:
                break
            if w is None and live:
                bad = "a bead is appended although no wildcmp test matched (selection %s name:)" % ("with" if byname else "without")
                break
            if w is not None and len(live) == 1:
                decisive.append(w)
            elif w is not None and len(live) > 1:
                bad = "a bead is appended %d times for one match" % len(live)
                break
        if bad:
            break
        if len(decisive) != 1:
            bad = "selection %s name: is decided by %d wildcmp tests" % ("with" if byname else "without", len(decisive))
            break
        w = decisive[0]
        pick = lambda cs: decide(conds[cs], None, {"BYNAME": byname}, orc, conds) if cs in conds else None
        pat = resolve_ite(w.args[0], pick) if hasattr(w.args[0], "args") else w.args[0]
        pat_s = re.sub(r'size\(ctor\("name:", std::allocator<char>\(\)@\d+\)\)', "5", str(pat))
        what = str(w.args[1])
        want_pat = ("substr(%s, 5, std::basic_string<char>::npos)" % sel) if byname else sel
        want_what = "getName(" if byname else "getType("
        if pat_s != want_pat or not what.startswith(want_what) or "@L" not in what:
            bad = "for a selection %s the bead is tested with wildcmp(%s, %s); required wildcmp(%s, bead.%s)" % (
                "'name:<pattern>'" if byname else "without prefix", pat_s[:60], what[:40], "the text after 'name:'" if byname else "the whole selection", "getName()" if byname else "getType()")
            break
    if bad is None and (fast["chars"] or fast["eq"]):
        # a literal shortcut: when the pattern is found to contain no wildcard the bead is compared with ==; that agrees with wildcmp exactly when the
        # test for "contains a wildcard" covers every wildcard character of wildcmp ('*' and '?'), and == compares the same pattern with the same value
        for byname in (True, False):
            for eqv in (True, False):
                A = {"BYNAME": byname, "FAR": False, "ISPAT": False, "EQ": eqv}
                A.update({"W%d" % j: False for j in range(len(ws))})
                live = [e for e in pushes if executes(e, None, A, orc, conds)]
                und = [e for e in pushes if executes(e, None, A, orc, conds) is None]
                if und:
                    bad = "cannot decide whether a bead is appended on the literal shortcut (selection %s name:)" % ("with" if byname else "without")
                elif bool(live) != eqv or len(live) > 1:
                    bad = "on the literal shortcut a bead is appended %d time(s) when the selection %s the bead's %s" % (len(live), "equals" if eqv else "differs from", "name" if byname else "type")
                if bad:
                    break
            if bad:
                break
        if bad is None and not ({"*", "?"} <= fast["chars"]):
            bad = ("selections are compared literally (==) unless they contain one of %s, but wildcmp's wildcards are '*' and '?': a selection with %s and no other wildcard "
                   "(e.g. 'C?') selects no bead" % (sorted(fast["chars"]), " / ".join("'%s'" % c_ for c_ in sorted({"*", "?"} - fast["chars"]))))
    rep.check(bad is None, "R18.5", key, "name: -> wildcmp(pattern, getName()); else wildcmp(pattern, getType())", "%s: %s" % (f.qname, bad), f.loc(), sample=True)
