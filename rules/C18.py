"""C18 - ranges, index lists, bead selection: validity vs iterator termination, print/parse grammar agreement,
normalisation through an ordered set, selection decision table (PATH, SIB, ALG)."""
import os, re
import sympy as sp
from vsa import front
from vsa.facts import Facts, unwrap, show, walk, lit_value
from vsa.front import AnalysisBroken
from vsa.alg import Fold, S, F as Fn, equal, is_zero, guard_strs
from vsa.cfg import CFG
from rules.C08 import stream_items

LEVEL = "other"
T = "votca::tools::"


def nows(s):
    return re.sub(r"\s+", "", s)


def run(rep, tier):
    rep.explanation = ("RangeParser: the block validity test of ParseBlock and the end test of iterator::operator++ are folded to "
                       "canonical comparisons and must be the same sign-aware predicate; a zero stride reaches a throw before the "
                       "block is stored; the printer's three block forms and separators are paired with the parser's token roles. "
                       "IndexParser: both directions pass through std::set. BeadList: selection decision table and wildcmp "
                       "argument order. (wildcmp's matching algorithm itself is not decided statically.)")
    rep.rule("R18.1", "ParseBlock: stride 0 reaches a throw before blocks_.push_back (every accepted expression terminates)")
    rep.rule("R18.2", "sign-aware termination: ParseBlock accepts iff begin*stride <= end*stride and operator++ leaves the block iff current*stride > end*stride")
    rep.rule("R18.3", "grammar: printer emits b | b:e | b:s:e joined by ','; Parse strips blanks and splits at ','; ParseBlock reads 1-3 ':' tokens with the same roles")
    rep.rule("R18.4", "IndexParser: CreateIndexVector and CreateIndexString both normalise through std::set<Index>; 'a:b' expands with <= b; runs are printed first:last only for consecutive values")
    rep.rule("R18.5", "BeadList::Generate*: 'name:' prefix selects getName(), otherwise getType(), both through tools::wildcmp(pattern, value)")
    host = os.path.join(front.VERIF, "hosts", "tools_rangeparser.cc")
    units = [front.repo("tools/src/libtools/rangeparser.cc"), front.repo("tools/src/libtools/tokenizer.cc"), host, front.repo("xtp/src/libxtp/IndexParser.cc"), front.repo("csg/src/libcsg/beadlist.cc")]
    F = Facts(front.export(units))
    rep.units = units
    RP = T + "RangeParser::"

    # ---------------------------------------------------------------- R18.1 / R18.2
    pb = F.one(RP + "ParseBlock")
    rep.analysed(pb)
    g = CFG(pb)
    push = [n for n in pb.walk() if n.get("k") == "mcall" and (n.get("callee") or "").endswith("::push_back") and show(n["obj"]) == "blocks_"]
    if len(push) != 1:
        raise AnalysisBroken("ParseBlock: blocks_.push_back not found")
    P = push[0]
    zero = [n for n in pb.walk() if n.get("k") == "binop" and n["op"] in ("==", "!=") and
            {nows(show(n["lhs"])), nows(show(n["rhs"]))} == {"block.stride_", "0"}]
    ok = False
    for z in zero:
        want = (z["op"] == "!=")        # push only if stride != 0
        if g.edge_required(z["id"], want, P["id"]) is True:
            # and the other edge throws
            ok = True
    rep.check(ok, "R18.1", "zero-stride", "stride == 0 -> throw before the block is stored",
              "RangeParser::ParseBlock stores a block whose stride is 0: iterating it never advances (endless loop)", pb.loc(P), sample=True)
    fo = Fold(pb, opaque_types=r"std::vector<").run()
    b_, s_, e_ = S("block.begin_"), S("block.stride_"), S("block.end_")
    env = fo.final_env

    def field(name):
        return env.get(("field", "block." + name)) if ("field", "block." + name) in env else None
    # validity comparison: a throw guarded by (begin*stride > end*stride)
    valid = None
    for gset in fo.throws:
        c, pol, _ = gset[-1]
        if isinstance(c, tuple) and c[0] in (">", "<", ">=", "<=") and pol:
            valid = c
    ok, got = False, "no validity comparison found"
    cmp_nodes = [n for n in pb.walk() if n.get("k") == "binop" and n["op"] in (">", "<") and "begin_" in show(n) and "end_" in show(n)]
    if cmp_nodes:
        c = cmp_nodes[0]
        l = Fold(pb).ev(c["lhs"], {})
        r_ = Fold(pb).ev(c["rhs"], {})
        got = "%s %s %s" % (l, c["op"], r_)
        if c["op"] == ">":
            ok = is_zero(l - b_ * s_) and is_zero(r_ - e_ * s_)
        else:
            ok = is_zero(r_ - b_ * s_) and is_zero(l - e_ * s_)
        ok = ok and g.edge_required(c["id"], False, P["id"]) is True
    rep.check(ok, "R18.2", "validity", "accept iff begin*stride <= end*stride", "ParseBlock validity test is %s (rejecting edge must lead away from the store)" % got, pb.loc(), sample=True)
    inc = F.one(RP + "iterator::operator++")
    rep.analysed(inc)
    cmps = [n for n in inc.walk() if n.get("k") == "binop" and n["op"] in (">", "<", ">=", "<=") and "current_" in show(n)]
    ok, got = False, "no end test found"
    if len(cmps) == 1:
        c = cmps[0]
        fo2 = Fold(inc)
        l, r_ = fo2.ev(c["lhs"], {}), fo2.ev(c["rhs"], {})
        cur, st, en = S("current_"), S("deref(block_).stride_"), S("deref(block_).end_")
        names = {str(x) for x in (l.free_symbols | r_.free_symbols)}
        stn = [x for x in (l.free_symbols | r_.free_symbols) if str(x).endswith("stride_")]
        enn = [x for x in (l.free_symbols | r_.free_symbols) if str(x).endswith("end_")]
        got = "%s %s %s" % (l, c["op"], r_)
        if len(stn) == 1 and len(enn) == 1:
            if c["op"] == ">":
                ok = is_zero(l - cur * stn[0]) and is_zero(r_ - enn[0] * stn[0])
            elif c["op"] == "<":
                ok = is_zero(r_ - cur * stn[0]) and is_zero(l - enn[0] * stn[0])
        elif len(enn) == 1 and not stn:
            got += "  (the sign of the stride is ignored: a descending range accepted by ParseBlock stops after its first element)"
    rep.check(ok, "R18.2", "termination", "leave the block iff current*stride > end*stride (same predicate as the validity test)",
              "RangeParser::iterator::operator++ end test is %s; ParseBlock accepts begin*stride <= end*stride, so the two disagree for negative strides" % got, inc.loc(), sample=True)
    adv = [n for n in inc.walk() if n.get("k") == "assign" and n["op"] == "+=" and nows(show(n["lhs"])) == "current_"]
    rep.check(len(adv) == 1 and nows(show(adv[0]["rhs"])).endswith("stride_") and (not cmps or CFG(inc).dominates(adv[0]["id"], cmps[0]["id"])), "R18.2", "advance",
              "current_ += stride before the end test", "operator++ does not advance current_ by the block's stride before testing the end", inc.loc())

    # ---------------------------------------------------------------- R18.3
    st = [e for e in fo.events if e["kind"] == "store" and e["target"].startswith("block.")]
    roles = {}
    for e in st:
        gs = [x for x in guard_strs(fo, e["guards"]) if re.match(r"^\(size\(toks\) == \d\)$", x)]
        roles.setdefault(gs[-1] if gs else "always", {})[e["target"].split(".")[-1]] = str(e["value"])
    tok = lambda k: "stoi(at(toks, %d), 0, 10)" % k
    want = {"always": {"stride_": "1", "begin_": tok(0), "end_": tok(0)}, "(size(toks) == 2)": {"end_": tok(1)},
            "(size(toks) == 3)": {"stride_": tok(1), "end_": tok(2)}}
    got = {k: {kk: vv for kk, vv in v.items()} for k, v in roles.items()}
    okr = all(got.get(k, {}).get(kk) == vv or (kk in ("begin_", "end_") and k == "always" and got.get(k, {}).get(kk) == tok(0)) for k, v in want.items() for kk, vv in v.items())
    rep.check(okr, "R18.3", "parser-roles", "1 token: b; 2 tokens: b:e; 3 tokens: b:s:e", "ParseBlock token roles are %s" % got, pb.loc(), sample=True)
    cnt = [n for n in pb.walk() if n.get("k") == "binop" and n["op"] == "||" and "toks.size()" in show(n)]
    rep.check(bool(cnt) and nows(show(cnt[0])) in ("((toks.size()>3)||(toks.size()<1))", "((toks.size()<1)||(toks.size()>3))"), "R18.3", "token-count",
              "1 to 3 ':' tokens accepted", "ParseBlock token-count test is %s" % (show(cnt[0]) if cnt else "?"), pb.loc())
    split = [n for n in pb.walk() if n.get("k") == "construct" and "Tokenizer" in (n.get("type") or "") and len(n.get("args", [])) >= 2]
    rep.check(any(lit_str(n["args"][1]) == ":" for n in split), "R18.3", "block-separator", "blocks are split at ':'", "ParseBlock does not tokenise at ':'", pb.loc())
    pr = [f for f in F.find(T + "operator<<") if "RangeParser" in f.j["sig"]]
    if len(pr) != 1:
        rep.broken("R18.3", "RangeParser printer not found")
    else:
        pr = pr[0]
        rep.analysed(pr)
        fop = Fold(pr, record_calls=r"operator<<$").run()
        forms = {}
        sep = None
        for v, e in stream_items(fop):
            gs = guard_strs(fop, e["guards"])
            key = " & ".join(x for x in gs if "loop" not in x)
            forms.setdefault(key, []).append(str(v))
        short = {}
        for k, items in forms.items():
            txt = "".join("," if i == '","' else ":" if i == '":"' else "b" if i.endswith("begin_") else "e" if i.endswith("end_") else "s" if i.endswith("stride_") else "?" for i in items)
            short[k] = txt
        vals = sorted(short.values())
        okp = sorted(vals) == sorted([",", "b", "b:e", "b:s:e"])
        eq_guard = [k for k, v in short.items() if v == "b"]
        st_guard = [k for k, v in short.items() if v == "b:e"]
        okp = okp and eq_guard and "begin_ == " in eq_guard[0] and st_guard and "stride_ == 1" in st_guard[0]
        rep.check(okp, "R18.3", "printer-forms", "prints b (begin==end), b:e (stride 1), b:s:e otherwise, separated by ','",
                  "RangeParser printer forms are %s" % short, pr.loc(), sample=True)
    par = F.one(RP + "Parse")
    rep.analysed(par)
    toks = [n for n in par.walk() if n.get("k") == "construct" and "Tokenizer" in (n.get("type") or "") and len(n.get("args", [])) >= 2]
    strip = [n for n in par.walk() if n.get("k") == "lambda"]
    oks = any(lit_str(n["args"][1]) == "," for n in toks) and bool(strip) and "' '" in show_lambda(strip[0])
    calls = [n for n in par.walk() if n.get("k") == "mcall" and n.get("callee") == RP + "ParseBlock"]
    rep.check(oks and len(calls) == 1, "R18.3", "parse-split", "blanks removed, split at ',', each block parsed", "RangeParser::Parse does not strip blanks / split at ',' / parse every block", par.loc())

    # ---------------------------------------------------------------- R18.4
    IP = "votca::xtp::IndexParser::"
    civ = F.one(IP + "CreateIndexVector")
    cis = F.one(IP + "CreateIndexString")
    rep.analysed(civ); rep.analysed(cis)
    sets = [d for d in civ.decls.values() if "std::set<long" in (d.get("type") or "")]
    asg = [n for n in civ.walk() if n.get("k") == "mcall" and (n.get("callee") or "").endswith("::assign") and show(n["obj"]) == "result"]
    rets = [n for n in civ.walk() if n.get("k") == "return"]
    gciv = CFG(civ)
    ok = len(sets) == 1 and nows(show(sets[0]["init"])).endswith("(result.begin(),result.end())") and len(asg) == 1 and \
        [nows(show(a)) for a in asg[0]["args"]] == ["s.begin()", "s.end()"] and all(gciv.dominates(asg[0]["id"], r_["id"]) for r_ in rets if r_["id"] in gciv.where)
    rep.check(ok, "R18.4", "vector-normalised", "result rebuilt from std::set (sorted, duplicate-free) before returning",
              "IndexParser::CreateIndexVector does not pass its result through std::set before returning it", civ.loc(), sample=True)
    loops = [n for n in civ.walk() if n.get("k") == "for" and n.get("cond") is not None]
    okl = any(nows(show(l["cond"])) == "(i<=stop)" and nows(show(l["init"]["decls"][0]["init"])) == "start" for l in loops if l.get("init") and l["init"].get("k") == "decl")
    rep.check(okl, "R18.4", "range-inclusive", "'a:b' expands to a..b inclusive", "IndexParser::CreateIndexVector does not expand a:b with i <= b", civ.loc())
    seps = [n for n in civ.walk() if n.get("k") == "construct" and "Tokenizer" in (n.get("type") or "") and len(n.get("args", [])) >= 2]
    rep.check(any(set(lit_str(n["args"][1]) or "") >= {" ", ","} for n in seps), "R18.4", "vector-separators", "tokens separated by blanks or commas", "CreateIndexVector separators changed", civ.loc())
    sets2 = [d for d in cis.decls.values() if "std::set<long" in (d.get("type") or "")]
    su = [d for d in cis.decls.values() if d.get("name") == "sorted_unique"]
    ok = len(sets2) == 1 and nows(show(sets2[0]["init"])).endswith("(indeces.begin(),indeces.end())") and len(su) == 1 and re.search(r"\(s\.begin\(\),s\.end\(\)(,std::allocator<long>\(\))?\)$", nows(show(su[0]["init"]))) is not None
    uses = [n for n in cis.walk() if n.get("k") == "ref" and n.get("name") == "indeces"]
    ok = ok and len(uses) == 2
    rep.check(ok, "R18.4", "string-normalised", "string built from the sorted unique copy only", "IndexParser::CreateIndexString uses the raw input after/without normalising it through std::set", cis.loc(), sample=True)
    d1 = [n for n in cis.walk() if n.get("k") == "binop" and n["op"] == "==" and "difference[" in show(n["lhs"])]
    rep.check(len(d1) == 1 and nows(show(d1[0])) == "(difference[(i+1)]==1)", "R18.4", "run-condition", "a run continues only while the next difference is 1",
              "CreateIndexString run condition is %s" % (show(d1[0]) if d1 else "?"), cis.loc())
    fo3 = Fold(cis, opaque_types=r"std::vector<|std::set<").run()
    adds = [str(e["value"]) for e in fo3.events if e["kind"] == "store" and e["target"] == "result"] if False else []
    txt = [nows(show(n)) for n in cis.walk() if n.get("k") == "opcall" and n.get("op") == "+=" and show(n["args"][0]) == "result"]
    okf = any('to_string(startindex)' in t and '":"' in t and 'to_string(sorted_unique[i])' in t for t in txt) and any(t.count("to_string") == 1 and "sorted_unique[i]" in t for t in txt)
    rep.check(okf, "R18.4", "run-format", "runs printed as first:last, singles as the value", "CreateIndexString output pieces are %s" % txt, cis.loc())

    # ---------------------------------------------------------------- R18.5
    BL = "votca::csg::BeadList::"
    gens = [f for f in F.funcs if f.qname.startswith(BL + "Generate")]
    rep.floor("R18.5", len(gens), 2, "BeadList::Generate* functions")
    for f in gens:
        rep.analysed(f)
        calls = [n for n in f.walk() if n.get("k") == "call" and n.get("callee") == T + "wildcmp"]
        table = {}
        for c in calls:
            a = [nows(show(x)) for x in c["args"]]
            conds = [nows(show(x["cond"])) + ("" if any(y.get("id") == c["id"] for y in walk(x["then"])) else "[else]") for x in f.ancestors(c) if x.get("k") == "if" and "selectByName" in show(x["cond"])]
            by_name = conds and (conds[0] == "selectByName" or conds[0] == "!selectByName[else]")
            table["name" if by_name else "type"] = a
        ok = table.get("name") == ["pSelect", "bead.getName()"] and table.get("type") == ["pSelect", "bead.getType()"]
        pre = [n for n in f.walk() if n.get("k") in ("opcall", "binop") and n.get("op") == "==" and '"name:"' in show(n)]
        okp = bool(pre) and "select.substr(0, 5)" in show(pre[0])
        sub = [n for n in f.walk() if n.get("k") == "opcall" and n.get("op") == "=" and show(n["args"][0]) == "pSelect"]
        oks = any(re.search(r"select\.substr\(5(,npos)?\)$", nows(show(x["args"][1]))) for x in sub) and any(nows(show(x["args"][1])) == "select" for x in sub)
        rep.check(ok and okp and oks, "R18.5", "selection|" + f.qname.split("::")[-1], "name: -> wildcmp(pattern, getName()); else wildcmp(pattern, getType())",
                  "%s: selection table is %s (prefix test ok: %s, pattern extraction ok: %s)" % (f.qname, table, okp, oks), f.loc(), sample=True)
    check_wildcmp(rep, F)
    rep.assumptions += ["tools::wildcmp's back-tracking matcher is not decided statically (needs exhaustive comparison with a reference matcher)",
                        "std::stoi's own input validation ('malformed expressions are rejected') is trusted"]


def check_wildcmp(rep, F):
    """conditional rule: IF wildcmp is the single-restart-point back-tracking matcher (pattern pointer rewound to a position saved at
    the last '*'), THEN the branch that rewinds the pattern must also rewind the string pointer to one past the start of the failed
    attempt.  A different matching algorithm yields no obligation (the glob semantics as a whole are not decided statically)."""
    rep.rule("R18.6", "wildcmp (if it is the restart-point back-tracking matcher): where the pattern pointer is rewound to the position saved at the last '*', "
                      "the string pointer is rewound to a saved restart point that was set to string+1 at the '*' and advances by one per failed attempt")
    fs = [f for f in F.find(T + "wildcmp") if "const char *" in f.j["sig"]]
    if len(fs) != 1:
        rep.broken("R18.6", "wildcmp(const char*, const char*) not found")
        return
    f = fs[0]
    rep.analysed(f)
    W, Sx = f.j["params"][0], f.j["params"][1]
    asg = [n for n in f.walk() if n.get("k") == "assign" and n["op"] == "="]
    saved = {}      # local decl -> 'pattern' if assigned from the pattern pointer
    for n in asg:
        l, r_ = unwrap(n["lhs"]), unwrap(n["rhs"])
        if l.get("k") == "ref" and l.get("dk") == "local" and r_.get("k") == "ref" and r_.get("decl") == W["decl"]:
            saved[l["decl"]] = n
    rewinds = [n for n in asg if unwrap(n["lhs"]).get("decl") == W["decl"] and unwrap(n["rhs"]).get("decl") in saved]
    if not rewinds:
        rep.holds("R18.6", "wildcmp|scheme", "wildcmp is not a restart-point back-tracking matcher: no obligation (semantics not decided)", f.loc())
        return
    for k, rw in enumerate(rewinds):
        comp = next(a for a in f.ancestors(rw) if a.get("k") == "compound")
        s_asg = [n for n in walk(comp) if n.get("k") == "assign" and n["op"] == "=" and unwrap(n["lhs"]).get("decl") == Sx["decl"]]
        key = "wildcmp|rewind#%d" % k
        if not s_asg:
            rep.violation("R18.6", key, "wildcmp rewinds the pattern to the position saved at the last '*' but leaves the string pointer where the failed partial match "
                          "stopped: the next attempt does not start one past the previous one, so matches that overlap a failed partial match are missed "
                          "(e.g. '*aa' against 'aaa')", f.loc(rw))
            continue
        src = unwrap(s_asg[0]["rhs"])
        inc_inline = src.get("k") == "unop" and src.get("op") == "++" and src.get("postfix")
        cp = unwrap(src["sub"]) if inc_inline else src
        if cp.get("k") != "ref" or cp.get("dk") != "local":
            rep.holds("R18.6", key, "string rewound by an expression the rule does not interpret (%s): not decided" % show(src), f.loc(rw))
            continue
        # restart pointer protocol: set to string+1 in the '*' branch (where the pattern position is saved), advanced by one here
        sets = [n for n in asg if unwrap(n["lhs"]).get("decl") == cp["decl"]]
        set_ok = any(nows(show(n["rhs"])) in ("(%s+1)" % Sx["name"], "(1+%s)" % Sx["name"]) and
                     any(any(x.get("id") == sv["id"] for x in walk(a)) for sv in saved.values() for a in [next(b for b in f.ancestors(n) if b.get("k") == "compound")])
                     for n in sets)
        adv = inc_inline or any(x.get("k") == "unop" and x.get("op") == "++" and unwrap(x["sub"]).get("decl") == cp["decl"] for x in walk(comp))
        rep.check(set_ok and adv, "R18.6", key, "string = restart; restart advances by one; restart = string+1 at '*'",
                  "wildcmp restart-point protocol broken: restart pointer %s is %s at the '*' and %s after a failed attempt" % (
                      cp.get("name"), "set to string+1" if set_ok else "NOT set to string+1", "advanced" if adv else "NOT advanced"), f.loc(rw), sample=True)


def lit_str(n):
    n = unwrap(n)
    while n.get("k") in ("construct", "cast") and (n.get("args") or n.get("sub")):
        n = unwrap(n["args"][0] if n["k"] == "construct" else n["sub"])
    return n.get("v") if n.get("k") == "str" else None


def show_lambda(l):
    return " ".join(show(x) for x in walk(l["body"]) if x.get("k") in ("binop", "return", "char"))
