"""C19 - table post-processing scripts: point-wise formulas and pass-through from the Perl compiler's op-tree (ALG, SIB, WHO)."""
import re
import sympy as sp
from vsa import front
from vsa import perlops as P
from vsa.alg import S, F as Fn, is_zero
from vsa.front import AnalysisBroken

LEVEL = "other"
DIR = "csg/share/scripts/inverse/"


def leq(a, b):
    """equality modulo log(x/y) = log x - log y (arguments are guarded positive)"""
    try:
        return is_zero(sp.expand_log(sp.expand(a - b), force=True)) or is_zero(a - b)
    except Exception:
        return False


def el(arr, idx):
    return Fn("elem")(S("@" + arr), idx if not isinstance(idx, str) else S(idx))


def gstr(a):
    return [(P.cstr(c), p) for c, p in a["guards"]]


def inner_guards(a):
    """guards without the loop condition (first comparison on the loop variable)"""
    return [(P.cstr(c), p) for c, p in a["guards"] if not re.match(r"^\((<=|>=|<|>) \$i ", P.cstr(c))]


def run(rep, tier):
    rep.explanation = ("The Perl compiler's op-tree (perl -MO=Concise; compile phase only, nothing is executed) of each script is parsed; "
                       "every assignment is folded to a symbolic value with its guards (cond_expr/and/or ancestors) and compared with the "
                       "documented point-wise formula; the arrays handed to saveto_table must be the grid/flag arrays read by readin_table.")
    rep.rule("R19.1", "formulas: IBI dU = kBT ln(g_cur/g_tgt) under both > 1e-10 (flag i) else carried value (flag o), both sweeps alike; Boltzmann "
                      "inversion -kBT ln(P/norm), norm in {1, x^2, sin x}; linearop a*y+b (errors a*err); shift y - zero with zero the minimum over "
                      "flagged points (bonded) / last point (non-bonded); smoothing (1/4,1/2,1/4) interior and (2y0+y1)/3 ends, only for flag i; "
                      "integration by the trapezoid recurrence")
    rep.rule("R19.2", "pass-through: the x array and the flag array written by saveto_table* are the ones filled by readin_table* (grid and flags preserved)")
    scripts = ["update_ibi_pot.pl", "dist_boltzmann_invert.pl", "table_linearop.pl", "potential_shift.pl", "table_smooth.pl", "table_integrate.pl"]
    trees = {s_: P.load(DIR + s_) for s_ in scripts}
    rep.units = [front.repo(DIR + s_) for s_ in scripts]
    rep.trusted.append("perl's own compiler (B::Concise op-tree), vsa/perlops.py")
    A = {s_: P.assignments(t) for s_, t in trees.items()}
    for s_ in scripts:
        rep.functions.add("%s (main program, %d assignments)" % (s_, len(A[s_])))

    # ---------------------------------------------------------------- update_ibi_pot.pl
    sc = "update_ibi_pot.pl"
    loc = front.repo(DIR + sc)
    i = S("$i")
    want = S("$pref") * sp.log(el("rdf_cur", i) / el("rdf_aim", i))
    main = [a for a in A[sc] if a["target"] == el("dpot", i) and a["value"].has(sp.log)]
    rep.floor("R19.1", len(main), 2, "IBI update assignments (two sweeps)")
    tgt_guard = "(and (> elem(@rdf_aim, $i) 1/10000000000) (> elem(@rdf_cur, $i) 1/10000000000))"
    sweeps = []
    for k, a in enumerate(main):
        g = inner_guards(a)
        ok = leq(a["value"], want) and g == [(tgt_guard, True)]
        rep.check(ok, "R19.1", "ibi|update#%d" % k, "dU = kBT*ln(g_cur/g_tgt) where both > 1e-10",
                  "update_ibi_pot.pl line %d: dU[i] = %s under %s; required pref*log(rdf_cur/rdf_aim) under both rdfs > 1e-10" % (a["line"], a["value"], g), "%s:%d" % (loc, a["line"]), sample=True)
        # the siblings of this sweep: flags and the carried value
        same = [b for b in A[sc] if b["guards"][:1] == a["guards"][:1] and b is not a]
        fl_i = [b for b in same if b["target"] == el("flag", i) and str(b["value"]) == '"i"' and inner_guards(b) == [(tgt_guard, True)]]
        carry = [b for b in same if b["target"] == el("dpot", i) and b["value"] == S("$value") and inner_guards(b) == [(tgt_guard, False)]]
        fl_o = [b for b in same if b["target"] == el("flag", i) and str(b["value"]) == '"o"' and inner_guards(b) == [(tgt_guard, False)]]
        keep = [b for b in same if b["target"] == S("$value") and b["value"] == el("dpot", i)]
        rep.check(len(fl_i) == 1 and len(carry) == 1 and len(fl_o) == 1 and len(keep) == 1, "R19.1", "ibi|carry#%d" % k,
                  "valid points flagged i; elsewhere the last valid value is continued with flag o",
                  "update_ibi_pot.pl sweep %d: flag/continuation assignments are incomplete (i-flag %d, carried value %d, o-flag %d, value update %d)" % (k, len(fl_i), len(carry), len(fl_o), len(keep)),
                  "%s:%d" % (loc, a["line"]))
        sweeps.append((a["value"], g))
    if len(sweeps) != 2:
        raise AnalysisBroken("update_ibi_pot.pl: the two sweeps over the table were not recognised (found %d update assignments in loops over $i)" % len(sweeps))
    rep.check(len(sweeps) == 2 and leq(sweeps[0][0], sweeps[1][0]) and sweeps[0][1] == sweeps[1][1], "R19.1", "ibi|sweeps-agree", "forward and backward sweep use the same formula and guard", "the two sweeps of update_ibi_pot.pl disagree: %s" % sweeps, loc)
    passthrough(rep, trees[sc], sc, "r_aim", None, written_flag="flag")

    # ---------------------------------------------------------------- dist_boltzmann_invert.pl
    sc = "dist_boltzmann_invert.pl"
    loc = front.repo(DIR + sc)
    inv = [a for a in A[sc] if a["target"] == el("pot", i) and a["value"].has(sp.log)]
    ok = len(inv) == 1 and leq(inv[0]["value"], -S("$kbT") * sp.log(el("dist", i) / S("$norm")))
    g = inner_guards(inv[0]) if inv else []
    if ok and not any("$dist_min" in x for x, _p in g):
        raise AnalysisBroken("dist_boltzmann_invert.pl: the guard of the inversion (dist > dist_min) is not in a recognised form: %s" % g)
    ok = ok and g[:1] == [("(> elem(@dist, $i) $dist_min)", True)]
    rep.check(ok, "R19.1", "boltzmann|formula", "U = -kBT ln(P/norm) where P > dist_min", "dist_boltzmann_invert.pl computes %s under %s" % (inv[0]["value"] if inv else "?", g), loc, sample=True)
    norms = {}
    for a in A[sc]:
        if a["target"] == S("$norm"):
            key = [x for x, p in inner_guards(a) if "$type" in x and p]
            norms[key[-1] if key else "default"] = a["value"]
    x = el("x", i)
    okn = norms.get("default") == 1 and is_zero(norms.get('(eq $type "bond")', 0) - x * x) and is_zero(norms.get('(eq $type "angle")', 0) - sp.sin(x))
    rep.check(okn, "R19.1", "boltzmann|norm", "norm = 1 (default), x^2 (bond), sin x (angle)", "dist_boltzmann_invert.pl normalisations are %s" % {k: str(v) for k, v in norms.items()}, loc, sample=True)
    passthrough(rep, trees[sc], sc, "x", "flag")

    # ---------------------------------------------------------------- table_linearop.pl
    sc = "table_linearop.pl"
    loc = front.repo(DIR + sc)
    a_, b_ = S("$a"), S("$b")
    lin = {str(a["target"]): a for a in A[sc] if str(a["target"]) in ("elem(@val, $i)", "elem(@r, $i)", "elem(@errors, $i)")}
    ok = is_zero(lin.get("elem(@val, $i)", {"value": 0})["value"] - (a_ * el("val", i) + b_)) and is_zero(lin.get("elem(@r, $i)", {"value": 0})["value"] - (a_ * el("r", i) + b_)) \
        and is_zero(lin.get("elem(@errors, $i)", {"value": 0})["value"] - a_ * el("errors", i))
    rep.check(ok, "R19.1", "linearop|formula", "y' = a*y + b, x' = a*x + b, err' = a*err", "table_linearop.pl computes %s" % {k: str(v["value"]) for k, v in lin.items()}, loc, sample=True)
    passthrough(rep, trees[sc], sc, "r", "flag")

    # ---------------------------------------------------------------- potential_shift.pl
    sc = "potential_shift.pl"
    loc = front.repo(DIR + sc)
    sh = [a for a in A[sc] if a["target"] == el("dpot", i) and a["op"] == "-="]
    ok = len(sh) == 1 and sh[0]["value"] == S("$zero") and not inner_guards(sh[0])
    rep.check(ok, "R19.1", "shift|formula", "y[i] -= zero for every point", "potential_shift.pl shifts with %s" % [(str(a["value"]), a["op"], inner_guards(a)) for a in sh], loc, sample=True)
    z = [a for a in A[sc] if a["target"] == S("$zero")]
    zs = {(str(a["value"]), tuple(x for x, p in inner_guards(a) if p and "$type" not in x and "lineseq" not in x)) for a in z}
    want_z = {("undef", ()), ("elem(@dpot, last(@r))", ()),
              ("elem(@dpot, $i)", ("(and (match elem(@flag, $i) [i]) (not (defined $zero)))",)),
              ("elem(@dpot, $i)", ("(and (match elem(@flag, $i) [i]) (< elem(@dpot, $i) $zero))",))}
    rep.check(zs == want_z, "R19.1", "shift|zero", "zero = last point (non-bonded) / minimum over points flagged i, first one taken when zero is still undefined",
              "potential_shift.pl determines the shift by %s; required %s (a truthiness test instead of defined() loses a minimum that is exactly 0)" % (sorted(zs), sorted(want_z)), loc, sample=True)
    nb = [a for a in z if str(a["value"]) == "elem(@dpot, last(@r))"]
    rep.check(len(nb) == 1 and gstr(nb[0])[:1] == [('(eq $type "non-bonded")', True)], "R19.1", "shift|non-bonded", "non-bonded: shift by the last point", "non-bonded shift is %s" % [gstr(a) for a in nb], loc)
    passthrough(rep, trees[sc], sc, "r", "flag")

    # ---------------------------------------------------------------- table_smooth.pl
    sc = "table_smooth.pl"
    loc = front.repo(DIR + sc)
    pc = lambda k: el("pot_cur", k)
    q = sp.Rational
    sm = [a for a in A[sc] if str(a["target"]).startswith("elem(@pot,")]
    inner = [a for a in sm if a["target"] == el("pot", i) and a["value"].has(pc(i - 1))]
    ok = len(inner) == 1 and is_zero(inner[0]["value"] - (q(1, 4) * pc(i - 1) + q(1, 2) * pc(i) + q(1, 4) * pc(i + 1))) and inner_guards(inner[0]) == [('(eq elem(@flag_cur, $i) "i")', True)]
    rep.check(ok, "R19.1", "smooth|interior", "(1/4, 1/2, 1/4) stencil for interior points flagged i", "table_smooth.pl interior smoothing is %s under %s" % (
        inner[0]["value"] if inner else "?", inner_guards(inner[0]) if inner else "?"), loc, sample=True)
    last = Fn("last")(S("@pot_cur"))
    e0 = [a for a in sm if a["target"] == el("pot", sp.Integer(0)) and a["value"].has(pc(sp.Integer(1)))]
    eN = [a for a in sm if a["target"] == el("pot", last) and a["value"].has(pc(last - 1))]
    ok = len(e0) == 1 and is_zero(e0[0]["value"] - (2 * pc(sp.Integer(0)) + pc(sp.Integer(1))) / 3) and len(eN) == 1 and is_zero(eN[0]["value"] - (2 * pc(last) + pc(last - 1)) / 3)
    rep.check(ok, "R19.1", "smooth|ends", "(2 y0 + y1)/3 at both ends", "table_smooth.pl end smoothing is %s / %s" % ([str(a["value"]) for a in e0], [str(a["value"]) for a in eN]), loc, sample=True)
    copies = [a for a in sm if a["value"] in (pc(i), pc(sp.Integer(0)), pc(last)) and a["target"] in (el("pot", i), el("pot", sp.Integer(0)), el("pot", last))]
    rep.check(len(copies) == 3, "R19.1", "smooth|unflagged-kept", "points not flagged i keep their value", "table_smooth.pl does not copy unflagged points unchanged (%d of 3 copies found)" % len(copies), loc)
    passthrough(rep, trees[sc], sc, "r_cur", "flag_cur")

    # ---------------------------------------------------------------- table_integrate.pl
    sc = "table_integrate.pl"
    loc = front.repo(DIR + sc)
    r_ = lambda k: el("r", k)
    f_ = lambda k: el("force", k)
    hh = [a for a in A[sc] if a["target"] == S("$hh")]
    pots = [a for a in A[sc] if str(a["target"]).startswith("elem(@pot,") and a["value"].has(S("$hh"))]
    rep.floor("R19.1", len(pots), 2, "trapezoid recurrences")
    for a in pots:
        g = [x for x, p in gstr(a) if "$from" in x]
        right = any(p for x, p in gstr(a) if x == '(eq $from "right")')
        if right:
            want_v = el("pot", i + 1) - S("$hh") * (f_(i + 1) + f_(i))
            want_h = q(1, 2) * (r_(i + 1) - r_(i))
        else:
            want_v = el("pot", i - 1) + S("$hh") * (f_(i) + f_(i - 1))
            want_h = q(1, 2) * (r_(i) - r_(i - 1))
        hs = [h for h in hh if any(p == right for x, p in gstr(h) if x == '(eq $from "right")') and not any("with_errors" in x and p for x, p in gstr(h))]
        ok = is_zero(a["value"] - want_v) and a["target"] == el("pot", i) and bool(hs) and is_zero(hs[0]["value"] - want_h)
        rep.check(ok, "R19.1", "integrate|%s" % ("right" if right else "left"), "trapezoid: U_i = U_(i+-1) -+ (r_(i+1)-r_i)/2 (f_i + f_(i+-1))",
                  "table_integrate.pl (%s) recurrence is %s with hh = %s" % ("from right" if right else "from left", a["value"], [str(h["value"]) for h in hs][:1]), loc, sample=True)
    start = {str(a["target"]): a["value"] for a in A[sc] if str(a["target"]) in ("elem(@pot, last(@r))", "elem(@pot, 0)") and a["value"] == 0}
    rep.check(len(start) == 2, "R19.1", "integrate|origin", "integration constant: U = 0 at the starting end", "table_integrate.pl does not start from 0 at the chosen end (%s)" % start, loc)
    passthrough(rep, trees[sc], sc, "r", "flag")
    rep.assumptions += ["shell wrappers (csg_table, csg_call), table_combine/scale/extrapolate and csg_resample's differentiation are not covered",
                        "integration and differentiation being mutually inverse up to discretisation error is numerical: not decided",
                        "CsgFunctions.pm's readin/saveto column order is trusted (its parsing loops are not folded)"]


def passthrough(rep, tree, sc, xarr, flagarr, written_flag=None):
    cs = P.calls(tree)
    reads = [c for c in cs if c[0].endswith(("readin_table", "readin_table_err"))]
    saves = [c for c in cs if c[0].endswith(("saveto_table", "saveto_table_err"))]
    loc = front.repo(DIR + sc)
    if not reads or not saves:
        rep.broken("R19.2", "%s: readin_table/saveto_table calls not found" % sc)
        return
    okx = all(len(c[1]) >= 2 and c[1][1] == "@" + xarr for c in saves) and any(len(c[1]) >= 2 and c[1][1] == "@" + xarr for c in reads)
    rep.check(okx, "R19.2", "grid|" + sc, "saved grid array @%s is the one read" % xarr, "%s writes grid %s but reads %s: the table is not returned on the same grid" % (
        sc, [c[1][1] if len(c[1]) > 1 else "?" for c in saves], [c[1][1] if len(c[1]) > 1 else "?" for c in reads]), loc, sample=(sc == "potential_shift.pl"))
    if flagarr:
        okf = all(("@" + flagarr) in c[1] for c in saves) and any(("@" + flagarr) in c[1] for c in reads)
        rep.check(okf, "R19.2", "flags|" + sc, "saved flag array @%s is the one read" % flagarr, "%s does not hand the flags it read to saveto_table (%s)" % (sc, [c[1] for c in saves]), loc)
    elif written_flag:
        rep.check(all(("@" + written_flag) in c[1] for c in saves), "R19.2", "flags|" + sc, "script writes its own flag array @%s" % written_flag, "%s saves flags %s" % (sc, [c[1] for c in saves]), loc)
