"""C19 - table post-processing scripts: point-wise formulas and pass-through, decided on the folded Perl op-tree (ALG, SIB, WHO)."""
import re
import itertools
import sympy as sp
from vsa import front
from vsa import perlfold as PF
from vsa.alg import S, F as Fn, is_zero
from vsa.cases import decide, executes, resolve_ite, ites
from vsa.front import AnalysisBroken

LEVEL = "other"
DIR = "csg/share/scripts/inverse/"
Q = sp.Rational


def leq(a, b):
    """equality modulo log(x/y) = log x - log y (arguments are guarded positive)"""
    try:
        return is_zero(sp.expand_log(sp.expand(a - b), force=True)) or is_zero(a - b)
    except Exception:
        return False


def el(arr, idx):
    return Fn("elem")(S("@" + arr.lstrip("@")), idx)


def in_loop(e, lid):
    return any(isinstance(g[0], tuple) and g[0] and g[0][0] == "loop" and g[0][1] == lid for g in e["guards"])


def threshold(leaf, atom, thr):
    """polarity p such that  leaf == (atom > thr)  if p else  leaf == !(atom > thr); None if the leaf is not that threshold test"""
    if not (isinstance(leaf, tuple) and len(leaf) == 3 and leaf[0] in ("<", "<=", ">", ">=")):
        return None
    if not any(hasattr(x, "has") and x.has(atom) for x in leaf[1:]):
        return None
    vals = [decide(leaf, {atom: v}) for v in (thr, 2 * thr + 1, thr - 1)]
    if vals == [False, True, False]:
        return True
    if vals == [True, False, True]:
        return False
    return None


class Script:
    def __init__(self, rep, name, array_versions=False):
        self.name = name
        self.loc = front.repo(DIR + name)
        main, subs = PF.load(DIR + name)
        pf = PF.PFold(main, subs)
        pf.array_versions = array_versions
        self.fo = pf.run()
        self.conds = getattr(self.fo, "conds", {})
        rep.functions.add("%s (main program + %d subs, %d events)" % (name, len(subs), len(self.fo.events)))

    def stores(self, arr, lid=None):
        return [e for e in self.fo.events if e["kind"] == "store" and e["array"] == "@" + arr.lstrip("@") and (lid is None or in_loop(e, lid))]

    def loop(self, lid):
        return [l for l in self.fo.loops if l["id"] == lid][0]

    def loop_of(self, e):
        lids = [g[0][1] for g in e["guards"] if isinstance(g[0], tuple) and g[0] and g[0][0] == "loop"]
        return lids[-1] if lids else None

    def resolve(self, v, atoms, oracle, sub=None):
        if not hasattr(v, "args"):
            return v
        r = resolve_ite(v, lambda cs: decide(self.conds[cs], sub, atoms, oracle, self.conds) if cs in self.conds else None)
        return r

    def final(self, arr, idx, lid, atoms, oracle, sub=None):
        """value the element has after one iteration in the scenario: the last store to it that happens (None: untouched)"""
        val = None
        for e in self.stores(arr, lid):
            if sp.simplify(e["idx"][0] - idx) != 0:
                continue
            x = executes(PF.inner(e, lid) if lid else e, sub, atoms, oracle, self.conds)
            if x is None:
                raise AnalysisBroken("%s line %s: cannot decide whether %s is written for %s" % (self.name, e["line"], e["target"], atoms))
            if x:
                val = self.resolve(e["value"], atoms, oracle, sub)
        return val

    def bounds(self, lid):
        """(first index, last index, direction) of a loop over a table"""
        l = self.loop(lid)
        if l["kind"] == "enteriter":
            if not l.get("range") or len(l["items"]) != 2:
                return None
            a, b = l["items"]
            return (b, a, -1) if l.get("reversed") else (a, b, 1)
        syms = l.get("syms", {})
        c = l.get("cond")
        if not (isinstance(c, tuple) and len(c) == 3):
            return None
        var = [nm for nm, sy in syms.items() if sy in (c[1], c[2])]
        if len(var) != 1:
            return None
        v = var[0]
        step = l["step"].get(v)
        if step is None:
            return None
        d = sp.simplify(step - syms[v])
        first = l["init"].get(v)
        op, lhs, rhs = c
        if rhs == syms[v]:
            op, lhs, rhs = {"<": ">", ">": "<", "<=": ">=", ">=": "<=", "==": "==", "!=": "!="}[op], rhs, lhs
        if d == 1 and op in ("<=", "<"):
            return (first, rhs if op == "<=" else rhs - 1, 1)
        if d == -1 and op in (">=", ">"):
            return (first, rhs if op == ">=" else rhs + 1, -1)
        return None


def check_table_io(rep):
    """R19.3: which column of a table line reaches which output array of readin_table / readin_table_err (op-tree of the subs, compile only)"""
    from vsa import perlops
    want = {"readin_table": {1: 0, 2: 1, 3: "last"}, "readin_table_err": {1: 0, 2: 1, 3: 2, 4: "last"}}
    role = {"readin_table": {1: "x", 2: "y", 3: "flag"}, "readin_table_err": {1: "x", 2: "y", 3: "error", 4: "flag"}}
    n = 0
    for sub, w in want.items():
        root = perlops.load_sub(DIR + "CsgFunctions.pm", sub)
        table, matched = perlops.push_table(root, "parts")
        for k_, col in sorted(w.items()):
            got = table.get(k_, [])
            n += 1
            ok = len(got) == 1 and got[0][0] == col
            rep.check(ok, "R19.3", "column|%s|%s" % (sub, role[sub][k_]), "%s <- column %s" % (role[sub][k_], col),
                      "CsgFunctions.pm %s: the %s array (argument %d) is filled from column(s) %s of the line, required column %s - a table with an extra column before the flag "
                      "(x y y_err flag, as csg_stat and csg_resample write) is read with the wrong %s, so every table tool built on it changes the flag semantics"
                      % (sub, role[sub][k_], k_, [g_[0] for g_ in got] or "none", col, role[sub][k_]),
                      "%s:%s" % (front.repo(DIR + "CsgFunctions.pm"), got[0][1] if got else 0), sample=(role[sub][k_] == "flag"))
        flag_src = [g_[0] for g_ in table.get(max(w), [])]
        val = [m_[0] for m_ in matched if m_[0] not in (None,)]
        n += 1
        rep.check(bool(val) and bool(flag_src) and all(v_ == flag_src[0] for v_ in val if v_ == "last" or isinstance(v_, int)) and "last" in val,
                  "R19.3", "validated-is-stored|" + sub, "the column checked against /[iou]/ is the stored flag column",
                  "CsgFunctions.pm %s validates column(s) %s as the flag but stores column %s" % (sub, val, flag_src), "%s:%s" % (front.repo(DIR + "CsgFunctions.pm"), matched[0][1] if matched else 0))
    rep.floor("R19.3", n, 9, "column obligations of readin_table / readin_table_err")


def run(rep, tier):
    rep.explanation = ("The Perl compiler's op-tree (perl -MO=Concise; compile phase only, nothing is executed) of each script is folded: scalars "
                       "through their definitions (conditional definitions become ite terms, user subs are inlined through `my (...) = @_`), array "
                       "elements stay atoms and every element write is an event with its path condition (if/elsif/else, unless, statement modifiers, "
                       "next).  The documented point-wise formulas are decided per scenario: for every assignment of the predicates the write depends "
                       "on (rdf above threshold, flag matches, interaction type) the value the table element finally receives is compared with the "
                       "formula; loops are checked for their range and direction; the arrays handed to saveto_table must be the grid/flag arrays "
                       "read by readin_table.")
    rep.rule("R19.1", "formulas: IBI dU = kBT ln(g_cur/g_tgt) where both > 1e-10 and the potential is defined (flag i), else the last valid value is "
                      "continued (flag o), forward from the rdf maximum to the end and backward to the start; Boltzmann inversion -kBT ln(P/norm), "
                      "norm in {1, x^2, sin x}, nan/u where P <= dist_min; linearop a*y+b (errors a*err); shift y - zero with zero the minimum over "
                      "flagged points (bonded) / last point (non-bonded); smoothing (1/4,1/2,1/4) interior and (2y0+y1)/3 ends, only for flag i; "
                      "integration by the trapezoid recurrence; scaling y * (p1 + (p2 - p1) w) with w linear from 0 at the first to 1 at the last point; extrapolation functions f(x0, y0, m, x) continue "
                      "the table: f(x0) = y0 and f'(x0) = m, applied outside the flagged region with the anchor point and a finite-difference slope")
    rep.rule("R19.2", "pass-through: the x array and the flag array written by saveto_table* are the ones filled by readin_table* (grid and flags preserved)")
    rep.rule("R19.3", "CsgFunctions.pm column tables: readin_table stores column 0 as x, column 1 as y and the LAST column as flag; readin_table_err stores columns 0, 1, 2 as "
                      "x, y, error and the LAST column as flag; the column validated as a flag (=~ /[iou]/) is the column stored as the flag")
    scripts = ["update_ibi_pot.pl", "dist_boltzmann_invert.pl", "table_linearop.pl", "potential_shift.pl", "table_smooth.pl", "table_integrate.pl"]
    rep.units = [front.repo(DIR + s_) for s_ in scripts]
    rep.trusted.append("perl's own compiler (B::Concise op-tree), vsa/perlfold.py")

    check_ibi(rep)
    check_boltzmann(rep)
    check_linearop(rep)
    check_shift(rep)
    check_smooth(rep)
    check_integrate(rep)
    check_scale(rep)
    check_extrapolate(rep)
    check_table_io(rep)
    rep.units = list(rep.units) + [front.repo(DIR + "table_scale.pl"), front.repo(DIR + "table_extrapolate.pl"), front.repo(DIR + "CsgFunctions.pm")]
    rep.assumptions += ["shell wrappers (csg_table, csg_call), table_combine (its operation is an eval of a run-time string) and csg_resample's differentiation are not covered",
                        "integration and differentiation being mutually inverse up to discretisation error is numerical: not decided",
                        "CsgFunctions.pm: the column tables of readin_table / readin_table_err are read off the op-tree (R19.3); the saveto_* printf formats are trusted"]


# ------------------------------------------------------------------------------------------------ update_ibi_pot.pl
def roles(sc):
    """array names by role, read off the table I/O calls: readin_table(file, X, Y, FLAG), saveto_table(file, X, Y, FLAG, comments)"""
    cs = [e for e in sc.fo.events if e["kind"] == "call"]
    rd = [e for e in cs if e["callee"] == "readin_table"]
    sv = [e for e in cs if e["callee"] == "saveto_table"]
    if len(rd) != 1 or len(sv) != 1 or len(rd[0]["arg_names"]) < 4 or len(sv[0]["arg_names"]) < 4 or None in rd[0]["arg_names"][1:4] or None in sv[0]["arg_names"][1:4]:
        raise AnalysisBroken("%s: expected one readin_table and one saveto_table call with array arguments" % sc.name)
    r_, s_ = rd[0]["arg_names"], sv[0]["arg_names"]
    return {"x": r_[1].lstrip("@"), "y": r_[2].lstrip("@"), "flag": r_[3].lstrip("@"), "xout": s_[1].lstrip("@"), "yout": s_[2].lstrip("@"), "flagout": s_[3].lstrip("@")}


def is_last(v, ro):
    return str(getattr(v, "func", "")) == "last" and str(v.args[0]).lstrip("@") in (ro["x"], ro["y"], ro["flag"])


def argv_scalar(sc, k):
    """name of the scalar that holds command-line argument k"""
    nm = [n for n, v in getattr(sc.fo, "inputs", {}).items() if v == Fn("elem")(S("@ARGV"), sp.Integer(k))]
    if len(nm) != 1:
        raise AnalysisBroken("%s: the variable holding command-line argument %d was not found" % (sc.name, k))
    return nm[0]


def read_of(sc, filevar):
    rd = [e for e in sc.fo.events if e["kind"] == "call" and e["callee"] == "readin_table" and e["args"] and str(e["args"][0]) == filevar]
    if len(rd) != 1 or len(rd[0]["arg_names"]) < 4 or None in rd[0]["arg_names"][1:4]:
        raise AnalysisBroken("%s: the readin_table call for %s was not found" % (sc.name, filevar))
    return [x.lstrip("@") for x in rd[0]["arg_names"][1:4]]


def check_ibi(rep):
    sc = Script(rep, "update_ibi_pot.pl")
    # roles: argument 0 = target rdf, 1 = current rdf, 2 = current potential, 3 = output, 4 = kBT
    XAIM, AIM, _fa = read_of(sc, argv_scalar(sc, 0))
    _xc, CUR, _fc = read_of(sc, argv_scalar(sc, 1))
    _xp, _yp, PFL = read_of(sc, argv_scalar(sc, 2))
    PREF = S(argv_scalar(sc, 4))
    sv = [e for e in sc.fo.events if e["kind"] == "call" and e["callee"] == "saveto_table"]
    if len(sv) != 1 or len(sv[0]["arg_names"]) < 4 or None in sv[0]["arg_names"][1:4] or str(sv[0]["args"][0]) != argv_scalar(sc, 3):
        raise AnalysisBroken("update_ibi_pot.pl: the saveto_table call writing the output file was not found")
    DP, FLG = [x.lstrip("@") for x in sv[0]["arg_names"][2:4]]
    main = [e for e in sc.stores(DP) if e["value"] is not None and hasattr(e["value"], "has") and e["value"].has(sp.log)]
    lids = []
    for e in main:
        l = sc.loop_of(e)
        if l and l not in lids:
            lids.append(l)
    # a sweep is a run of consecutive indices visited in one direction: a counting loop, or one range of a foreach over several ranges
    sweeps = []
    for lid in lids:
        l = sc.loop(lid)
        segs = l.get("segments") or []
        if l["kind"] == "enteriter" and len(segs) > 1:
            if any(sg[0] != "range" for sg in segs):
                raise AnalysisBroken("update_ibi_pot.pl: the sweep at line %s iterates over a list the rule does not interpret" % l["line"])
            for j_, sg in enumerate(segs):
                sweeps.append({"lid": lid, "bounds": (sg[2], sg[1], -1) if sg[3] else (sg[1], sg[2], 1), "part": j_})
        else:
            sweeps.append({"lid": lid, "bounds": sc.bounds(lid), "part": 0})
    rep.floor("R19.1", len(sweeps), 2, "IBI sweeps (index runs in which the update is written)")
    if len(sweeps) != 2:
        raise AnalysisBroken("update_ibi_pot.pl: expected two sweeps over the table, found %d" % len(sweeps))
    thr = Q(1, 10 ** 10)
    dirs = {}
    carried_of = {}
    for k, lid in enumerate(lids):
        l = sc.loop(lid)
        isym = l.get("sym") if l["kind"] == "enteriter" else None
        if isym is None:
            c = l.get("cond")
            cand = [sy for sy in l.get("syms", {}).values() if isinstance(c, tuple) and sy in c[1:]]
            isym = cand[0] if cand else None
        if isym is None:
            raise AnalysisBroken("update_ibi_pot.pl: index variable of the sweep at line %s not found" % l["line"])
        aim, cur, pfl = el(AIM, isym), el(CUR, isym), el(PFL, isym)
        carried = [(nm, sy) for nm, sy in (l.get("syms") or {}).items() if sy != isym] if l["kind"] != "enteriter" else \
                  [(nm, S("%s@%s" % (nm, lid))) for nm in l["step"] if nm != l["var"]]
        if len(carried) != 1:
            raise AnalysisBroken("update_ibi_pot.pl: the sweep at line %s carries %s around the loop (expected the last valid value only)" % (l["line"], [c_[0] for c_ in carried]))
        vname, vsym = carried[0]
        carried_of[lid] = (vname, l["init"].get(vname))

        def orc(lf):
            if isinstance(lf, tuple) and lf and lf[0] == "match" and lf[1] == pfl and "u" in str(lf[2]):
                return ("U", True)
            return None
        want_upd = PREF * sp.log(cur / aim)
        bad = None
        # the rdf values are touched through comparisons only: representatives on both sides of the threshold, including pairs whose
        # product / sum is on the other side of it than the factors
        reps = [(Q(1), Q(1)), (Q(1, 10 ** 11), Q(1)), (Q(1), Q(1, 10 ** 11)), (Q(1, 10 ** 11), Q(1, 10 ** 11)), (Q(3, 10 ** 7), Q(2, 10 ** 7)),
                (Q(2, 10 ** 11), Q(8)), (Q(8), Q(2, 10 ** 11)), (thr, Q(1)), (Q(1), thr), (Q(0), Q(1)), (Q(1), Q(0))]
        for (va, vc), u_ in itertools.product(reps, (True, False)):
            atoms = {"U": u_}
            sub = {aim: va, cur: vc}
            valid = va > thr and vc > thr and not u_
            dp = sc.final(DP, isym, lid, atoms, orc, sub)
            fl = sc.final(FLG, isym, lid, atoms, orc, sub)
            nv = sc.resolve(l["step"].get(vname), atoms, orc, sub)
            if dp is None or fl is None or nv is None or ites(dp) or ites(nv):
                raise AnalysisBroken("update_ibi_pot.pl sweep at line %s: update, flag or carried value undecided for rdf_aim=%s, rdf_cur=%s, %s" % (l["line"], va, vc, atoms))
            nv = nv.xreplace({el(DP, isym): dp}) if hasattr(nv, "xreplace") else nv
            if valid:
                ok = leq(dp, want_upd) and str(fl) == '"i"' and leq(nv, want_upd)
            else:
                ok = dp == vsym and str(fl) == '"o"' and nv == vsym
            if not ok and bad is None:
                bad = "for rdf_aim = %s, rdf_cur = %s, potential flag %s: dU = %s, flag = %s, carried value -> %s" % (
                    float(va), float(vc), "u" if u_ else "not u", dp, fl, nv)
        rep.check(bad is None, "R19.1", "ibi|update#%d" % k, "dU = kBT*ln(g_cur/g_tgt) (flag i) where both rdfs > 1e-10 and the potential is defined; else the last valid value, flag o",
                  "update_ibi_pot.pl sweep at line %s: %s; required pref*log(rdf_cur/rdf_aim)/i for valid points and the continued last valid value/o elsewhere" % (l["line"], bad),
                  "%s:%s" % (sc.loc, l["line"]), sample=True)
    for k, sw in enumerate(sweeps):
        dirs[k] = sw["bounds"]
        l = sc.loop(sw["lid"])
        vname, v0 = carried_of[sw["lid"]]
        if sw["part"] == 0:
            ok0 = v0 is not None and getattr(v0, "is_number", False)
            why0 = "starts with %s = %s" % (vname, v0)
        else:
            ok0, why0 = False, "is the continuation of a loop over several index ranges: %s still holds the last valid value of the previous range (%s..%s), which is not adjacent to the first point of this one" % (
                vname, sweeps[k - 1]["bounds"][0], sweeps[k - 1]["bounds"][1])
        rep.check(ok0, "R19.1", "ibi|fresh-start#%d" % k, "each sweep starts without a valid value from elsewhere (the continued value is a constant until a valid point is met)",
                  "update_ibi_pot.pl sweep %s..%s (line %s) %s; 'the last valid value' must be one met on the way from the rdf maximum to the point" % (
                      sw["bounds"][0] if sw["bounds"] else "?", sw["bounds"][1] if sw["bounds"] else "?", l["line"], why0), "%s:%s" % (sc.loc, l["line"]), sample=True)
    M = None
    okb, why = False, "sweep ranges %s" % ({k_: tuple(map(str, v_)) if v_ else None for k_, v_ in dirs.items()})
    fw = [b for b in dirs.values() if b and b[2] == 1]
    bw = [b for b in dirs.values() if b and b[2] == -1]
    if len(fw) == 1 and len(bw) == 1:
        M = fw[0][0]
        okb = sp.simplify(bw[0][0] - (M - 1)) == 0 and bw[0][1] == 0 and str(getattr(fw[0][1], "func", "")) == "last" and str(fw[0][1].args[0]).lstrip("@") in (XAIM, AIM, CUR, _xc) and is_argmax(sc, M, "@" + CUR)
        if not okb:
            why += "; the sweeps must start at the index of the maximum of the current rdf"
    rep.check(okb, "R19.1", "ibi|sweeps-agree", "forward sweep from the rdf maximum to the last point, backward sweep from the point before it down to 0",
              "update_ibi_pot.pl: %s; required max..last and max-1..0 (every point updated exactly once)" % why, sc.loc)
    passthrough(rep, sc, XAIM, None, written_flag=FLG)


def is_argmax(sc, M, arr):
    """M is the index of the largest element of arr: the value a user sub called with arr leaves in its running-index variable, the sub being
    `for i in 0..last: if (x[i] > max) { max = x[i]; index = i }`"""
    m = re.match(r"^(\$\w+)_after_(L\d+#\d+)$", str(M))
    if not m or not any(nm_ and arr in [str(v) for v in vals] for nm_, vals in getattr(sc.fo, "inlined_subs", [])):
        return False
    var, lid = m.groups()
    l = sc.loop(lid)
    isym = l.get("sym")
    b = sc.bounds(lid)
    if isym is None or not b or b[0] != 0 or str(getattr(b[1], "func", "")) != "last" or b[2] != 1:
        return False
    others = [nm for nm in l["step"] if nm not in (var, l["var"])]
    if len(others) != 1:
        return False
    mx = others[0]
    vs, ms = S("%s@%s" % (var, lid)), S("%s@%s" % (mx, lid))
    x = Fn("elem")(S("@_"), isym)

    def orc(lf):
        if isinstance(lf, tuple) and len(lf) == 3 and lf[0] in (">", "<") and {lf[1], lf[2]} == {x, ms}:
            return ("GT", (lf[0] == ">" and lf[1] == x) or (lf[0] == "<" and lf[2] == x))
        return None
    for gt in (True, False):
        ni = sc.resolve(l["step"][var], {"GT": gt}, orc)
        nm_ = sc.resolve(l["step"][mx], {"GT": gt}, orc)
        if ni != (isym if gt else vs) or nm_ != (x if gt else ms):
            return False
    return True


# ------------------------------------------------------------------------------------------------ dist_boltzmann_invert.pl
def check_boltzmann(rep):
    sc = Script(rep, "dist_boltzmann_invert.pl")
    ro = roles(sc)
    X, Y, FL, YO = ro["x"], ro["y"], ro["flag"], ro["yout"]
    inv = [e for e in sc.stores(YO) if hasattr(e["value"], "has") and e["value"].has(sp.log)]
    if len(inv) != 1:
        raise AnalysisBroken("dist_boltzmann_invert.pl: expected one inversion assignment, found %d" % len(inv))
    lid = sc.loop_of(inv[0])
    isym = inv[0]["idx"][0]
    dist, x = el(Y, isym), el(X, isym)
    dmin = S("$dist_min")

    def orc(lf):
        if isinstance(lf, tuple) and len(lf) == 3 and lf[0] in ("<", "<=", ">", ">=") and {str(lf[1]), str(lf[2])} == {str(dist), str(dmin)}:
            gt = (lf[0] == ">" and lf[1] == dist) or (lf[0] == "<" and lf[2] == dist)
            le = (lf[0] == "<=" and lf[1] == dist) or (lf[0] == ">=" and lf[2] == dist)
            return ("D", True) if gt else (("D", False) if le else None)
        if isinstance(lf, tuple) and len(lf) == 3 and lf[0] in ("==", "!=") and "$type" in (str(lf[1]), str(lf[2])):
            other = str(lf[2]) if str(lf[1]) == "$type" else str(lf[1])
            return ("type=" + other.strip('"'), lf[0] == "==")
        return None
    bad = None
    for d_ in (True, False):
        for ty, norm in (("bond", x * x), ("angle", sp.sin(x)), ("other", sp.Integer(1))):
            atoms = {"D": d_, "type=bond": ty == "bond", "type=angle": ty == "angle"}
            pv = sc.final(YO, isym, lid, atoms, orc)
            fv = sc.final(FL, isym, lid, atoms, orc)
            if pv is None or ites(pv):
                raise AnalysisBroken("dist_boltzmann_invert.pl: potential undecided for %s" % atoms)
            if d_:
                ok = leq(pv, -S("$kbT") * sp.log(dist / norm)) and fv is None
                want = "-kbT*log(dist/%s), flag kept" % norm
            else:
                ok = str(pv) == '"nan"' and str(fv) == '"u"'
                want = "nan with flag u"
            if not ok and bad is None:
                bad = "for dist %s dist_min and type %s the point gets %s (flag %s); required %s" % (">" if d_ else "<=", ty, pv, fv if fv is not None else "kept", want)
    rep.check(bad is None, "R19.1", "boltzmann|formula", "U = -kBT ln(P/norm) where P > dist_min, norm = 1 / x^2 (bond) / sin x (angle); nan and flag u elsewhere",
              "dist_boltzmann_invert.pl: " + (bad or ""), sc.loc, sample=True)
    b = sc.bounds(lid)
    rep.check(b is not None and b[0] == 0 and is_last(b[1], ro) and b[2] == 1, "R19.1", "boltzmann|norm", "every table point 0..last is inverted",
              "dist_boltzmann_invert.pl: the inversion loop runs over %s" % ((tuple(map(str, b)),) if b else "an unrecognised range"), sc.loc, sample=True)
    passthrough(rep, sc, X, FL)


# ------------------------------------------------------------------------------------------------ table_linearop.pl
def check_linearop(rep):
    sc = Script(rep, "table_linearop.pl")
    a_, b_ = S("$a"), S("$b")
    cs = [e for e in sc.fo.events if e["kind"] == "call"]
    rd = [e for e in cs if e["callee"] == "readin_table"]
    rde = [e for e in cs if e["callee"] == "readin_table_err"]
    if len(rd) != 1 or len(rde) != 1 or len(rd[0]["arg_names"]) < 4 or len(rde[0]["arg_names"]) < 5 or rd[0]["arg_names"][1:3] != rde[0]["arg_names"][1:3] \
            or None in rde[0]["arg_names"][1:5]:
        raise AnalysisBroken("table_linearop.pl: readin_table / readin_table_err calls on the same grid and value arrays not found")
    X, Y, E, FLG = [x.lstrip("@") for x in rde[0]["arg_names"][1:5]]
    got = {}
    for arr, want in ((Y, lambda e: a_ * e + b_), (X, lambda e: a_ * e + b_), (E, lambda e: a_ * e)):
        st = sc.stores(arr)
        ok = len(st) == 1 and not isinstance(st[0]["value"], tuple) and is_zero(st[0]["value"] - want(el(arr, st[0]["idx"][0])))
        got[arr] = (ok, [str(e["value"]) for e in st])
    rep.check(all(v[0] for v in got.values()), "R19.1", "linearop|formula", "y' = a*y + b, x' = a*x + b, err' = a*err", "table_linearop.pl computes %s" % {k: v[1] for k, v in got.items()}, sc.loc, sample=True)
    passthrough(rep, sc, X, FLG)


# ------------------------------------------------------------------------------------------------ potential_shift.pl
def check_shift(rep):
    sc = Script(rep, "potential_shift.pl")
    ro = roles(sc)
    Y, FL = ro["yout"], ro["flag"]
    sh = sc.stores(Y)
    ok, zero_used, got = False, None, [(str(e["value"]), e.get("op")) for e in sh]
    if len(sh) == 1 and ro["y"] == Y:
        e = sh[0]
        i = e["idx"][0]
        inner = PF.inner(e)
        uncond = not inner["guards"] and not inner["not"]
        z = sp.expand(el(Y, i) - e["value"])
        lid_ = sc.loop_of(e)
        b_ = sc.bounds(lid_) if lid_ else None
        ok = uncond and not z.has(el(Y, i)) and b_ is not None and b_[0] == 0 and is_last(b_[1], ro)
        zero_used = z
    rep.check(ok, "R19.1", "shift|formula", "y[i] -= zero for every point", "potential_shift.pl shifts with %s" % got, sc.loc, sample=True)
    # the shift: last point for non-bonded tables, otherwise the minimum over the points flagged i (the first one initialises it)
    oknb, zb = False, None
    if zero_used is not None:
        def orc2(lf):
            if isinstance(lf, tuple) and len(lf) == 3 and lf[0] in ("==", "!=") and "$type" in (str(lf[1]), str(lf[2])) and '"non-bonded"' in (str(lf[1]), str(lf[2])):
                return ("NB", lf[0] == "==")
            return None
        znb = sc.resolve(zero_used, {"NB": True}, orc2)
        zb = sc.resolve(zero_used, {"NB": False}, orc2)
        oknb = str(getattr(znb, "func", "")) == "elem" and str(znb.args[0]) == "@" + Y and is_last(znb.args[1], ro) and isinstance(zb, sp.Symbol)
    rep.check(oknb, "R19.1", "shift|non-bonded", "non-bonded: shift by the last point; bonded: by the minimum", "the shift is %s" % zero_used, sc.loc)
    loops = [(l, nm) for l in sc.fo.loops for nm, sy in (l.get("after") or {}).items() if zb is not None and sy == zb]
    okz, why = False, "the loop that determines the bonded shift was not found"
    if zero_used is not None and len(loops) == 1:
        l, var = loops[0]
        lid = l["id"]
        zs = S("%s@%s" % (var, lid))
        b = sc.bounds(lid)
        isym = l.get("sym") if l["kind"] == "enteriter" else next((sy for nm, sy in l.get("syms", {}).items() if nm != var and b is not None), None)
        dp, fl = el(Y, isym), el(FL, isym)

        def orc(lf):
            if isinstance(lf, tuple) and lf and lf[0] == "match" and lf[1] == fl and "i" in str(lf[2]):
                return ("F", True)
            if isinstance(lf, tuple) and lf and lf[0] == "defined" and lf[1] == zs:
                return ("DEF", True)
            if isinstance(lf, tuple) and len(lf) == 3 and lf[0] in ("<", ">") and {lf[1], lf[2]} == {dp, zs}:
                lt = (lf[0] == "<" and lf[1] == dp) or (lf[0] == ">" and lf[2] == dp)
                return ("LT", lt)
            return None
        okz, why = True, ""
        for f_, d_, t_ in itertools.product((True, False), repeat=3):
            atoms = {"F": f_, "DEF": d_, "LT": t_}
            nv = sc.resolve(l["step"][var], atoms, orc)
            if nv is None or (hasattr(nv, "args") and ites(nv)):
                okz, why = False, "the new minimum is undecided for flag-i=%s, defined=%s, smaller=%s (a truthiness test instead of defined() loses a minimum that is exactly 0)" % (f_, d_, t_)
                break
            want = dp if (f_ and ((not d_) or t_)) else zs
            if nv != want:
                okz, why = False, "for flag-i=%s, zero defined=%s, y[i] < zero=%s the running minimum becomes %s, required %s" % (f_, d_, t_, nv, want)
                break
        init = l.get("init", {}).get(var)
        if okz and str(init) != "undef":
            okz, why = False, "the running minimum starts as %s, not undef" % init
        if okz and not (b and b[0] == 0 and is_last(b[1], ro) and b[2] == 1):
            okz, why = False, "the minimum is searched over %s, not over all points" % ((tuple(map(str, b)),) if b else "an unrecognised range")
    rep.check(okz, "R19.1", "shift|zero", "zero = minimum over points flagged i, the first one taken while zero is still undefined",
              "potential_shift.pl: " + why, sc.loc, sample=True)
    passthrough(rep, sc, ro["x"], ro["flag"])


# ------------------------------------------------------------------------------------------------ table_smooth.pl
def check_smooth(rep):
    sc = Script(rep, "table_smooth.pl")
    ro = roles(sc)
    YI, YO, FL = ro["y"], ro["yout"], ro["flag"]
    LAST = S("_LAST")

    def canon(v):
        """all arrays filled by readin_table have the same length: their last indices are one symbol"""
        if isinstance(v, tuple):
            return tuple(canon(x) for x in v)
        if not isinstance(v, sp.Basic):
            return v
        return v.replace(lambda x: is_last(x, ro), lambda x: LAST)
    pc = lambda k: el(YI, k)
    loops = [l for l in sc.fo.loops if any(in_loop(e, l["id"]) for e in sc.stores(YO))]
    if len(loops) != 1:
        raise AnalysisBroken("table_smooth.pl: expected one loop over the interior points, found %d" % len(loops))
    lid = loops[0]["id"]
    isym = [sy for sy in loops[0]["syms"].values()][0] if loops[0]["kind"] != "enteriter" else loops[0]["sym"]

    def flag_oracle(idx):
        fl = el(FL, idx)

        def orc(lf):
            lf = canon(lf)
            if isinstance(lf, tuple) and len(lf) == 3 and lf[0] in ("==", "!=") and fl in (lf[1], lf[2]) and '"i"' in (str(lf[1]), str(lf[2])):
                return ("FI", lf[0] == "==")
            if isinstance(lf, tuple) and lf and lf[0] == "match" and lf[1] == fl and "i" in str(lf[2]):
                return ("FI", True)
            return None
        return orc

    def final_at(idx, l_, atoms, orc):
        """value of yout[idx] after the interior loop body (l_) or after the top-level statements, in the scenario"""
        val = None
        for e in sc.stores(YO, l_):
            if (l_ is None and sc.loop_of(e) is not None) or sp.simplify(canon(e["idx"][0]) - idx) != 0:
                continue
            if l_:
                x = executes(PF.inner(e, l_), None, atoms, orc, sc.conds)
            else:
                gs = [g for g in e["guards"] if ("elem(@%s" % FL) in str(g[0])]
                x = executes({"guards": gs, "not": []}, None, atoms, orc, sc.conds)
            if x is None:
                raise AnalysisBroken("%s line %s: cannot decide whether %s is written for %s" % (sc.name, e["line"], e["target"], atoms))
            if x:
                val = canon(sc.resolve(e["value"], atoms, orc))
        if val is None:
            src = getattr(sc.fo, "array_copies", {}).get("@" + YO.lstrip("@"))
            if src is not None:
                val = canon(el(src.lstrip("@"), idx))         # `@out = @in` before the loops: an element that is not rewritten keeps the input value
        return val
    res = {}
    for nm, idx, l_, want in (("interior", isym, lid, Q(1, 4) * pc(isym - 1) + Q(1, 2) * pc(isym) + Q(1, 4) * pc(isym + 1)),
                              ("first", sp.Integer(0), None, (2 * pc(sp.Integer(0)) + pc(sp.Integer(1))) / 3),
                              ("last", LAST, None, (2 * pc(LAST) + pc(LAST - 1)) / 3)):
        orc = flag_oracle(idx)
        vi = final_at(idx, l_, {"FI": True}, orc)
        vo = final_at(idx, l_, {"FI": False}, orc)
        res[nm] = (vi is not None and vo is not None and is_zero(vi - want) and is_zero(vo - pc(idx)), vi, vo)
    rep.check(res["interior"][0], "R19.1", "smooth|interior", "(1/4, 1/2, 1/4) stencil for interior points flagged i, others unchanged",
              "table_smooth.pl interior point: flagged i -> %s, otherwise -> %s" % (res["interior"][1], res["interior"][2]), sc.loc, sample=True)
    rep.check(res["first"][0] and res["last"][0], "R19.1", "smooth|ends", "(2 y0 + y1)/3 at both ends when flagged i, unchanged otherwise",
              "table_smooth.pl end points: first -> %s / %s, last -> %s / %s" % (res["first"][1], res["first"][2], res["last"][1], res["last"][2]), sc.loc, sample=True)
    b = sc.bounds(lid)
    okb = b is not None and b[0] == 1 and b[2] == 1 and sp.simplify(canon(b[1]) - (LAST - 1)) == 0
    rep.check(okb, "R19.1", "smooth|unflagged-kept", "interior loop covers the points 1..last-1", "table_smooth.pl interior loop runs over %s" % ((tuple(map(str, b)),) if b else "?"), sc.loc)
    passthrough(rep, sc, ro["x"], ro["flag"])


# ------------------------------------------------------------------------------------------------ table_integrate.pl
def check_integrate(rep):
    sc = Script(rep, "table_integrate.pl")
    ro = roles(sc)
    X, Y, FL, YO = ro["x"], ro["y"], ro["flag"], ro["yout"]
    r_ = lambda k: el(X, k)
    f_ = lambda k: el(Y, k)
    pots = [e for e in sc.stores(YO) if sc.loop_of(e) is not None and hasattr(e["value"], "has") and e["value"].has(Fn("elem")) and not e["value"].is_number]
    rep.floor("R19.1", len(pots), 2, "trapezoid recurrences")
    seen = set()
    for e in pots:
        i = e["idx"][0]
        gl = [sc.fo.cond_str(g[0]) + ("" if g[1] else " [false]") for g in e["guards"] if "$from" in sc.fo.cond_str(g[0])]
        right = any('"right"' in g and "[false]" not in g for g in gl) or any('"left"' in g and "[false]" in g for g in gl)
        if right:
            want = el(YO, i + 1) - Q(1, 2) * (r_(i + 1) - r_(i)) * (f_(i + 1) + f_(i))
        else:
            want = el(YO, i - 1) + Q(1, 2) * (r_(i) - r_(i - 1)) * (f_(i) + f_(i - 1))
        seen.add(right)
        rep.check(is_zero(e["value"] - want), "R19.1", "integrate|%s" % ("right" if right else "left"), "trapezoid: U_i = U_(i+-1) -+ (r_(i+1)-r_i)/2 (f_i + f_(i+-1))",
                  "table_integrate.pl (%s) recurrence is %s" % ("from right" if right else "from left", e["value"]), "%s:%s" % (sc.loc, e["line"]), sample=True)
    if seen != {True, False}:
        raise AnalysisBroken("table_integrate.pl: both integration directions expected, found %s" % seen)
    # options that modify the integrand in place before the integration (help text: --with-S adds 2 kB T / r, --sphere multiplies by r^2): all points
    pre = [e for e in sc.stores(Y) if sc.loop_of(e) is not None]
    kinds = {}
    for e in pre:
        l_ = sc.loop_of(e)
        isym_ = e["idx"][0]
        b_ = sc.bounds(l_)
        full = b_ is not None and ((b_[2] == 1 and b_[0] == 0 and is_last(b_[1], ro)) or (b_[2] == -1 and is_last(b_[0], ro) and b_[1] == 0))
        v_ = e["value"]
        inner_g = [g_ for g_ in PF.inner(e, l_)["guards"]]
        if hasattr(v_, "free_symbols") and any("kbT" in str(x_) or "kBT" in str(x_) for x_ in v_.free_symbols):
            kt = [x_ for x_ in v_.free_symbols if "kbT" in str(x_) or "kBT" in str(x_)][0]
            okv = is_zero(v_ - (f_(isym_) + 2 * kt / r_(isym_)))
            okg = len(inner_g) <= 1 and all(isinstance(g_[0], tuple) and g_[0][0] in (">", "!=") and g_[0][1] == r_(isym_) and g_[0][2] == 0 and g_[1] is True for g_ in inner_g)
            kinds["with-S"] = (okv and okg and full, "f_i += 2 kT / r_i for every point with r_i > 0",
                               "value %s under %s over %s" % (v_, [str(g_[0]) for g_ in inner_g], tuple(map(str, b_)) if b_ else "?"), e)
        elif hasattr(v_, "free_symbols") and not sp.simplify(v_ / f_(isym_)).has(f_(isym_)):
            kinds["sphere"] = (is_zero(v_ - f_(isym_) * r_(isym_) ** 2) and not inner_g and full, "f_i *= r_i^2 for every point",
                               "f_i is multiplied by %s under %s over %s" % (sp.simplify(v_ / f_(isym_)), [str(g_[0]) for g_ in inner_g], tuple(map(str, b_)) if b_ else "?"), e)
        else:
            kinds["other#%s" % e["line"]] = (False, "a documented modification of the integrand", "the integrand is rewritten as %s" % v_, e)
    for k_ in ("with-S", "sphere"):
        if k_ not in kinds:
            raise AnalysisBroken("table_integrate.pl: the in-place modification of the integrand for --%s was not found" % k_)
    for k_, (ok_, want_, got_, e_) in sorted(kinds.items()):
        rep.check(ok_, "R19.1", "integrate|option|" + k_, want_, "table_integrate.pl --%s: %s; the help text promises the term for the whole table (a skipped first or last point shifts the integral there)" % (k_, got_),
                  "%s:%s" % (sc.loc, e_["line"]), sample=(k_ == "with-S"))
    start = {("last" if is_last(e["idx"][0], ro) else str(e["idx"][0])): e["value"] for e in sc.stores(YO) if sc.loop_of(e) is None and e["value"] == 0}
    rep.check(set(start) == {"0", "last"}, "R19.1", "integrate|origin", "integration constant: U = 0 at the starting end", "table_integrate.pl does not start from 0 at the chosen end (%s)" % start, sc.loc)
    passthrough(rep, sc, X, FL)


# ------------------------------------------------------------------------------------------------ pass-through
def passthrough(rep, sc, xarr, flagarr, written_flag=None):
    cs = [e for e in sc.fo.events if e["kind"] == "call"]
    reads = [e for e in cs if e["callee"] in ("readin_table", "readin_table_err")]
    saves = [e for e in cs if e["callee"] in ("saveto_table", "saveto_table_err")]
    if not reads or not saves:
        rep.broken("R19.2", "%s: readin_table/saveto_table calls not found" % sc.name)
        return
    nm = lambda e, k: (e["arg_names"][k] if len(e["arg_names"]) > k else None)
    okx = all(nm(c, 1) == "@" + xarr for c in saves) and any(nm(c, 1) == "@" + xarr for c in reads)
    rep.check(okx, "R19.2", "grid|" + sc.name, "saved grid array @%s is the one read" % xarr, "%s writes grid %s but reads %s: the table is not returned on the same grid" % (
        sc.name, [nm(c, 1) for c in saves], [nm(c, 1) for c in reads]), sc.loc, sample=(sc.name == "potential_shift.pl"))
    if flagarr:
        okf = all(("@" + flagarr) in c["arg_names"] for c in saves) and any(("@" + flagarr) in c["arg_names"] for c in reads)
        rep.check(okf, "R19.2", "flags|" + sc.name, "saved flag array @%s is the one read" % flagarr, "%s does not hand the flags it read to saveto_table (%s)" % (sc.name, [c["arg_names"] for c in saves]), sc.loc)
    elif written_flag:
        rep.check(all(("@" + written_flag) in c["arg_names"] for c in saves), "R19.2", "flags|" + sc.name, "script writes its own flag array @%s" % written_flag,
                  "%s saves flags %s" % (sc.name, [c["arg_names"] for c in saves]), sc.loc)


# ------------------------------------------------------------------------------------------------ table_scale.pl
def check_scale(rep):
    sc = Script(rep, "table_scale.pl")
    ro = roles(sc)
    X, Y, YO = ro["x"], ro["y"], ro["yout"]
    P1, P2 = S(argv_scalar(sc, 2)), S(argv_scalar(sc, 3))
    st = sc.stores(YO)
    ok, why = len(st) == 1 and not isinstance(st[0]["value"], tuple), "expected one assignment per point, found %d" % len(st)
    if ok:
        e = st[0]
        i = e["idx"][0]
        inner = PF.inner(e)
        lid = sc.loop_of(e)
        b = sc.bounds(lid) if lid else None
        ok = not inner["guards"] and not inner["not"] and b is not None and b[0] == 0 and is_last(b[1], ro) and b[2] == 1
        why = "the scaling loop does not run unconditionally over all points 0..last"
    if ok:
        LAST = S("_LAST")
        canon = lambda v: v.replace(lambda x: is_last(x, ro), lambda x: LAST) if isinstance(v, sp.Basic) else v
        val = canon(e["value"])
        y = el(Y, i)
        fac = sp.simplify(val / y)
        ok, why = not fac.has(y), "the new value %s is not the old value times a prefactor" % str(val)[:160]
    if ok:
        # fac = p1 + (p2 - p1) w: w is read off, then its end points and its linearity (in the index or in the abscissa) are checked
        w = sp.simplify((fac - P1) / (P2 - P1))
        ok, why = not w.has(P1) and not w.has(P2), "the prefactor %s is not a linear interpolation between the two prefactors" % fac
    if ok:
        xi = lambda k: el(X, k)
        w_idx = i / LAST
        w_x = (xi(i) - xi(sp.Integer(0))) / (xi(LAST) - xi(sp.Integer(0)))
        ok = sp.simplify(w - w_idx) == 0 or sp.simplify(w - w_x) == 0
        w0, w1 = sp.simplify(w.subs(i, 0)), sp.simplify(w.subs(i, LAST))
        why = "the interpolation weight is %s: it is %s at the first point (required 0, i.e. exactly prefactor1) and %s at the last point (required 1, i.e. exactly prefactor2)" % (w, w0, w1)
    rep.check(ok, "R19.1", "scale|formula", "y' = y (p1 + (p2 - p1) w), w = 0 at the first and 1 at the last point, linear in between", "table_scale.pl: " + why, sc.loc, sample=True)
    passthrough(rep, sc, ro["x"], ro["flag"])


# ------------------------------------------------------------------------------------------------ table_extrapolate.pl
def check_extrapolate(rep):
    main, subs = PF.load(DIR + "table_extrapolate.pl")
    loc = front.repo(DIR + "table_extrapolate.pl")
    x0, y0, m, x = [Fn("elem")(S("@_"), sp.Integer(k)) for k in range(4)]
    n = 0
    for name, tree in subs.items():
        fo = PF.PFold(tree, subs)
        fo.args = [x0, y0, m, x]
        try:
            fo.run()
        except Exception as e:
            rep.broken("R19.1", "table_extrapolate.pl: sub %s cannot be folded (%s)" % (name, e))
            continue
        if len(fo.returns) != 1 or isinstance(fo.returns[0][0], tuple) or fo.returns[0][0] is None:
            continue                                  # not a closed-form extrapolation function
        f = fo.returns[0][0]
        if not (f.has(y0)):
            continue
        n += 1
        const = not f.has(x)
        at0 = sp.simplify(f.subs(x, x0) - y0)
        slope = sp.simplify(sp.diff(f, x).subs(x, x0) - (0 if const else m))
        rep.check(at0 == 0 and slope == 0, "R19.1", "extrapolate|" + name, "f(x0) = y0 and f'(x0) = %s" % ("0" if const else "m"),
                  "table_extrapolate.pl: %s(x0, y0, m, x) = %s gives f(x0) - y0 = %s and f'(x0) - m = %s: the extrapolated branch does not continue the table at the anchor point" % (
                      name, str(f)[:160], at0, slope), loc, sample=(name == "extrapolate_linear"))
    rep.floor("R19.1", n, 4, "closed-form extrapolation functions in table_extrapolate.pl")
    sc = Script(rep, "table_extrapolate.pl", array_versions=True)
    ro = roles(sc)
    X, Y = ro["x"], ro["y"]

    def unver(v):
        """the same expression with array versions removed"""
        if not isinstance(v, sp.Basic):
            return v
        return v.replace(lambda x: isinstance(x, sp.Symbol) and re.match(r"^@\w+'\d+$", str(x)) is not None, lambda x: S(str(x).split("'")[0]))

    def versions(v, arr):
        return {str(x).split("'")[1] if "'" in str(x) else "0" for x in (v.free_symbols if isinstance(v, sp.Basic) else ()) if re.match(r"^@%s('\d+)?$" % re.escape(arr), str(x))}
    st = [e for e in sc.stores(Y) if str(getattr(e["value"], "func", "")).startswith("call_") and len(e["value"].args) in (4, 5)]
    ok, why = len(st) == 2 and ro["yout"] == Y, "expected the two extrapolation sweeps (left and right), found %d" % len(st)
    dirs = set()
    for e in st if ok else []:
        a0, a1, g, a3 = e["value"].args[:4]
        vers = versions(a1, Y) | versions(g, Y)
        a0, a1, g, a3 = unver(a0), unver(a1), unver(g), unver(a3)
        i = e["idx"][0]
        anchor = a0.args[1] if str(getattr(a0, "func", "")) == "elem" and str(a0.args[0]) == "@" + X else None
        good = anchor is not None and a1 == el(Y, anchor) and a3 == el(X, i)
        lid = sc.loop_of(e)
        b = sc.bounds(lid) if lid else None
        inner = PF.inner(e)
        good = good and b is not None and not inner["guards"] and not inner["not"] and ((b[2] == -1 and sp.simplify(b[0] - (anchor - 1)) == 0 and b[1] == 0) or
                                                                                      (b[2] == 1 and sp.simplify(b[0] - (anchor + 1)) == 0 and is_last(b[1], ro)))
        if good:
            dirs.add(b[2])
            # the slope handed over: 0 for 'constant', otherwise a difference quotient of the table through the anchor point
            gs = [g_ for g_ in sp.preorder_traversal(g) if isinstance(g_, sp.Mul) or isinstance(g_, sp.Pow)]
            quot = False
            for p_, q_ in [(anchor + S("$avgpoints"), anchor), (anchor, anchor - S("$avgpoints"))]:
                dq = (el(Y, p_) - el(Y, q_)) / (el(X, p_) - el(X, q_))
                quot = quot or any(sp.simplify(sub_ - dq) == 0 for sub_ in _subterms(g))
            good = quot
        if good and len(vers) != 1:
            ok, why = False, ("the sweep at line %s mixes table values read before and after an earlier sweep changed the table (versions %s of @%s): e.g. the periodic continuation "
                              "must end at the first point as extrapolated by the left sweep, not at the value it had in the input" % (e["line"], sorted(vers), Y))
            break
        if not good:
            ok, why = False, "the sweep at line %s calls the extrapolation function with (%s, %s, %s, %s) over %s" % (e["line"], a0, a1, str(g)[:80], a3, tuple(map(str, b)) if b else "?")
            break
    if ok and dirs != {1, -1}:
        ok, why = False, "the two sweeps do not run leftwards from the first and rightwards from the last flagged point"
    rep.check(ok, "R19.1", "extrapolate|sweeps", "points left of the first / right of the last flagged point get f(x_anchor, y_anchor, slope, x_i)", "table_extrapolate.pl: " + why, sc.loc, sample=True)
    passthrough(rep, sc, ro["x"], ro["flag"])


def _subterms(v):
    out = []
    stack = [v]
    while stack:
        t = stack.pop()
        out.append(t)
        if isinstance(t, sp.Basic):
            stack += list(t.args)
    return out
