"""C12 - tables and splines interpolate, fit and resample faithfully: closed-form clauses (ALG, PATH)."""
import re
import sympy as sp
from vsa import front
from vsa.facts import Facts, unwrap, show, walk, lit_value
from vsa.front import AnalysisBroken
from vsa.alg import Fold, S, F as Fn, equal, is_zero, guard_strs
from vsa.cfg import CFG
from rules import splinelib
from rules.splinelib import gsym, grid_hook, ret_of, T, r, I

LEVEL = "proof"


def loop_stores(F, qname, names, loopvar="i", opaque=r"Eigen::Matrix<double, -1"):
    f = F.one(qname)
    fo = Fold(f, call=grid_hook(), opaque_types=opaque).run()
    out = {}
    for e in fo.events:
        if e["kind"] != "store":
            continue
        m = re.match(r"^(\w+)[\(\[](.*)[\)\]]$", e["target"])
        if m and m.group(1) in names:
            out.setdefault(m.group(1), []).append(e)
    return f, fo, out


def loop_atom(val, name="i"):
    for s in val.free_symbols:
        m = re.match(r"^\w+\[(.*)\]$", str(s))
    cands = set()
    for s in val.free_symbols:
        for m in re.finditer(r"(%s@L\d+)" % name, str(s)):
            cands.add(m.group(1))
    return cands


def run(rep, tier):
    rep.explanation = ("ALG: the coefficient formulas of the linear, cubic and Akima splines are folded to exact symbolic "
                       "expressions over grid/ordinate atoms and the interpolation, continuity, C1 and boundary identities "
                       "are decided as polynomial identities; grid generation, smoothing stencil, resample plumbing and "
                       "the interval lookup are checked structurally on AST/CFG.")
    rep.rule("R12.1", "linear spline: a_i x_i + b_i = y_i and a_i x_{i+1} + b_i = y_{i+1}")
    rep.rule("R12.2", "cubic spline: basis end values (interpolation), C''=1-t, D''=t (f2 is the curvature), one-sided slope "
                      "coefficients X_prime_l/r equal X' at the knot from the left/right interval, the rows built in Interpolate "
                      "and AddBCToFitMatrix are the C1 conditions, natural/periodic boundary rows")
    rep.rule("R12.3", "Akima: p0=y_i, p(h)=y_{i+1}, p'(0)=t_i, p'(h)=t_{i+1}; inner slopes from the four neighbouring secants; getSlope is the Akima weight formula")
    rep.rule("R12.4", "CubicSpline::Fit solves the constrained problem (AddToFitMatrix, AddBCToFitMatrix) and splits the solution as [f; f2] with the layout the matrices were filled with")
    rep.rule("R12.5", "grids: size (max-min)/h + 1.00000001 truncated, last abscissa pinned to max")
    rep.rule("R12.6", "Table::Smooth writes only the interior and uses the (1/4, 1/2, 1/4) stencil")
    rep.rule("R12.7", "csg_resample: value and derivative tables come from the same spline object on grids generated from the same (min, step, max); flags start as 'o' and are copied from the matching input point")
    rep.rule("R12.8", "Spline::getInterval returns 0 below the first knot and size-2 above the last-but-one")
    rep.rule("R12.9", "LinSpline::Fit: row i of the design matrix holds the hat-function weights of x_i on its own interval (they sum to 1 and "
                      "reproduce x_i from the two knots), the unknowns are solved against y, and each piece passes through the fitted knot values")
    rep.rule("R12.10", "Spline::getInterval (shared by the linear, cubic and Akima evaluation): inside the grid the returned index i satisfies r_[i] <= r < r_[i+1] on every "
                       "grid with increasing abscissae - the index is found by order comparisons between r and grid values only; if abscissa values enter arithmetic (a guess from "
                       "the mean spacing), the guess is corrected by loops whose exit conditions establish both inequalities")
    units = [front.repo("tools/src/libtools/" + u) for u in ("cubicspline.cc", "akimaspline.cc", "linspline.cc", "spline.cc", "table.cc")] + \
            [front.repo("csg/src/tools/csg_resample.cc")]
    F = Facts(front.export(units))
    rep.units = units
    rep.trusted.append("sympy exact polynomial arithmetic")

    # ---------------------------------------------------------------- R12.1 linear
    f, fo, st = loop_stores(F, T + "LinSpline::Interpolate", ("a", "b"))
    rep.analysed(f)
    ok, why = False, "stores to a(i), b(i) not found"
    if len(st.get("a", [])) == 1 and len(st.get("b", [])) == 1:
        a, b = st["a"][0]["value"], st["b"][0]["value"]
        cands = loop_atom(a)
        if len(cands) == 1:
            i = S(cands.pop())
            # b may refer to a[i] symbolically: substitute
            b = b.subs(gsym("a", i), a)
            e1 = a * gsym("x", i) + b - gsym("y", i)
            e2 = a * gsym("x", i + 1) + b - gsym("y", i + 1)
            ok = is_zero(e1) and is_zero(e2)
            why = "a_i = %s, b_i = %s do not satisfy a x_i + b = y_i and a x_{i+1} + b = y_{i+1}" % (a, b)
    rep.check(ok, "R12.1", "linear|interpolate", "piece i passes through (x_i,y_i) and (x_{i+1},y_{i+1})", "LinSpline::Interpolate: " + why, f.loc(), sample=True)
    f1, v = ret_of(F, T + "LinSpline::Calculate", env_by_param={"r": r})
    rep.check(is_zero(v - (gsym("a", I) * r + gsym("b", I))), "R12.1", "linear|calculate", "S(r) = a_I r + b_I", "LinSpline::Calculate returns %s" % v, f1.loc())

    # ---------------------------------------------------------------- R12.10 interval lookup
    gi = F.one(T + "Spline::getInterval")
    rep.analysed(gi)
    from vsa.cfg import CFG as _CFG
    ggi = _CFG(gi)
    rname = gi.j["params"][0]["name"]

    def is_value(n):
        """an abscissa value: the parameter r or an element of the grid r_ (r_[k], r_(k)); sizes and indices are not values"""
        n = unwrap(n)
        if n.get("k") == "ref" and show(n) == rname:
            return True
        if n.get("k") == "opcall" and n.get("op") in ("[]", "()") and show(unwrap(n["args"][0])).replace("this->", "") == "r_":
            return True
        return False

    def has_value(n):
        return any(is_value(x) for x in walk(n))
    arith = [n for n in gi.walk() if n.get("k") == "binop" and n.get("op") in ("+", "-", "*", "/") and (has_value(n["lhs"]) or has_value(n["rhs"]))]
    arith += [n for n in gi.walk() if n.get("k") in ("call", "mcall") and not (n.get("callee") or "").endswith(("::size", "::operator[]", "::operator()", "upper_bound", "lower_bound"))
              and any(is_value(a_) for a_ in (n.get("args") or []))]
    cmps = [n for n in gi.walk() if n.get("k") == "binop" and n.get("op") in ("<", "<=", ">", ">=") and has_value(n["lhs"]) and has_value(n["rhs"])]
    rep.floor("R12.10", len(cmps), 1, "comparisons between r and grid values in Spline::getInterval")
    ok, why = True, ""
    if arith:
        heads = set(ggi.back_edge_heads())
        loop_cmps = []
        for c in cmps:
            for b, _neg in ggi.cond_blocks(c["id"]):
                if b in heads or any(b in ggi.reaches([h_]) and h_ in ggi.reaches([b]) for h_ in heads):
                    loop_cmps.append(c)
        rets = [n for n in gi.walk() if n.get("k") == "return" and n["id"] in ggi.where]
        last_ret = rets[-1] if rets else None
        dom = [c for c in loop_cmps if last_ret is not None and ggi.dominates(c["id"], last_ret["id"])]
        if len(dom) < 2:
            ok = False
            why = ("the index is computed arithmetically from abscissa values (%s) and is not corrected by loops that establish r_[i] <= r and r < r_[i+1] before the return (%d "
                   "correcting loop condition(s) found): on a non-uniform grid the guess can be off by more than one interval, so a far-away polynomial piece is evaluated and the "
                   "spline does not return the data values at the data points" % (", ".join("'%s'" % show(a_)[:50] for a_ in arith[:2]), len(dom)))
    if not arith:
        # ascending scan recognised: 'if (r_[v] > r) break;' inside a loop over v, then 'return v - 1' (the last knot not above r)
        for n in gi.walk():
            if n.get("k") == "if" and any(x.get("k") == "break" for x in walk(n["then"])):
                c = unwrap(n["cond"])
                if c.get("k") == "binop" and c.get("op") in (">", "<") and has_value(c["lhs"]) and has_value(c["rhs"]):
                    grid_side = c["lhs"] if c["op"] == ">" else c["rhs"]
                    other = c["rhs"] if c["op"] == ">" else c["lhs"]
                    g_ = unwrap(grid_side)
                    if g_.get("k") == "opcall" and show(unwrap(other)) == rname:
                        v_ = show(unwrap(g_["args"][1]))
                        rets_ = [x for x in gi.walk() if x.get("k") == "return"]
                        rv = show(unwrap(rets_[-1].get("value") or rets_[-1].get("sub") or {})).replace(" ", "") if rets_ else ""
                        if re.match(r"^\w+$", v_) and rv and rv not in ("(%s-1)" % v_, "%s-1" % v_):
                            ok, why = False, "the scan stops at the first knot above r (index %s) but returns %s instead of %s - 1" % (v_, rv, v_)
    rep.check(ok, "R12.10", "interval-lookup", "index found by comparisons of r with grid values only" if not arith else "arithmetic guess corrected by loops in both directions",
              "Spline::getInterval: " + why, gi.loc(arith[0]) if arith else gi.loc(), sample=True)

    # ---------------------------------------------------------------- R12.9 linear fit
    ff = F.one(T + "LinSpline::Fit")
    rep.analysed(ff)
    ffo = Fold(ff, call=grid_hook(), opaque_types=r"Eigen::Matrix<double, -1").run()
    rows = [e for e in ffo.events if e["kind"] == "store" and e.get("idx") and len(e["idx"]) == 2 and not isinstance(e["value"], (tuple, sp.Matrix))]
    ok, why = False, "expected two stores A(i, interval), A(i, interval+1) into the design matrix, found %d" % len(rows)
    if len(rows) == 2:
        rows.sort(key=lambda e: 0 if sp.expand(e["idx"][1] - I) == 0 else 1)
        (i0, c0), (i1, c1) = rows[0]["idx"], rows[1]["idx"]
        w0, w1 = rows[0]["value"], rows[1]["value"]
        ok = i0 == i1 and sp.expand(c0 - I) == 0 and sp.expand(c1 - I - 1) == 0
        why = "the two weights of point %s go to columns %s and %s, not interval and interval+1" % (i0, c0, c1)
        if ok:
            xi = gsym("x", i0)
            ok = is_zero(w0 + w1 - 1) and is_zero(w0 * gsym("r", I) + w1 * gsym("r", I + 1) - xi)
            why = "the weights %s, %s of point x_i on its interval [r_I, r_I+1] do not sum to one / do not reproduce x_i: data that lies in the spline space is not fitted exactly on a non-uniform grid" % (w0, w1)
    rep.check(ok, "R12.9", "linear|fit-rows", "A(i,I) + A(i,I+1) = 1 and A(i,I) r_I + A(i,I+1) r_{I+1} = x_i", "LinSpline::Fit: " + why, ff.loc(rows[0]["node"] if rows else None), sample=True)
    solv = [v for k_, v in ffo.final_env.items() if not isinstance(k_, tuple) and str(getattr(v, "func", "")) == "solve"]
    ypar = ff.j["params"][1]["name"]
    mats = {re.match(r"^(\w+)\(", e["target"]).group(1) for e in rows if re.match(r"^(\w+)\(", e["target"])}
    def from_matrix(nm):
        if nm in mats:
            return True
        dd = [d_ for d_ in ff.decls.values() if d_.get("name") == nm and d_.get("init") is not None]
        return bool(dd) and any(x.get("k") == "ref" and x.get("name") in mats for x in walk(dd[0]["init"]))
    ok = len(solv) == 1 and len(solv[0].args) == 2 and str(solv[0].args[1]) == ypar and from_matrix(str(solv[0].args[0]))
    rep.check(ok, "R12.9", "linear|fit-solve", "knot values = least-squares solution of A u = y", "LinSpline::Fit solves %s (required: the design matrix against the y data)" % ([str(v) for v in solv] or "nothing"), ff.loc())
    sta = [e for e in ffo.events if e["kind"] == "store" and re.match(r"^a[\(\[]", e["target"]) and any(isinstance(g_[0], tuple) and g_[0][0] == "loop" for g_ in e["guards"])]
    stb = [e for e in ffo.events if e["kind"] == "store" and re.match(r"^b[\(\[]", e["target"]) and any(isinstance(g_[0], tuple) and g_[0][0] == "loop" for g_ in e["guards"])]
    ok, why = False, "coefficient stores a(i), b(i) not found"
    if len(sta) == 1 and len(stb) == 1:
        a, b = sta[0]["value"], stb[0]["value"]
        cands = loop_atom(a)
        if len(cands) == 1:
            i = S(cands.pop())
            b = b.subs(gsym("a", i), a)
            ok = is_zero(a * gsym("r", i) + b - gsym("sol", i)) and is_zero(a * gsym("r", i + 1) + b - gsym("sol", i + 1))
            why = "a_i = %s, b_i = %s do not pass through the fitted knot values (r_i, u_i), (r_{i+1}, u_{i+1})" % (a, b)
    rep.check(ok, "R12.9", "linear|fit-pieces", "piece i passes through the fitted values at r_i and r_{i+1}", "LinSpline::Fit: " + why, ff.loc(), sample=True)

    # ---------------------------------------------------------------- R12.2 cubic
    splinelib.check_cubic_interpolation(F, rep, "R12.2")
    splinelib.check_cubic_derivatives(F, rep, "R12.2")

    # ---------------------------------------------------------------- R12.3 Akima
    f, fo, st = loop_stores(F, T + "AkimaSpline::Interpolate", ("p0", "p1", "p2", "p3", "t"))
    rep.analysed(f)
    ok, why = False, "coefficient stores not found"
    ps = {k: [e for e in st.get(k, []) if any(isinstance(g[0], tuple) and g[0][0] == "loop" for g in e["guards"])] for k in ("p0", "p1", "p2", "p3")}
    if all(len(v) == 1 for v in ps.values()):
        p0, p1, p2, p3 = [ps[k][0]["value"] for k in ("p0", "p1", "p2", "p3")]
        cands = loop_atom(p2)
        if len(cands) == 1:
            i = S(cands.pop())
            h = gsym("x", i + 1) - gsym("x", i)
            conds = {"p(0) = y_i": p0 - gsym("y", i), "p(h) = y_{i+1}": p0 + p1 * h + p2 * h**2 + p3 * h**3 - gsym("y", i + 1),
                     "p'(0) = t_i": p1 - gsym("t", i), "p'(h) = t_{i+1}": p1 + 2 * p2 * h + 3 * p3 * h**2 - gsym("t", i + 1)}
            bad = [k for k, e in conds.items() if not is_zero(e)]
            ok = not bad
            why = "the piece coefficients violate %s" % bad
            if ok:
                # a coefficient that is assigned only conditionally keeps its start value 0 in the other intervals: the four identities must then follow from
                # what the skip condition states (every |X| <= eps / |X| < eps in it is read as X = 0)
                skipped = {}
                for k_ in ("p0", "p1", "p2", "p3"):
                    e_ = ps[k_][0]
                    ix = max(j_ for j_, g in enumerate(e_["guards"]) if isinstance(g[0], tuple) and g[0][0] == "loop")
                    inner_g = e_["guards"][ix + 1:]
                    inner_n = [nl[ix + 1:] for nl in e_.get("not", []) if len(nl) > ix + 1 and nl[:ix + 1] == e_["guards"][:ix + 1]]
                    if inner_g or inner_n:
                        skipped[k_] = (inner_g, inner_n)
                if skipped:
                    facts_ = []

                    def zeros(c):
                        if isinstance(c, tuple):
                            if len(c) == 3 and c[0] in ("<", "<=") and isinstance(c[1], sp.Basic) and c[1].func == sp.Abs:
                                facts_.append(c[1].args[0])
                            for x in c[1:]:
                                zeros(x)
                    for g_, n_ in skipped.values():
                        for c_, pol_, _n in g_:
                            zeros(c_)
                        for nl in n_:
                            for c_, pol_, _n in nl:
                                zeros(c_)
                    sub_ = {}
                    tn, yn = gsym("t", i + 1), gsym("y", i + 1)
                    for X in facts_:
                        for var in (tn, yn):
                            if X.has(var) and var not in sub_:
                                sol = sp.solve(X.xreplace(sub_), var)
                                if len(sol) == 1:
                                    sub_[var] = sol[0]
                                break
                    vals = {"p0": p0, "p1": p1, "p2": p2, "p3": p3}
                    for k_ in skipped:
                        vals[k_] = sp.Integer(0)
                    c2 = {"p(h) = y_{i+1}": vals["p0"] + vals["p1"] * h + vals["p2"] * h**2 + vals["p3"] * h**3 - gsym("y", i + 1),
                          "p'(h) = t_{i+1}": vals["p1"] + 2 * vals["p2"] * h + 3 * vals["p3"] * h**2 - gsym("t", i + 1)}
                    bad2 = [k for k, e in c2.items() if not is_zero(sp.simplify(e.xreplace(sub_)))]
                    if bad2:
                        ok = False
                        g0, n0 = next(iter(skipped.values()))
                        why = "%s are left at zero when %s; that condition only states %s, under which %s fails (a jump at the right knot of such an interval)" % (
                            "/".join(sorted(skipped)), " and ".join(guard_strs(fo, g0) + ["not (%s)" % " and ".join(guard_strs(fo, nl)) for nl in n0])[:200],
                            ["%s = 0" % x for x in facts_][:3], bad2)
    rep.check(ok, "R12.3", "akima|piece", "cubic piece matches values and slopes at both ends", "AkimaSpline::Interpolate: " + why, f.loc(), sample=True)
    # inner slopes
    inner = [e for e in st.get("t", []) if any(isinstance(g[0], tuple) and g[0][0] == "loop" for g in e["guards"])]
    ok, why = False, "inner slope store not found"
    if len(inner) == 1:
        val = inner[0]["value"]
        if str(getattr(val, "func", "")) == "getSlope" and len(val.args) >= 4:
            ms = list(val.args[-4:])
            cands = loop_atom(val)
            if len(cands) == 1:
                i = S(cands.pop())
                sec = lambda k: (gsym("y", i + k + 1) - gsym("y", i + k)) / (gsym("x", i + k + 1) - gsym("x", i + k))
                want = [sec(-2), sec(-1), sec(0), sec(1)]
                ok = all(is_zero(a - b) for a, b in zip(ms, want))
                why = "inner slope t(i) uses secants %s" % ms
    rep.check(ok, "R12.3", "akima|inner-slopes", "t_i = getSlope(m_{i-2}, m_{i-1}, m_i, m_{i+1})", "AkimaSpline::Interpolate: " + why, f.loc())
    fs = F.one(T + "AkimaSpline::getSlope")
    rep.analysed(fs)
    fo = Fold(fs).run()
    m1, m2, m3, m4 = [S(p["name"]) for p in fs.j["params"]]
    gen = [v for v, g, _ in fo.returns if g and not g[-1][1]]
    deg = [v for v, g, _ in fo.returns if g and g[-1][1]]
    w = (sp.Abs(m4 - m3) * m2 + sp.Abs(m2 - m1) * m3) / (sp.Abs(m4 - m3) + sp.Abs(m2 - m1))
    ok = len(gen) == 1 and len(deg) == 1 and is_zero(gen[0] - w) and is_zero(deg[0] - (m2 + m3) / 2)
    rep.check(ok, "R12.3", "akima|getSlope", "Akima weights |m4-m3| m2 + |m2-m1| m3 over their sum; mean of m2, m3 in the degenerate case",
              "AkimaSpline::getSlope returns %s / %s" % (gen, deg), fs.loc(), sample=True)

    # ---------------------------------------------------------------- R12.4 Fit layout
    ff = F.one(T + "CubicSpline::Fit")
    rep.analysed(ff)
    calls = {n.get("callee", "").split("::")[-1]: n for n in ff.walk() if n.get("k") in ("call", "mcall")}
    ok = "linalg_constrained_qrsolve" in calls and "AddBCToFitMatrix" in calls and "AddToFitMatrix" in calls
    why = "Fit does not call AddToFitMatrix, AddBCToFitMatrix and linalg_constrained_qrsolve"
    if ok:
        q = calls["linalg_constrained_qrsolve"]
        a = [show(x) for x in q["args"]]
        bc, fm = calls["AddBCToFitMatrix"], calls["AddToFitMatrix"]
        ok = show(fm["args"][0]) == a[0] and show(bc["args"][0]) == a[2] and a[1] == "y"
        why = "constrained solve is called with %s while the fit matrix is %s and the constraint matrix %s" % (a, show(fm["args"][0]), show(bc["args"][0]))
        if ok:
            segs = {}
            for n in ff.walk():
                if n.get("k") == "opcall" and n.get("op") == "=" and unwrap(n["args"][0]).get("fname") in ("f_", "f2_"):
                    rhs = unwrap(n["args"][1])
                    while rhs.get("k") in ("construct", "cast") and rhs.get("args"):
                        rhs = unwrap(rhs["args"][0])
                    segs[unwrap(n["args"][0])["fname"]] = show(rhs)
            ok = segs.get("f_") == "sol.segment(0, ngrid)" and segs.get("f2_") == "sol.segment(ngrid, ngrid)"
            if not ok and segs.get("f_") == "sol.head(ngrid)" and segs.get("f2_") == "sol.tail(ngrid)":
                # head/tail split the solution in the middle iff it has 2*ngrid entries: the fit matrix handed to the solve has 2*ngrid columns
                adecl = [d_ for d_ in ff.decls.values() if d_.get("name") == a[0] and d_.get("init") is not None]
                if len(adecl) == 1:
                    fof = Fold(ff, inline=False)
                    fof.run()
                    try:
                        iv = fof.ev(adecl[0]["init"], fof.final_env)
                    except Exception:
                        iv = None
                    hd = [x for x in ff.walk() if x.get("k") == "mcall" and (x.get("callee") or "").endswith("::head") and show(x.get("obj")) == "sol"]
                    try:
                        hv = fof.ev(hd[0]["args"][0], fof.final_env) if hd and hd[0].get("args") else None
                    except Exception:
                        hv = None
                    cols = iv.args[-1] if iv is not None and getattr(iv, "args", None) else None
                    ok = hv is not None and cols is not None and sp.simplify(cols - 2 * hv) == 0
            why = "solution split is %s, required f_ = sol[0:ngrid], f2_ = sol[ngrid:2 ngrid]" % segs
    rep.check(ok, "R12.4", "cubic|fit-layout", "Fit = constrained solve over [f; f2]", "CubicSpline::Fit: " + why, ff.loc(), sample=True)

    # ---------------------------------------------------------------- R12.5 grids
    for qn, arr in ((T + "Spline::GenerateGrid", "r_"), (T + "Table::GenerateGridSpacing", "x_")):
        fg = F.one(qn)
        rep.analysed(fg)
        ps = [p["name"] for p in fg.j["params"]]
        d = [dd for dd in fg.decls.values() if dd.get("name") == "vec_size" and dd.get("init") is not None]
        ok = False
        got = "?"
        if d:
            v = Fold(fg).ev(d[0]["init"], {})
            got = str(v)
            want = Fn("toint")((S(ps[1]) - S(ps[0])) / S(ps[2]) + sp.Rational("1.00000001"))
            ok = is_zero(v - want) or str(v) == str(want)
        rep.check(ok, "R12.5", "grid-size|" + qn.split("::")[-1], "size = trunc((max-min)/h + 1.00000001)", "%s computes the grid size as %s" % (qn, got), fg.loc())
        # last point pinned: an assignment arr[i] = max after the loop, on every path to the exit
        g = CFG(fg)
        pins = [n for n in fg.walk() if n.get("k") in ("assign", "opcall") and n.get("op") == "=" and
                show(n.get("lhs") or n["args"][0]).startswith(arr + "[") and show(n.get("rhs") or n["args"][1]) == ps[1]]
        ok = bool(pins) and all(g.dominates_block(g.where[pins[-1]["id"]][0], b) for b in g.exit_blocks())
        rep.check(ok, "R12.5", "grid-pin|" + qn.split("::")[-1], "last abscissa = max on every path", "%s does not pin the last grid point to max" % qn, fg.loc(), sample=True)

    # ---------------------------------------------------------------- R12.6 Smooth
    fsm = F.one(T + "Table::Smooth")
    rep.analysed(fsm)
    asg = [n for n in fsm.walk() if n.get("k") == "opcall" and n.get("op") == "=" and show(n["args"][0]).startswith("y_.segment(")]
    ok, why = False, "no assignment to y_.segment(...) found"
    if len(asg) == 1:
        lhs = show(asg[0]["args"][0])
        ok = lhs == "y_.segment(1, n_2)"
        why = "smoothing writes %s (the end points must stay)" % lhs
        n2 = [d for d in fsm.decls.values() if d.get("name") == "n_2"]
        ok = ok and bool(n2) and show(n2[0]["init"]) == "(size() - 2)"
        if ok:
            def call(fold, n, env):
                cal = (n.get("callee") or "").split("::")[-1]
                if n.get("k") == "mcall" and show(n.get("obj")) == "y_" and cal in ("head", "segment", "tail"):
                    return S({"head": "Ym", "segment": "Y0", "tail": "Yp"}[cal])
                if n.get("k") == "mcall" and cal == "eval":
                    return fold.ev(n["obj"], env)
                return NotImplemented
            v = Fold(fsm, call=call).ev(asg[0]["args"][1], {})
            want = (S("Ym") + 2 * S("Y0") + S("Yp")) / 4
            ok = not isinstance(v, tuple) and is_zero(v - want)
            why = "stencil is %s, required (y_{i-1} + 2 y_i + y_{i+1})/4 (which maps straight lines to themselves)" % v
            segargs = [show(n) for n in walk(asg[0]["args"][1]) if n.get("k") == "mcall" and show(n.get("obj")) == "y_"]
            ok = ok and sorted(segargs) == sorted(["y_.head(n_2)", "y_.segment(1, n_2)", "y_.tail(n_2)"])
    rep.check(ok, "R12.6", "smooth", "y[1..n-2] <- (y[i-1] + 2 y[i] + y[i+1])/4", "Table::Smooth: " + why, fsm.loc(), sample=True)

    # ---------------------------------------------------------------- R12.7 csg_resample
    fm = [f for f in F.funcs if f.qname == "main" and f.file.endswith("csg_resample.cc")]
    if len(fm) != 1:
        rep.broken("R12.7", "main of csg_resample not found")
    else:
        fm = fm[0]
        rep.analysed(fm)
        gg = [n for n in fm.walk() if n.get("k") == "mcall" and n.get("callee") == T + "Table::GenerateGridSpacing"]
        args = {show(n["obj"]): [show(a) for a in n["args"]] for n in gg}
        rep.check(args.get("out") == args.get("der") and args.get("out") is not None and len(set(args["out"])) == 3, "R12.7", "same-grid",
                  "out and der grids from the same (min, max, step)", "csg_resample generates the value grid with %s and the derivative grid with %s" % (args.get("out"), args.get("der")), fm.loc())
        ys = {}
        for n in fm.walk():
            if n.get("k") == "opcall" and n.get("op") == "=" and show(n["args"][0]) in ("out.y()", "der.y()"):
                ys[show(n["args"][0])] = show(n["args"][1])
        rep.check(ys.get("out.y()", "").endswith("spline->Calculate(out.x())") or "Calculate(out.x())" in ys.get("out.y()", ""), "R12.7", "value-output",
                  "out.y = spline->Calculate(out.x)", "csg_resample value output is %s" % ys.get("out.y()"), fm.loc())
        rep.check("CalculateDerivative(der.x())" in ys.get("der.y()", "") and "spline" in ys.get("der.y()", ""), "R12.7", "derivative-output",
                  "der.y = spline->CalculateDerivative(der.x) of the same spline object", "csg_resample derivative output is %s" % ys.get("der.y()"), fm.loc(), sample=True)
        ffm = Fold(fm, inline=False, opaque_types=r"Table").run()
        fst = [e for e in ffm.events if e["kind"] == "store" and re.match(r"^\w+\.flags\(\w+\)$", e["target"])]
        tabs = sorted({e["target"].split(".")[0] for e in fst})
        vals = {str(e["value"]) for e in fst}
        idxs = {str(e["idx"][0]) if e.get("idx") else e["target"] for e in fst}
        okc = len(fst) == 2 and len(tabs) == 2 and len(vals) == 1 and len(idxs) == 1 and str(getattr(fst[0]["value"], "func", "")) == "flags" and str(fst[0]["value"].args[0]) not in tabs
        rep.check(okc, "R12.7", "flags-copied", "value and derivative table get the flag of the same matching input point at the same output point",
                  "csg_resample flag copies are %s" % [(e["target"], str(e["value"])[:60]) for e in fst], fm.loc())
        # default 'o': assignment of a vector filled with 'o' or std::fill over the whole flag vector
        dflt = set()
        for n in fm.walk():
            if n.get("k") == "opcall" and n.get("op") == "=" and re.match(r"^\w+\.flags\(\)$", show(n["args"][0])) and "'o'" in show(n["args"][1]):
                dflt.add(show(n["args"][0]).split(".")[0])
            if n.get("k") == "call" and (n.get("callee") or "") == "std::fill" and len(n.get("args") or []) == 3 and "'o'" in show(n["args"][2]):
                m0, m1 = re.match(r"^(\w+)\.flags\(\)\.begin\(\)$", nows(show(n["args"][0]))), re.match(r"^(\w+)\.flags\(\)\.end\(\)$", nows(show(n["args"][1])))
                if m0 and m1 and m0.group(1) == m1.group(1):
                    dflt.add(m0.group(1))
        rep.check(dflt == set(tabs) and len(dflt) == 2, "R12.7", "flags-default", "flags of both output tables start as 'o'", "csg_resample default flags are set for %s (flag-carrying tables: %s)" % (sorted(dflt), tabs), fm.loc())
        check_flag_match(rep, fm)
        # csg_resample's output goes through Table's stream operator: 'on the input grid returns the input values' needs relative precision
        from rules import C08 as _C08
        tw = [f_ for f_ in F.find(T + "operator<<") if "Table" in f_.j["sig"]]
        if len(tw) == 1:
            rep.analysed(tw[0])
            _C08.check_table_number_format(rep, tw[0], "R12.7")
        else:
            rep.broken("R12.7", "Table stream writer not found")

    # ---------------------------------------------------------------- R12.8 getInterval
    gi = F.one(T + "Spline::getInterval")
    rep.analysed(gi)
    fo = Fold(gi, call=grid_hook()).run()
    table = {}
    for v, g, _ in fo.returns:
        if g:
            table[" & ".join(guard_strs(fo, g))] = str(v)
    lo = [v for k, v in table.items() if re.match(r"^\(r < r\[0\]\)$", k)]
    hi = [v for k, v in table.items() if k.replace(" ", "") == "!(r<r[0])&(r>r[size(r_)-2])"]
    rep.check(lo == ["0"], "R12.8", "getInterval|below", "r < r_0 -> interval 0", "Spline::getInterval below the grid returns %s (guards: %s)" % (lo, list(table)[:3]), gi.loc())
    rep.check(hi == ["size(r_) - 2"], "R12.8", "getInterval|above", "r > r_{n-2} -> interval n-2", "Spline::getInterval above the last-but-one knot returns %s" % hi, gi.loc(), sample=True)
    rep.assumptions += ["strictly increasing abscissae; the linear solves (QR) are exact-arithmetic correct (numerical conditioning not decided)",
                        "least-squares optimality of Fit and csg_resample's behaviour on data are not decided"]


def nows(t):
    return re.sub(r"\s+", "", t)


def check_flag_match(rep, fm):
    """csg_resample copies the flag of the first input point that is not left of the output point, where 'not left' tolerates rounding of the
    generated grid.  The search loop's break condition touches the two abscissae only through comparisons: representatives decide that points
    which agree up to rounding match (also at x = 0, where a tolerance relative to the abscissa collapses), and distinct grid points do not."""
    from sympy.core.function import AppliedUndef
    from vsa.cases import decide
    fo = Fold(fm, opaque_types=r"Table").run()
    st = [e for e in fo.events if e["kind"] == "store" and re.match(r"^\w+\.flags\(\w+\)$", e["target"]) and str(getattr(e["value"], "func", "")) == "flags"]
    if len(st) < 2:
        rep.broken("R12.7", "csg_resample: the per-point flag copies were not found")
        return
    src = st[0]["value"].args[0]                     # the input table
    outs = {e["target"].split(".")[0] for e in st}
    cand = []

    def both(c):
        xs = [a_ for a_ in _atoms(c) if str(a_.func) == "x" and len(a_.args) == 2]
        xin = [a_ for a_ in xs if a_.args[0] == src]
        xout = [a_ for a_ in xs if str(a_.args[0]) in outs]
        # the search advances the INPUT index: a comparison with a fixed input point (the skip of leading output points) is another loop
        if xin and xout and len(set(xin)) == 1 and len(set(xout)) == 1 and any(re.search(r"@L\d+", str(x_)) for x_ in xin[0].args[1].free_symbols):
            return (xin[0], xout[0])
        return None

    def conjuncts(c):
        if isinstance(c, tuple) and c and c[0] == "&&":
            return conjuncts(c[1]) + conjuncts(c[2])
        return [c]
    for l in getattr(fo, "loops", []):
        for bc, _vals in list(l.get("breaks", [])) + list(l.get("returns", [])):      # a helper returning from inside its scan stops it like a break
            if bc is not None and both(bc):
                cand.append((l, bc, True) + both(bc))            # the search stops when bc holds
        cj = [c for c in conjuncts(l.get("cond")) if c is not None and both(c)]
        if len(cj) == 1:
            cand.append((l, cj[0], False) + both(cj[0]))          # the search goes on while cj holds: the match is its negation
    if len(cand) != 1:
        rep.broken("R12.7", "csg_resample: the search for the input point matching an output point was not found (%d candidates)" % len(cand))
        return
    l, bc, stops, xi, xo = cand[0]
    R = sp.Rational
    reps = [(R(0), R(11, 10 ** 17), True, "the input point 0 and the generated grid point 1.1e-16"),
            (R(3, 10), R(3, 10) + R(5, 10 ** 17), True, "0.3 and 0.3 + 5e-17"),
            (R(-3, 10), R(-3, 10) + R(5, 10 ** 17), True, "-0.3 and -0.3 + 5e-17"),
            (R(3, 10), R(3, 10) - R(5, 10 ** 17), True, "0.3 and 0.3 - 5e-17"),
            (R(3, 10), R(6, 10), False, "0.3 and the next grid point 0.6"),
            (R(0), R(1, 100), False, "0 and the next grid point 0.01")]
    bad = None
    for vi, vo, want, txt in reps:
        sub = {xi: vi, xo: vo}
        for a_ in _atoms(bc):
            if str(a_.func) in ("max", "min") and all(x.xreplace(sub).is_number for x in a_.args):
                sub[a_] = (sp.Max if str(a_.func) == "max" else sp.Min)(*[x.xreplace(sub) for x in a_.args])
        t = decide(bc, sub, {}, None, getattr(fo, "conds", {}))
        if t is None:
            rep.broken("R12.7", "csg_resample: cannot evaluate the match condition %s for %s" % (fo.cond_str(bc)[:160], txt))
            return
        t = t if stops else (not t)
        if t != want:
            bad = "%s are %s as the same point by the search condition %s: on the input grid the point takes the flag of %s" % (
                txt, "NOT recognised" if want else "treated", fo.cond_str(bc)[:200], "its right neighbour" if want else "a different point")
            break
    rep.check(bad is None, "R12.7", "flags-match-tolerance", "grid points that agree up to rounding (also at x = 0) are the same point; distinct grid points are not",
              "csg_resample: %s" % bad, fm.loc(l["node"]), sample=True)


def _atoms(c):
    from sympy.core.function import AppliedUndef
    out = []
    stack = [c]
    while stack:
        x = stack.pop()
        if isinstance(x, tuple):
            stack += [y for y in x[1:]]
        elif isinstance(x, sp.Basic):
            out += list(x.atoms(AppliedUndef))
    return out
