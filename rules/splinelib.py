"""Shared ALG obligations about the spline classes (used by C07: derivative == d/dr value, and C12: interpolation,
continuity and boundary identities)."""
import re
import sympy as sp
from vsa import front
from vsa.facts import Facts, unwrap, show, walk, lit_value
from vsa.front import AnalysisBroken
from vsa.alg import Fold, S, F as Fn, equal, is_zero, guard_strs

T = "votca::tools::"
I = S("I", integer=True)
r = S("r")


def grid_hook(interval_sym=I):
    """r_[<index>] -> symbol r[<canonical index>]; getInterval(r) -> I"""
    def call(fold, n, env):
        cal = n.get("callee") or ""
        if n.get("k") == "mcall" and cal == T + "Spline::getInterval":
            return interval_sym
        if n.get("k") == "opcall" and n.get("op") in ("[]", "()") and len(n["args"]) == 2:
            base = unwrap(n["args"][0])
            if base.get("k") == "member" and base.get("fname") in ("r_", "f_", "f2_", "p0", "p1", "p2", "p3", "t", "a", "b"):
                idx = fold.ev(n["args"][1], env)
                return S("%s[%s]" % (base["fname"].rstrip("_"), sp.sstr(sp.expand(idx))))
            if base.get("k") == "ref" and base.get("name") in ("x", "y", "sol"):
                idx = fold.ev(n["args"][1], env)
                return S("%s[%s]" % (base["name"], sp.sstr(sp.expand(idx))))
        return NotImplemented
    return call


def ret_of(F, qname, hook=None, env_by_param=None):
    f = F.one(qname)
    fo = Fold(f, call=hook or grid_hook())
    env = {}
    if env_by_param:
        for p in f.j["params"]:
            if p["name"] in env_by_param:
                env[p["decl"]] = env_by_param[p["name"]]
    fo.run(env)
    if len(fo.returns) != 1:
        raise AnalysisBroken("%s: expected one return, found %d" % (qname, len(fo.returns)))
    return f, fo.returns[0][0]


def gsym(name, idx):
    return S("%s[%s]" % (name, sp.sstr(sp.expand(idx))))


def cubic_basis(F, rep, rules):
    """returns dict name -> (func, expr in r, r[I], r[I+1])"""
    CS = T + "CubicSpline::"
    out = {}
    for nm in ("A", "B", "C", "D", "Aprime", "Bprime", "Cprime", "Dprime"):
        f, e = ret_of(F, CS + nm, env_by_param={"r": r})
        rep.analysed(f)
        out[nm] = (f, e)
    return out


def check_cubic_derivatives(F, rep, rule):
    """R7.4: X' == d/dr X on an interval; Calculate/CalculateDerivative pair coefficients and unknowns alike"""
    b = cubic_basis(F, rep, rule)
    for nm in "ABCD":
        f, e = b[nm]
        fp, ep = b[nm + "prime"]
        rep.check(is_zero(sp.diff(e, r) - ep), rule, "cubic|%sprime" % nm, "d/dr %s(r) == %sprime(r): %s" % (nm, nm, ep),
                  "CubicSpline::%sprime returns %s but d/dr %s(r) = %s" % (nm, ep, nm, sp.simplify(sp.diff(e, r))), fp.loc(), sample=True)
    CS = T + "CubicSpline::"

    def combo(qn, names):
        def call(fold, n, env):
            cal = n.get("callee") or ""
            if n.get("k") == "mcall" and cal.startswith(CS) and cal.split("::")[-1] in names:
                return S(cal.split("::")[-1])
            return grid_hook()(fold, n, env)
        return ret_of(F, qn, hook=call, env_by_param={"r": r})
    f1, v = combo(CS + "Calculate", ("A", "B", "C", "D"))
    f2, d = combo(CS + "CalculateDerivative", ("Aprime", "Bprime", "Cprime", "Dprime"))
    rep.analysed(f1); rep.analysed(f2)
    want_v = S("A") * gsym("f", I) + S("B") * gsym("f", I + 1) + S("C") * gsym("f2", I) + S("D") * gsym("f2", I + 1)
    want_d = S("Aprime") * gsym("f", I) + S("Bprime") * gsym("f", I + 1) + S("Cprime") * gsym("f2", I) + S("Dprime") * gsym("f2", I + 1)
    rep.check(equal(v, want_v), rule, "cubic|Calculate", "S(r) = A f_i + B f_{i+1} + C f2_i + D f2_{i+1}",
              "CubicSpline::Calculate returns %s" % v, f1.loc(), sample=True)
    rep.check(equal(d, want_d), rule, "cubic|CalculateDerivative", "S'(r) = A' f_i + B' f_{i+1} + C' f2_i + D' f2_{i+1}",
              "CubicSpline::CalculateDerivative returns %s: it does not pair each derivative coefficient with the unknown "
              "its value coefficient multiplies" % d, f2.loc(), sample=True)


def check_akima_linear_derivatives(F, rep, rule):
    for cls, val, der in (("AkimaSpline", "Calculate", "CalculateDerivative"), ("LinSpline", "Calculate", "CalculateDerivative")):
        f1, v = ret_of(F, T + cls + "::" + val, env_by_param={"r": r})
        f2, d = ret_of(F, T + cls + "::" + der, env_by_param={"r": r})
        rep.analysed(f1); rep.analysed(f2)
        rep.check(is_zero(sp.diff(v, r) - d), rule, "%s|derivative" % cls, "d/dr Calculate == CalculateDerivative: %s" % d,
                  "%s::CalculateDerivative returns %s but d/dr Calculate(r) = %s" % (cls, d, sp.expand(sp.diff(v, r))), f2.loc(), sample=True)


def check_cubic_interpolation(F, rep, rule):
    """R12.2: basis end values, curvature, one-sided slope coefficients, continuity rows, boundary rows"""
    b = cubic_basis(F, rep, rule)
    rI, rI1 = gsym("r", I), gsym("r", I + 1)
    h = rI1 - rI
    ends = {"A": (1, 0), "B": (0, 1), "C": (0, 0), "D": (0, 0)}
    for nm, (l, rr) in ends.items():
        f, e = b[nm]
        vl, vr = sp.simplify(e.subs(r, rI)), sp.simplify(e.subs(r, rI1))
        rep.check(vl == l and vr == rr, rule, "cubic|ends|" + nm, "%s(r_i) = %s, %s(r_{i+1}) = %s" % (nm, l, nm, rr),
                  "CubicSpline::%s takes the values %s at r_i and %s at r_{i+1} (required %s and %s): the spline does not "
                  "interpolate the knot values" % (nm, vl, vr, l, rr), f.loc(), sample=True)
    t = (r - rI) / h
    for nm, want in (("A", 0), ("B", 0), ("C", 1 - t), ("D", t)):
        f, e = b[nm]
        got = sp.diff(e, r, 2)
        rep.check(is_zero(got - want), rule, "cubic|curvature|" + nm, "%s''(r) = %s" % (nm, want),
                  "CubicSpline::%s has second derivative %s, required %s: f2 is not the curvature at the knots" % (nm, sp.simplify(got), want), f.loc())
    # one-sided slopes
    i = S("i", integer=True)
    CS = T + "CubicSpline::"
    side = {}
    for nm in "ABCD":
        fp, ep = b[nm + "prime"]
        for sd, shift in (("l", 0), ("r", 1)):
            q = "%s_prime_%s" % (nm, sd)
            f, e = ret_of(F, CS + q, env_by_param={"i": i})
            rep.analysed(f)
            # interval I = i+shift; evaluation point r[i+1] (right end of interval i == left end of interval i+1)
            want = ep.subs({rI: gsym("r", i + shift), rI1: gsym("r", i + shift + 1)}).subs(r, gsym("r", i + 1))
            side[q] = e
            rep.check(is_zero(e - want), rule, "cubic|onesided|" + q, "%s(i) = %s'(r_{i+1}) on interval %s: %s" % (q, nm, "i" if shift == 0 else "i+1", sp.simplify(want)),
                      "CubicSpline::%s(i) returns %s; the slope coefficient of %s on the %s side of knot i+1 is %s - the first "
                      "derivative is not continuous across interior knots on non-uniform grids" % (q, sp.simplify(e), nm, "left" if sd == "l" else "right", sp.simplify(want)),
                      f.loc(), sample=True)
    # continuity rows in Interpolate and AddBCToFitMatrix
    names = ["%s_prime_%s" % (a, s) for a in "ABCD" for s in "lr"]

    def hook(fold, n, env):
        cal = n.get("callee") or ""
        if n.get("k") == "mcall" and cal.startswith(CS) and cal.split("::")[-1] in names:
            a = fold.ev(n["args"][0], env)
            return Fn(cal.split("::")[-1])(a)
        if n.get("k") == "mcall" and cal.endswith("::size") and show(n.get("obj")) == "r_":
            return S("n", integer=True)
        return grid_hook()(fold, n, env)
    fi = F.one(CS + "Interpolate")
    rep.analysed(fi)
    fo = Fold(fi, call=hook, opaque_types=r"Eigen::Matrix<double, -1").run()
    rows = loop_rows(fo)
    ok, why = check_continuity_rows(fo, rows, "interp", side, i)
    rep.check(ok, rule, "cubic|continuity-row|Interpolate", "row i+1: S'(r_{i+1}-) = S'(r_{i+1}+) over (f, f2)",
              "CubicSpline::Interpolate: " + why, fi.loc(), sample=True)
    fb = [f for f in F.find(CS + "AddBCToFitMatrix") if f.j["template"] in ("instantiation", "none")]
    if not fb:
        raise AnalysisBroken("no instantiation of CubicSpline::AddBCToFitMatrix exported")
    fb = fb[0]
    rep.analysed(fb)
    fo2 = Fold(fb, call=hook, opaque_types=r"Eigen::Matrix<double, -1").run()
    rows2 = loop_rows(fo2)
    ok, why = check_continuity_rows(fo2, rows2, "fit", side, i)
    rep.check(ok, rule, "cubic|continuity-row|AddBCToFitMatrix", "row i+1 of the constraint matrix is the same C1 condition over [f; f2]",
              "CubicSpline::AddBCToFitMatrix: " + why, fb.loc(), sample=True)
    # boundary rows
    check_boundary_rows(rep, rule, fo, "Interpolate", fi, interp=True)
    check_boundary_rows(rep, rule, fo2, "AddBCToFitMatrix", fb, interp=False)
    if rule.startswith("R12"):
        # the fit with zero end slopes is offered by csg_resample (C12); csg_fmatch (C06) only uses natural and periodic boundaries
        check_derivative_zero_rows(rep, rule, fo2, fb, b, side, i)


def in_loop(e):
    return any(isinstance(g[0], tuple) and g[0] and g[0][0] in ("loop", "each") for g in e["guards"])


def is_local_target(e):
    t = unwrap(e.get("target_node") or {})
    base = unwrap(t["args"][0]) if t.get("k") == "opcall" and t.get("args") else None
    return base is not None and base.get("k") == "ref"


def loop_rows(fo):
    """stores inside the loop into a local/parameter matrix (two indices) or a local vector (one index)"""
    rows = {"matrix": [], "rhs": []}
    for e in fo.events:
        if e["kind"] == "store" and e.get("idx") and in_loop(e) and is_local_target(e) and not isinstance(e["value"], (tuple, sp.Matrix)):
            if len(e["idx"]) == 2:
                rows["matrix"].append(e)
            elif len(e["idx"]) == 1:
                rows["rhs"].append(e)
    return rows


def check_continuity_rows(fo, rows, mode, side=None, isym=None):
    """rebuild the row equation from the stores and compare with the C1 condition at the knot right of interval a"""
    Al, Bl, Cl, Dl, Ar, Br, Cr, Dr = [Fn("%s_prime_%s" % (a, s)) for s in "lr" for a in "ABCD"]
    evs = rows["matrix"] + rows["rhs"]
    if not rows["matrix"]:
        return False, "no matrix entries are stored inside the loop"
    atoms = set()
    for e in evs:
        for a in sp.preorder_traversal(e["value"]):
            if str(getattr(a, "func", "")).endswith(("_prime_l", "_prime_r")):
                atoms.add(sp.expand(a.args[0]))
    if len(atoms) != 1:
        return False, "slope coefficients are taken at different indices %s" % atoms
    i = atoms.pop()
    nn = S("n", integer=True)
    o1, o2 = S("offset1"), S("offset2")
    f = lambda k: S("F%d" % k)
    g = lambda k: S("G%d" % k)
    want = (Al(i) * f(0) + Bl(i) * f(1) + Cl(i) * g(0) + Dl(i) * g(1)) - (Ar(i) * f(1) + Br(i) * f(2) + Cr(i) * g(1) + Dr(i) * g(2))
    got = 0
    for e in evs:
        val = e["value"]
        idx = [sp.expand(x) for x in e["idx"]]
        if mode == "interp":
            if sp.expand(idx[0] - (i + 1)) != 0:
                return False, "%s stored at row %s, expected the knot right of interval %s" % ("right-hand side" if len(idx) == 1 else "matrix entry", idx[0], i)
            if len(idx) == 1:
                fv = -val                       # rhs = -(f part)
                for k in range(3):
                    fv = fv.subs(gsym("f", i + k), f(k))
                got += fv
            else:
                k = sp.expand(idx[1] - i)
                if k not in (0, 1, 2):
                    return False, "matrix entry stored at column %s" % idx[1]
                got += val * g(int(k))
        else:
            if len(idx) != 2:
                continue
            if sp.expand(idx[0] - (o1 + i + 1)) != 0:
                return False, "constraint stored at row %s, expected offset1+i+1" % idx[0]
            c = sp.expand(idx[1] - o2 - i)
            if c in (0, 1, 2):
                got += val * f(int(c))
            elif sp.expand(c - nn) in (0, 1, 2):
                got += val * g(int(sp.expand(c - nn)))
            else:
                return False, "constraint stored at column %s (neither f nor f2 block)" % idx[1]
    if not is_zero(got - want):
        ok_closed = False
        if side is not None:
            # the same condition written with other (equivalent) helper coefficients, e.g. -A_prime_r = B_prime_r: compare through their closed forms
            from sympy.core.function import AppliedUndef
            d_ = sp.expand(got - want)
            for a_ in list(d_.atoms(AppliedUndef)):
                if str(a_.func) in side and len(a_.args) == 1:
                    d_ = d_.xreplace({a_: reindex(side[str(a_.func)], isym, a_.args[0])})
            ok_closed = sp.simplify(d_) == 0
        if not ok_closed:
            return False, "row equation is %s = 0, the C1 condition at knot i+1 is %s = 0" % (sp.expand(got), sp.expand(want))
    return True, ""


def reindex(expr, isym, arg):
    """the grid symbols r[<index expression in i>] of a closed form, with i replaced by arg"""
    sub = {}
    for sy in expr.free_symbols:
        m_ = re.match(r"^(\w+)\[(.*)\]$", str(sy))
        if m_:
            idx = sp.sympify(m_.group(2), locals={str(isym): isym, "n": S("n", integer=True)})
            sub[sy] = gsym(m_.group(1), sp.expand(idx.xreplace({isym: arg})))
    return expr.xreplace(sub)


def check_derivative_zero_rows(rep, rule, fo, f, b, side, isym):
    """boundary kind splineDerivativeZero of the fit: the first row states S'(r_0) = 0 and the last row S'(r_{n-1}) = 0, over [f; f2] - compared, up to a
    common factor per row, with the slopes of the spline's own basis functions at the two ends (closed forms folded from A/B/C/Dprime)"""
    from vsa.cases import decide
    from sympy.core.function import AppliedUndef
    nn = S("n", integer=True)
    o1, o2 = S("offset1"), S("offset2")
    label = "splineDerivativeZero"

    def orc(leaf):
        if isinstance(leaf, tuple) and leaf and leaf[0] == "switch":
            return ("this-case", any(str(l).split("::")[-1] == label for l in leaf[2])) if "boundaries_" in str(leaf[1]) else None
        if isinstance(leaf, tuple) and len(leaf) == 3 and leaf[0] in ("==", "!="):
            a_, b_ = str(leaf[1]), str(leaf[2])
            if "boundaries_" in a_ + b_:
                other = b_ if "boundaries_" in a_ else a_
                return ("this-case", (other.split("::")[-1] == label) == (leaf[0] == "=="))
        return None
    cand = [e for e in fo.events if e["kind"] == "store" and e.get("idx") and len(e["idx"]) == 2 and is_local_target(e) and not in_loop(e)]
    rows = {}
    for e in cand:
        gs = [(c, pol) for c, pol, _n in e["guards"] if "boundaries_" in str(c)]
        ts = [decide(c, None, {"this-case": True}, orc, getattr(fo, "conds", {})) for c, _p in gs]
        if any(t_ is None for t_ in ts):
            raise AnalysisBroken("CubicSpline::AddBCToFitMatrix: cannot decide whether %s is set for %s" % (e["target"], label))
        if not gs or not all(t_ == p_ for t_, (_c, p_) in zip(ts, gs)):
            continue
        v = e["value"]
        # the one-sided slope helpers by their (verified) closed forms
        if hasattr(v, "atoms"):
            for a_ in list(v.atoms(AppliedUndef)):
                nm_ = str(a_.func)
                if nm_ in side and len(a_.args) == 1:
                    v = v.xreplace({a_: reindex(side[nm_], isym, a_.args[0])})
        rows.setdefault(sp.expand(e["idx"][0] - o1), {})[sp.expand(e["idx"][1] - o2)] = v
    if not rows:
        rep.broken(rule, "CubicSpline::AddBCToFitMatrix: no rows found for the boundary kind splineDerivativeZero")
        return
    rI, rI1 = gsym("r", I), gsym("r", I + 1)

    def end_slopes(interval, at):
        sub = {rI: gsym("r", interval), rI1: gsym("r", interval + 1)}
        return [b[nm_ + "prime"][1].subs(sub).subs(r, gsym("r", at)) for nm_ in "ABCD"]
    wants = {sp.Integer(0): dict(zip((sp.Integer(0), sp.Integer(1), nn, nn + 1), end_slopes(sp.Integer(0), sp.Integer(0)))),
             sp.expand(nn - 1): dict(zip((sp.expand(nn - 2), sp.expand(nn - 1), sp.expand(2 * nn - 2), sp.expand(2 * nn - 1)), end_slopes(nn - 2, nn - 1)))}
    for row_, want in wants.items():
        got = {sp.expand(c_): v_ for c_, v_ in rows.get(row_, {}).items()}
        want = {sp.expand(c_): v_ for c_, v_ in want.items()}
        end = "left" if row_ == 0 else "right"
        bad = None
        if set(got) != set(want):
            bad = "the row touches the columns %s (required %s)" % (sorted(map(str, got)), sorted(map(str, want)))
        else:
            ratios = {c_: sp.simplify(got[c_] / want[c_]) for c_ in want}
            vals = set(ratios.values())
            if len(vals) != 1 or not list(vals)[0].is_number or list(vals)[0] == 0:
                bad = "the coefficients relative to the end slopes (A', B', C', D') of the spline are %s - not one common factor" % {str(k_): str(v_) for k_, v_ in ratios.items()}
        rep.check(bad is None, rule, "cubic|boundary|AddBCToFitMatrix|splineDerivativeZero|%s" % end, "S'(r_%s) = 0 over [f; f2]" % ("0" if end == "left" else "{n-1}"),
                  "CubicSpline::AddBCToFitMatrix, case splineDerivativeZero, %s end: %s; the fitted spline does not have zero slope there" % (end, bad), f.loc(), sample=(end == "right"))


def check_boundary_rows(rep, rule, fo, fname, f, interp):
    from vsa.cases import executes
    from sympy.core.function import AppliedUndef
    nn = S("n", integer=True)
    p0 = f.j["params"][0]["name"] if f.j.get("params") else None
    Nn = S("N")

    def canon(x):
        x = sp.expand(x)
        for a in list(x.atoms(AppliedUndef)):
            if str(a.func) == "size" and p0 is not None and str(a.args[0]) == p0:
                x = x.xreplace({a: Nn})
        return sp.expand(x)
    cand = [e for e in fo.events if e["kind"] == "store" and e.get("idx") and len(e["idx"]) == 2 and is_local_target(e) and not in_loop(e)]
    st = {}
    for label in ("splineNormal", "splinePeriodic"):
        def orc(leaf, label=label):
            if isinstance(leaf, tuple) and leaf and leaf[0] == "switch":
                return ("this-case", any(str(l).split("::")[-1] == label for l in leaf[2])) if "boundaries_" in str(leaf[1]) else None
            if isinstance(leaf, tuple) and len(leaf) == 3 and leaf[0] in ("==", "!="):
                a_, b_ = str(leaf[1]), str(leaf[2])
                if "boundaries_" in a_ + b_:
                    other = b_ if "boundaries_" in a_ else a_
                    return ("this-case", (other.split("::")[-1] == label) == (leaf[0] == "=="))
            return None
        from vsa.cases import decide

        def runs(e):
            """guards that do not concern the boundary kind (argument checks) are taken as passed"""
            for c, pol, _n in e["guards"]:
                if "boundaries_" in str(c):
                    r_ = decide(c, None, {"this-case": True}, orc, getattr(fo, "conds", {}))
                    if r_ is None:
                        return None
                    if r_ != pol:
                        return False
            for gl in e.get("not", []):
                if gl and all("boundaries_" in str(c) for c, _p, _n in gl[-1:]):
                    rs = [decide(c, None, {"this-case": True}, orc, getattr(fo, "conds", {})) == pol for c, pol, _n in gl if "boundaries_" in str(c)]
                    if rs and all(rs):
                        return False
            return True
        for e in cand:
            x = runs(e)
            if x is None:
                raise AnalysisBroken("CubicSpline::%s: cannot decide whether %s is set for %s" % (fname, e["target"], label))
            if x:
                v_ = e["value"]
                if hasattr(v_, "args"):
                    # a value chosen by the boundary kind (`periodic ? -1 : 1`) is resolved for the case at hand
                    from vsa.cases import resolve_ite
                    cds_ = getattr(fo, "conds", {})
                    v_ = resolve_ite(v_, lambda cs: decide(cds_[cs], None, {"this-case": True}, orc, cds_) if cs in cds_ and "boundaries_" in str(cds_[cs]) else None)
                st.setdefault(label, {})[tuple(canon(i_) for i_ in e["idx"])] = v_
    o1, o2 = (0, 0) if interp else (S("offset1"), S("offset2"))
    if interp:
        want_normal = {(0, 0): 1, (Nn - 1, Nn - 1): 1}
        want_periodic = {(0, 0): 1, (0, Nn - 1): -1, (Nn - 1, 0): 1, (Nn - 1, Nn - 1): -1}
    else:
        want_normal = {(o1, o2 + nn): 1, (sp.expand(o1 + nn - 1), sp.expand(o2 + 2 * nn - 1)): 1}
        want_periodic = {(o1, o2): 1, (o1, sp.expand(o2 + nn - 1)): -1, (sp.expand(o1 + nn - 1), sp.expand(o2 + nn)): 1,
                         (sp.expand(o1 + nn - 1), sp.expand(o2 + 2 * nn - 1)): -1}
    for label, want, text in (("splineNormal", want_normal, "natural: f2_0 = f2_{n-1} = 0"),
                              ("splinePeriodic", want_periodic, "periodic: first and last unknown equated")):
        got = {tuple(sp.expand(x) for x in k): sp.nsimplify(v) for k, v in st.get(label, {}).items()}
        wn = {tuple(sp.expand(sp.sympify(x)) for x in k): sp.Integer(v) for k, v in want.items()}
        rep.check(got == wn, rule, "cubic|boundary|%s|%s" % (fname, label), text,
                  "CubicSpline::%s, case %s sets %s; required %s" % (fname, label, {str(k): str(v) for k, v in got.items()}, {str(k): str(v) for k, v in wn.items()}),
                  f.loc())
