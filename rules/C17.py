"""C17 - checkpoint files: access-level table, read-only guard, writer/reader agreement (overload sets, hyperslab
selection), error conversion, overwrite path (EXH, SIB, PATH)."""
import os, re
from vsa import front
from vsa.facts import Facts, unwrap, show, walk, lit_value
from vsa.front import AnalysisBroken
from vsa.cfg import CFG
from vsa.alg import Fold

LEVEL = "other"
X = "votca::xtp::"


def nows(s):
    return re.sub(r"\s+", "", s)


def run(rep, tier):
    rep.explanation = ("EXH: the constructor's switch maps every access level to its HDF5 open mode; PATH: getWriter throws for "
                       "read-only files before any group is created; SIB: for every value kind the writer handles there is a reader "
                       "overload, and the matrix writer/reader select identical hyperslabs and transfer with the same spaces; every "
                       "public operator() converts H5 exceptions into std::runtime_error; a name that exists already is unlinked and "
                       "re-created (never reopened and overwritten with a new dataspace).")
    rep.rule("R17.1", "access levels: READ -> H5F_ACC_RDONLY, CREATE -> H5F_ACC_TRUNC, MODIFY -> TRUNC if the file is absent else RDWR; getWriter throws for READ before creating/opening a group")
    rep.rule("R17.2", "for every writer overload (scalars, bool via Index, strings, vectors, matrices, 3-vector lists, eigensystems) there is a reader overload of the same value kind; both use InferDataType of the same type")
    rep.rule("R17.3", "matrix hyperslabs: fStride, fCount, fBlock, mStride, mCount, mBlock, mDim, fStart, mStart are the same expressions of (rows, cols, outer stride, i) in WriteData and ReadData; the reader resizes to the stored extent")
    rep.rule("R17.4", "every public operator() of reader and writer converts H5::Exception into a thrown std::runtime_error (missing names are errors)")
    rep.rule("R17.6", "list of 3-vectors: element number p is written under a member name that is a function of p, and the reader fetches element p from the "
                      "same function of p (not from the group's own enumeration order); the reader sizes the list by the number of members")
    rep.rule("R17.7", "lists of structured table rows: for every row class (SetupCptTable / WriteData / ReadData over a plain `data` record) each field of the record has exactly "
                      "one column at its own offset with the field's value type and a distinct name; WriteData fills every field on every path; ReadData consumes every field; "
                      "and a member slot (member, component or carrier kind) that the writer stores in field f is restored from field f, not from another column")
    rep.rule("R17.5", "overwrite: when the name exists already the old dataset/group is unlinked and created anew; it is never reopened and written with the new dataspace")
    host = os.path.join(front.VERIF, "hosts", "xtp_checkpoint.cc")
    units = [host, front.repo("xtp/src/libxtp/checkpoint.cc")]
    F = Facts(front.export(units))
    rep.units = units
    rep.assumptions.append("xtp is not built in this sandbox: units are parsed with synthesised flags; HDF5's own behaviour is trusted")

    # ---------------------------------------------------------------- R17.1
    ctor = [f for f in F.find(X + "CheckpointFile::CheckpointFile") if len(f.j["params"]) == 2]
    if len(ctor) != 1:
        raise AnalysisBroken("CheckpointFile(string, access) constructor not found")
    ctor = ctor[0]
    rep.analysed(ctor)
    # the constructor folded with the access level bound to each enumerator (and the file existing or not): which HDF5 open mode is used
    from vsa.alg import ENUM_SYMS, S, F as Fn
    from vsa.cases import executes, decide, resolve_ite
    e = F.enums.get(X + "CheckpointAccessLevel")
    names = {x[0] for x in e["enumerators"]} if e else set()
    want = {("READ", True): "H5F_ACC_RDONLY", ("READ", False): "H5F_ACC_RDONLY", ("CREATE", True): "H5F_ACC_TRUNC", ("CREATE", False): "H5F_ACC_TRUNC",
            ("MODIFY", True): "H5F_ACC_RDWR", ("MODIFY", False): "H5F_ACC_TRUNC"}
    table = {}

    def ex_oracle(lf):
        if str(getattr(lf, "func", "")) == "FileExists":
            return ("EXISTS", True)
        return None
    for lvl in sorted(names):
        sym = S(X + "CheckpointAccessLevel::" + lvl)
        ENUM_SYMS.add(sym)
        fo_ = Fold(ctor).run({("field", "accessLevel_"): sym})
        cds = getattr(fo_, "conds", {})
        for exists in (True, False):
            A = {"EXISTS": exists}
            live = [e_ for e_ in fo_.events if e_["kind"] == "store" and e_["target"].replace(" ", "") == "fileHandle_" and executes(e_, None, A, ex_oracle, cds)]
            if len(live) != 1:
                table[(lvl, exists)] = "%d opens" % len(live)
                continue
            v_ = live[0]["value"]
            args_ = list(getattr(v_, "args", ()))
            flag = args_[1] if len(args_) >= 2 else None
            if flag is not None and hasattr(flag, "args"):
                flag = resolve_ite(flag, lambda cs: decide(cds[cs], None, A, ex_oracle, cds) if cs in cds else None)
            # the HDF5 macros may already be folded to their values (hdf5's H5Fpublic.h: RDONLY 0x0, RDWR 0x1, TRUNC 0x2)
            table[(lvl, exists)] = {"0": "H5F_ACC_RDONLY", "1": "H5F_ACC_RDWR", "2": "H5F_ACC_TRUNC"}.get(str(flag), str(flag))
    rep.check(table == want and names == {"READ", "CREATE", "MODIFY"}, "R17.1", "access-table", "READ/CREATE/MODIFY -> RDONLY/TRUNC/(RDWR if the file exists else TRUNC)",
              "CheckpointFile opens files with %s (enumerators %s)" % ({"%s/%s" % (k[0], "exists" if k[1] else "absent"): v for k, v in table.items() if want.get(k) != v}, sorted(names)), ctor.loc(), sample=True)
    # WHO + PATH: every place that constructs a CheckpointWriter from a group (in any function of the unit, not only getWriter(path)) is reachable
    # only over the false edge of the accessLevel_ == READ test of its function; handing out a writer otherwise goes through such a function
    sites = []
    for f_ in F.funcs:
        if f_.j["template"] == "pattern" or f_.file != front.repo("xtp/src/libxtp/checkpoint.cc"):
            continue
        cons = [n for n in f_.walk() if n.get("k") == "construct" and (n.get("callee") or "").endswith("CheckpointWriter::CheckpointWriter") and len(n.get("args") or []) >= 2]
        if cons:
            sites.append((f_, cons))
    rep.floor("R17.1", sum(len(c) for _f, c in sites), 1, "constructions of a CheckpointWriter from a group")
    for gw, cons in sites:
        rep.analysed(gw)
        g = CFG(gw)
        cmp_ = [n for n in gw.walk() if n.get("k") == "binop" and n["op"] in ("==", "!=") and "READ" in show(n) and "accessLevel_" in show(n)]
        reach = g.reachable_blocks()
        live = [x for x in cons if x["id"] in g.where and g.where[x["id"]][0] in reach]
        ok = len(cmp_) == 1 and bool(live) and all(g.edge_required(cmp_[0]["id"], cmp_[0]["op"] != "==", x["id"]) is True for x in live)
        rep.check(ok, "R17.1", "read-only-guard|%s/%d" % (gw.qname.split("::")[-1], len(gw.j["params"])), "a writer is constructed only after the READ test failed",
                  "%s(%s) can construct a CheckpointWriter although the file was opened read-only (no accessLevel_ == READ rejection on the way): with a second read-write handle on "
                  "the same file open in the process, HDF5 lets that writer modify the file" % (gw.qname, ", ".join(p_["name"] for p_ in gw.j["params"])), gw.loc(cons[0]), sample=True)

    # ---------------------------------------------------------------- R17.2
    W, R = X + "CheckpointWriter", X + "CheckpointReader"
    def kinds(cls, prefix):
        out = {}
        for f in F.funcs:
            if f.j["template"] == "pattern":
                continue
            for nm in (prefix + "Data", prefix + "Scalar", "operator()"):
                if f.qname == cls + "::" + nm:
                    out.setdefault(nm.replace(prefix, ""), set()).add(kind_of(f.j["sig"]))
        return out
    wk, rk = kinds(W, "Write"), kinds(R, "Read")
    allowed_write_only = {"map"}
    for name in ("Data", "Scalar", "operator()"):
        missing = {k for k in wk.get(name, set()) if k not in rk.get(name, set()) and k not in allowed_write_only}
        rep.check(not missing, "R17.2", "overloads|" + name, "reader covers writer kinds %s" % sorted(wk.get(name, set())),
                  "CheckpointWriter::%s handles %s but CheckpointReader has no counterpart" % (name, sorted(missing)), None, sample=True)
    rep.floor("R17.2", sum(len(v) for v in wk.values()), 8, "writer overload kinds")
    # bool goes through Index on both sides
    for cls, verb in ((W, "Write"), (R, "Read")):
        fb = [f for f in F.funcs if f.qname == cls + "::operator()" and "bool" in f.j["sig"] and f.j["template"] != "pattern"]
        okb = bool(fb) and any(d.get("type") in ("long", "votca::Index") for d in fb[0].decls.values() if d.get("name") == "temp")
        rep.check(okb, "R17.2", "bool-via-index|" + verb, "bool is stored as Index", "%s stores bool through %s" % (cls.split("::")[-1], [d.get("type") for d in fb[0].decls.values()] if fb else "?"), fb[0].loc() if fb else None)

    # ---------------------------------------------------------------- R17.3
    wm = pick(F, W + "::WriteData", "MatrixBase")
    rm = pick(F, R + "::ReadData", "MatrixBase")
    rep.analysed(wm); rep.analysed(rm)
    sides = {}
    for side, f_ in (("writer", wm), ("reader", rm)):
        sides[side] = matrix_io(f_, side)
    w_, r_ = sides["writer"], sides["reader"]
    for key, what in (("loop", "row loop (first row, bound, step)"), ("fsel", "file-space selection (count, start, stride, block)"), ("msel", "memory-space selection (count, start, stride, block)"),
                      ("mspace", "memory dataspace extent"), ("xfer", "transfer arguments (data, type, memory space, file space)")):
        rep.check(w_.get(key) is not None and w_.get(key) == r_.get(key), "R17.3", "hyperslab|" + key, "%s: %s on both sides" % (what, w_.get(key)),
                  "matrix %s is %s in the writer but %s in the reader (R = rows, C = cols, OS = outer stride, I = row index): stored matrices are read back scrambled" % (what, w_.get(key), r_.get(key)),
                  rm.loc(), sample=(key in ("msel", "fsel")))
    rep.check(r_.get("resize") == "R,C" and r_.get("extent_src") is True, "R17.3", "reader-resize", "reader resizes to the stored extent",
              "ReadData resizes the target to (%s) (R, C = the extent read from the dataset's dataspace: %s)" % (r_.get("resize"), r_.get("extent_src")), rm.loc())
    rep.check(w_.get("extent") == "list(R, C)", "R17.3", "writer-extent", "writer stores (rows, cols)", "WriteData creates the dataset with extent %s" % w_.get("extent"), wm.loc())

    # reader-target-reset: every container reader fixes the size of its target from the stored extent (resize / clear / assign / operator=)
    # on every path to a normal return - a reader that returns early for an empty dataset, or appends, hands back what the target held before
    n_rt = 0
    seen_kinds = set()
    for f_ in F.funcs:
        if f_.qname != R + "::ReadData" or f_.j["template"] == "pattern" or len(f_.j["params"]) < 2:
            continue
        kind = kind_of(f_.j["sig"])
        if kind not in ("matrix", "vector", "string-list", "Vector3d-list") or kind in seen_kinds:
            continue
        seen_kinds.add(kind)
        tgt = f_.j["params"][1]["name"]
        g_ = CFG(f_)
        rep.analysed(f_)
        # the target and local references bound to it (auto& mat = matrix.derived();)
        names_ = {tgt}
        for d_ in f_.decls.values():
            if "&" in (d_.get("type") or "") and d_.get("init") is not None and nows(show(d_["init"])).replace(".derived()", "") == tgt:
                names_.add(d_.get("name"))

        def on_target(n):
            o = n.get("obj")
            while isinstance(o, dict) and o.get("k") in ("mcall", "paren", "cast", "implicit") and "derived" in show(o):
                o = o.get("obj") or (o.get("args") or [None])[0] or o.get("sub")
            return nows(show(n.get("obj") or {})).replace(".derived()", "") in names_
        resets = [n for n in f_.walk() if n.get("k") == "mcall" and re.search(r"::(resize|clear|assign|operator=)$", n.get("callee") or "") and on_target(n)]
        resets += [n for n in f_.walk() if n.get("k") in ("opcall", "binop") and n.get("op") == "=" and nows(show((n.get("args") or [n.get("lhs")])[0] or {})) in names_]
        resets = [n for n in resets if n["id"] in g_.where]
        exits = g_.exit_blocks(normal=True)
        reach = g_.reachable_blocks()
        bad = [b for b in exits if b in reach and not any(g_.where[n["id"]][0] == b or g_.dominates_block(g_.where[n["id"]][0], b) for n in resets)]
        n_rt += 1
        rep.check(bool(resets) and not bad, "R17.3", "reader-target-reset|" + kind, "the target's size is set from the stored extent before every normal return (%s)" %
                  ", ".join(sorted({(n.get("callee") or "=").split("::")[-1] for n in resets})),
                  "CheckpointReader::ReadData(%s): %s - a target that already holds data (an object loaded twice) keeps stale elements, so the value read is not the value stored"
                  % (kind, ("the target '%s' is never resized, cleared or assigned (elements are appended)" % tgt) if not resets else
                     "a normal return is reachable without passing the resize/clear of '%s' (early return for an empty dataset)" % tgt), f_.loc(), sample=(kind == "vector"))
    rep.floor("R17.3", n_rt, 4, "container readers (matrix, vector<T>, vector<string>, vector<Vector3d>)")

    # ---------------------------------------------------------------- R17.4
    n_ops = 0
    for cls in (W, R):
        for f in F.funcs:
            if f.qname != cls + "::operator()" or f.j["template"] == "pattern":
                continue
            key = "%s|%s" % (cls.split("::")[-1], kind_of(f.j["sig"]))
            tries = [n for n in f.walk() if n.get("k") == "try"]
            ok = False
            if len(tries) == 1:
                hs = tries[0]["handlers"]
                ok = any("H5::Exception" in (h.get("type") or "") and any(x.get("k") == "throw" and "runtime_error" in show(x) for x in walk(h["body"])) for h in hs)
                body_calls = [x for x in walk(tries[0]["block"]) if x.get("k") == "mcall" and re.search(r"::(Write|Read)(Data|Scalar)$", x.get("callee") or "")]
                outside = [x for x in f.walk() if x.get("k") == "mcall" and re.search(r"::(Write|Read)(Data|Scalar)$", x.get("callee") or "") and x["id"] not in [y["id"] for y in body_calls]]
                ok = ok and bool(body_calls) and not outside
            n_ops += 1
            rep.check(ok, "R17.4", "error-conversion|" + key + "#%d" % n_ops, "H5::Exception -> throw std::runtime_error", "%s (%s) does not convert HDF5 errors into std::runtime_error" % (f.qname, kind_of(f.j["sig"])), f.loc(), sample=(n_ops == 1))
    rep.floor("R17.4", n_ops, 8, "instantiated public operator() overloads")

    # ---------------------------------------------------------------- R17.5
    n_w = 0

    def creation_sites(g):
        """[(kind, try node, [handler call name lists])] for every try block of g that creates a dataset / group"""
        out = []
        for t in [n for n in g.walk() if n.get("k") == "try"]:
            created = [x for x in walk(t["block"]) if x.get("k") == "mcall" and (x.get("callee") or "").endswith(("::createDataSet", "::createGroup"))]
            if created:
                kind = "dataset" if created[0]["callee"].endswith("createDataSet") else "group"
                # what runs when the creation throws: the handler, then (unless it leaves) the statements after the try block
                par = g.nodes.get(g.parent.get(t["id"]))
                after = []
                if par is not None and par.get("k") == "compound":
                    ix = [i_ for i_, st in enumerate(par["stmts"]) if st.get("id") == t["id"]]
                    after = par["stmts"][ix[0] + 1:] if ix else []
                seqs = []
                for h in t["handlers"]:
                    hc = [(x.get("callee") or "").split("::")[-1] for x in walk(h["body"]) if x.get("k") == "mcall"]
                    leaves = any(x.get("k") in ("return", "throw") for x in walk(h["body"]))
                    if not leaves:
                        hc += [(x.get("callee") or "").split("::")[-1] for st in after for x in walk(st) if x.get("k") == "mcall"]
                    seqs.append([c_ for c_ in hc if c_ in ("unlink", "createDataSet", "openDataSet", "createGroup", "openGroup")])
                out.append((kind, t, seqs, t["handlers"]))
        return out

    def helpers_of(f):
        """functions with a body that f calls directly (methods of the writer or file-local helpers)"""
        out = []
        for n in f.walk():
            if n.get("k") in ("call", "mcall") and n.get("callee"):
                for g in F.find(n["callee"]):
                    if g is not f and g.j.get("body") and g.j.get("template") != "pattern" and (g.qname.startswith(W + "::") or g.j.get("internal")) \
                            and not g.qname.endswith("::WriteData") and g not in out:
                        out.append(g)
        return out
    for f in F.funcs:
        if f.qname != W + "::WriteData" or f.j["template"] == "pattern":
            continue
        sites = [(f, s_) for s_ in creation_sites(f)] + [(g, s_) for g in helpers_of(f) for s_ in creation_sites(g)]
        raw = [x for x in f.walk() if x.get("k") == "mcall" and (x.get("callee") or "").endswith(("::openDataSet", "::createDataSet")) and
               not any(x["id"] in {y.get("id") for y in walk(t)} for _g, (_k, t, _c, _h) in sites if _g is f)]
        for g, (kind, t, hcalls, handlers) in sites:
            for calls, h in zip(hcalls, handlers):
                n_w += 1
                key = "overwrite|%s|%s#%d" % (kind_of(f.j["sig"]), kind, n_w)
                where = "" if g is f else " (in %s)" % g.qname.split("::")[-1]
                if kind == "dataset":
                    ok = "unlink" in calls and "createDataSet" in calls[calls.index("unlink"):] and "openDataSet" not in calls and not raw
                    rep.check(ok, "R17.5", key, "existing dataset is unlinked and re-created",
                              "CheckpointWriter::WriteData (%s)%s: when the name exists the handler does %s - the old dataset is reopened and written with the new "
                              "dataspace, so a value of another shape is not replaced (old extent, partially overwritten data)" % (kind_of(f.j["sig"]), where, calls), g.loc(h), sample=True)
                elif "Vector3d" in kind_of(f.j["sig"]) or "vector<Eigen" in f.j["sig"]:
                    ok = "unlink" in calls and "createGroup" in calls[calls.index("unlink"):] and "openGroup" not in calls
                    rep.check(ok, "R17.5", key, "existing list group is unlinked and re-created",
                              "CheckpointWriter::WriteData (list of 3-vectors)%s: an existing group is reopened (%s); a shorter list keeps stale trailing members" % (where, calls), g.loc(h), sample=True)
    # no way out of a dataset/group writer before the object of that name has been (re)created: a `return` in front of the creation leaves a name unwritten,
    # or - when it exists already - the old value in the file ("writing a name again replaces the old value")
    for f in F.funcs:
        if f.qname != W + "::WriteData" or f.j["template"] == "pattern" or not f.j.get("body"):
            continue
        creates = [x for x in f.walk() if x.get("k") in ("mcall", "call") and re.search(r"::(createDataSet|createGroup|CreateOrReplace\w*)$", x.get("callee") or "")]
        creates += [x for x in f.walk() if x.get("k") in ("mcall", "call") for g_ in helpers_of(f) if x.get("callee") == g_.qname and creation_sites(g_)]
        if not creates:
            continue
        gcf = CFG(f)
        early = []
        for r_ in f.walk():
            if r_.get("k") != "return" or r_.get("id") not in gcf.where:
                continue
            if not any(c_.get("id") in gcf.where and gcf.dominates(c_["id"], r_["id"]) for c_ in creates):
                early.append(r_)
        key = "write-before-return|%s" % nows(f.j["sig"])[:70]
        rep.check(not early, "R17.5", key, "every return of the writer lies behind the (re)creation of the dataset/group",
                  "CheckpointWriter::WriteData (%s) returns at line %s before the object is created or replaced: the name is not written, and an existing value of that name survives "
                  "(e.g. an empty vector written over a non-empty one)" % (kind_of(f.j["sig"]), early[0].get("line") if early else "?"), f.loc(early[0]) if early else f.loc())
    rep.floor("R17.5", n_w, 3, "overwrite handlers")
    check_list_names(rep, F, W, R)
    check_row_tables(rep, tier)
    # scalars are attributes that are REOPENED when the name exists: that replaces the old value only if type and space of the attribute do not depend on the value
    ws = [f for f in F.funcs if f.qname.endswith("CheckpointWriter::WriteScalar") and f.j.get("template") != "pattern" and f.j.get("body")]
    rep.floor("R17.5", len(ws), 2, "scalar attribute writers")
    for f in ws:
        rep.analysed(f)
        vname = f.j["params"][1]["name"]
        # the create-or-reopen step may live in a helper of the writer class
        helpers_ = [g_ for n in f.walk() if n.get("k") in ("call", "mcall") and "CheckpointWriter::" in (n.get("callee") or "") for g_ in F.find(n["callee"]) if g_.j.get("body")]
        reopens = any(n.get("k") == "mcall" and (n.get("callee") or "").endswith("openAttribute") for g_ in [f] + helpers_ for n in g_.walk())
        fo = Fold(f, inline=lambda q_, g_: "CheckpointWriter::" in q_ and not q_.endswith("::WriteScalar"), record_calls=r"createAttribute$|Attribute::write$").run()
        cr = [e for e in fo.events if e["kind"] == "call" and e["callee"].endswith("createAttribute")]
        wrt = [e for e in fo.events if e["kind"] == "call" and e["callee"].endswith("write")]
        kind = kind_of(f.j["sig"])
        if len(cr) != 1 or len(cr[0]["args"]) < 3 or len(wrt) != 1:
            rep.broken("R17.5", "WriteScalar (%s): createAttribute/write calls not found" % kind)
            continue
        dep = [str(a)[:80] for a in cr[0]["args"][1:3] if re.search(r"\b%s\b" % re.escape(vname), str(a))]
        ok = not (reopens and dep)
        rep.check(ok, "R17.5", "scalar-reopen|%s" % nows(f.j["sig"])[:60], "an attribute that is reopened when the name exists has a type and space that do not depend on the value",
                  "CheckpointWriter::WriteScalar (%s): the attribute is created with %s, which depends on the value, and an existing attribute of that name is reopened, not re-created: "
                  "writing the name again keeps the type/extent of the first value (a longer string is truncated)" % (kind, dep), f.loc(cr[0]["node"]), sample=("basic_string" in f.j["sig"].split(",")[1]))
        okw = str(wrt[0]["args"][0]) == str(cr[0]["args"][1])
        rep.check(okw, "R17.5", "scalar-write-type|%s" % nows(f.j["sig"])[:60], "the value is written with the memory type the attribute was created with",
                  "CheckpointWriter::WriteScalar (%s): created with %s but written as %s" % (kind, str(cr[0]["args"][1])[:60], str(wrt[0]["args"][0])[:60]), f.loc(wrt[0]["node"]))
    rep.assumptions.append("an attribute whose type and space do not depend on the value can be reopened and rewritten in place (HDF5 semantics, trusted)")


def flag_name(n):
    n = unwrap(n)
    s = show(n)
    # H5F_ACC_* are macros: the literal values are 0 (RDONLY), 1 (RDWR), 2 (TRUNC) behind a cast/conditional expression
    vals = [int(x["v"]) for x in walk(n) if x.get("k") == "int"]
    last = vals[-1] if vals else None
    return {0: "H5F_ACC_RDONLY", 1: "H5F_ACC_RDWR", 2: "H5F_ACC_TRUNC"}.get(last, s)


def kind_of(sig):
    s = sig
    if "MatrixBase" in s:
        return "matrix"
    if "std::vector<Eigen::Matrix<double, 3, 1" in s:
        return "Vector3d-list"
    if "std::vector<std::basic_string" in s or "std::vector<std::string" in s:
        return "string-list"
    if "std::map<" in s:
        return "map"
    if "EigenSystem" in s:
        return "eigensystem"
    if "std::vector<" in s:
        return "vector"
    if "basic_string" in s.split(",")[1] if "," in s else False:
        return "string"
    m = re.match(r"^void \((?:const H5::Group &, )?(?:const )?([\w:<> ,]+?) ?&?,", s)
    if m:
        t = m.group(1)
        if "basic_string" in t:
            return "string"
        if t in ("bool",):
            return "bool"
        return "scalar" if t in ("int", "long", "double", "T", "unsigned long", "float") else t
    return s


def pick(F, qn, needle):
    c = [f for f in F.find(qn) if needle in f.j["sig"] and f.j["template"] == "instantiation"]
    if not c:
        c = [f for f in F.find(qn) if needle in f.j["sig"]]
    if not c:
        raise AnalysisBroken("%s(%s) not found" % (qn, needle))
    return c[0]


def inits(f, names):
    out = {}
    for d in f.decls.values():
        if d.get("name") in names and d.get("init") is not None:
            out[d["name"]] = nows(show(d["init"]))
    return out


def check_list_names(rep, F, W, R):
    """member naming of the Vector3d list: writer and reader must agree on name(position)"""
    import sympy as sp
    from vsa.alg import S as _S
    K = _S("_pos")
    sides = {}
    for cls, callee_rx, tag in ((W, r"CheckpointWriter::WriteData$", "writer"), (R, r"CheckpointReader::ReadData$", "reader")):
        fs = [f for f in F.funcs if f.qname == cls + ("::WriteData" if tag == "writer" else "::ReadData") and f.j["template"] != "pattern"
              and re.search(r"std::vector<Eigen::Matrix<double, 3, 1", f.j["sig"])]
        if len(fs) != 1:
            raise AnalysisBroken("the %s overload for lists of 3-vectors was not found (%d candidates)" % (tag, len(fs)))
        f = fs[0]
        rep.analysed(f)
        fo = Fold(f, record_calls=callee_rx).run()
        calls = [e for e in fo.events if e["kind"] == "call" and any(isinstance(g_[0], tuple) and g_[0] and g_[0][0] == "loop" for g_ in e["guards"])]
        if len(calls) != 1 or len(calls[0]["args"]) != 3:
            raise AnalysisBroken("%s of a 3-vector list: expected one per-element call inside a loop, found %d" % (tag, len(calls)))
        e = calls[0]
        lid = [g_[0][1] for g_ in e["guards"] if isinstance(g_[0], tuple) and g_[0] and g_[0][0] == "loop"][-1]
        l = [x for x in fo.loops if x["lid"] == lid][0]
        # the position counter: starts at 0 and is incremented by one every iteration
        counters = [l["syms"][k_] for k_ in l["syms"] if l["init"].get(k_) == 0 and l.get("step", {}).get(k_) is not None
                    and not isinstance(l["step"][k_], tuple) and sp.simplify(l["step"][k_] - l["syms"][k_]) == 1]
        name = e["args"][2]
        elem = e["args"][1]
        pos = None
        if l.get("range") is not None and str(l["range"]) == f.j["params"][1]["name"]:
            # range-for over the list: the element is the loop variable; its position is the counter
            pos = counters[0] if len(counters) == 1 else None
        else:
            m_ = re.search(r"at\(%s, ([^)]*)\)" % re.escape(f.j["params"][1]["name"]), str(elem))
            pos = [c_ for c_ in counters if m_ and str(c_) == m_.group(1)]
            pos = pos[0] if pos else None
        if pos is None:
            raise AnalysisBroken("%s of a 3-vector list: the position of the element in the list is not recognised (element %s, counters %s)" % (tag, str(elem)[:60], counters))

        def ren(v):
            if isinstance(v, tuple):
                return tuple(ren(x) for x in v)
            return v.xreplace({pos: K}) if hasattr(v, "xreplace") else v
        sides[tag] = (f, ren(name), e)
    (fw, nw, ew), (fr, nr, er) = sides["writer"], sides["reader"]
    dep = lambda v: "_pos" in str(v)
    rep.check(nw == nr and dep(nw), "R17.6", "list-member-names", "element p is stored and fetched under the same name(p) = %s" % (nw,),
              "a list of 3-vectors is written with member names %s but read back from %s: elements come back in another order (HDF5 enumerates links "
              "lexicographically: ind0, ind1, ind10, ind11, ind2, ...) or from other members" % (nw, nr), fr.loc(er["node"]), sample=True)


def matrix_io(f, side):
    """canonical description of the row-wise hyperslab transfer of a matrix: R = rows, C = cols, OS = outer stride of the Eigen object, I = row index"""
    fo = Fold(f, record_calls=r"selectHyperslab$|DataSet::(write|read)$|::resize$|getSimpleExtentDims$|createDataSet$", inline=False).run()
    ev = [e for e in fo.events if e["kind"] == "call"]
    short = lambda e: e["callee"].split("::")[-1]
    mp = f.j["params"][1]["name"]
    out = {}
    subs = []
    M = r"(?:mat\{[^}]*\}|derived\(%s\)|%s)" % (re.escape(mp), re.escape(mp))
    io = [e for e in ev if short(e) in ("write", "read")]
    if len(io) != 1 or len(io[0]["args"]) < 4:
        return out
    fspace = str(io[0]["args"][3])                      # the file dataspace handed to the transfer
    if side == "writer":
        subs += [(r"rows\(%s\)" % M, "R"), (r"cols\(%s\)" % M, "C")]
    else:
        gd = [e for e in ev if short(e) == "getSimpleExtentDims" and not e["guards"]]
        if len(gd) != 1:
            return out
        D = re.escape(str(gd[0]["args"][0]))
        subs += [(r"at\(%s, 0\)" % D, "R"), (r"at\(%s, 1\)" % D, "C")]
        out["extent_src"] = "getSpace(openDataSet(" in fspace and str(gd[0]["obj"]) == fspace
    subs += [(r"outerStride\(%s\)" % M, "OS"), (r"data\(%s\)" % M, "DATA"), (r"i?\w*@L\d+", "I")]

    def canon(v):
        t = str(v)
        if fspace:
            t = t.replace(fspace, "FSPACE")
        for rx, to in subs:
            t = re.sub(rx, to, t)
        return t
    if side == "writer":
        ext = re.match(r"^ctor\(2, (.*), nullptr\)$", fspace)
        e_ = ext.group(1) if ext else None
        for rx, to in subs:
            e_ = re.sub(rx, to, e_) if e_ is not None else None
        # a zero column count is stored as one column (HDF5 extents must be positive): same extent for every matrix that has data
        e_ = e_.replace("ite((C == 0), 1, C)", "C") if e_ is not None else None
        out["extent"] = e_ if fspace in str(io[0]["obj"]) else "%s, but the dataset is created as %s" % (e_, str(io[0]["obj"])[:120])
    sel = [e for e in ev if short(e) == "selectHyperslab"]
    if len(sel) != 2:
        return out
    lids = {tuple(g[0][1] for g in e["guards"] if isinstance(g[0], tuple) and g[0] and g[0][0] == "loop") for e in sel + io}
    if len(lids) != 1 or len(next(iter(lids))) != 1:
        return out
    lid = next(iter(lids))[0]
    lp = [l for l in fo.loops if l["lid"] == lid][0]
    keys = [k_ for k_, sy in lp["syms"].items()]
    ivar = [k_ for k_ in keys if lp["syms"][k_] in getattr(lp["cond"][1], "free_symbols", set()) | getattr(lp["cond"][2], "free_symbols", set())] if isinstance(lp["cond"], tuple) and len(lp["cond"]) == 3 else []
    if len(ivar) == 1:
        k_ = ivar[0]
        out["loop"] = "from %s while %s step %s" % (canon(lp["init"].get(k_)), canon(fo.cond_str(lp["cond"])), canon(lp["step"].get(k_)))
    fs = [e for e in sel if str(e["obj"]) == fspace]
    ms = [e for e in sel if str(e["obj"]) != fspace]
    if len(fs) == 1 and len(ms) == 1:
        out["fsel"] = canon(fs[0]["args"][1:])
        out["msel"] = canon(ms[0]["args"][1:])
        out["mspace"] = canon(ms[0]["obj"])
    out["xfer"] = canon(io[0]["args"][:4])
    rs = [e for e in ev if short(e) == "resize" and not e["guards"] and not e.get("not")]
    if rs:
        out["resize"] = ",".join(canon(a_) for a_ in rs[0]["args"])
    return out


ROW_UNITS = ("atom.cc", "polarsite.cc", "qmatom.cc", "qmpair.cc", "staticsite.cc", "aoshell.cc", "ecpaobasis.cc")


def _slot_of_value(v):
    """the member slot a writer value reads: (member, component/carrier) for pos_.x, at(Q_, 3), getValue(M, X), c_str(M), M"""
    import sympy as sp
    s_ = str(v)
    m = re.match(r"^(\w+)\.([xyz])$", s_)
    if m:
        return (m.group(1), "xyz".index(m.group(2)))
    m = re.match(r"^at\((\w+), (\d+)\)$", s_)
    if m:
        return (m.group(1), int(m.group(2)))
    m = re.match(r"^getValue\((\w+), ([\w:]+)\)$", s_)
    if m:
        return (m.group(1), m.group(2).split("::")[-1])
    m = re.match(r"^c_str\((\w+)\)$", s_)
    if m:
        return (m.group(1), None)
    if re.match(r"^\w+_$", s_):
        return (s_, None)
    return None


def _slot_of_target(t):
    t = t.replace(" ", "")
    m = re.match(r"^(\w+)\[(\d+)\]$", t)
    if m:
        return (m.group(1), int(m.group(2)))
    m = re.match(r"^(\w+)\.([xyz])\(\)$", t)
    if m:
        return (m.group(1), "xyz".index(m.group(2)))
    if re.match(r"^\w+_$", t):
        return (t, None)
    return None


def check_row_tables(rep, tier):
    units = [front.repo("xtp/src/libxtp/" + u) for u in ROW_UNITS]
    FR = Facts(front.export(units, skip_unavailable=True))
    if front.LAST_SKIPPED:
        rep.assumptions.append("row classes in units that need uninstalled third-party headers are not analysed: %s" % ", ".join(
            "%s (%s)" % (os.path.basename(u), h) for u, h in front.LAST_SKIPPED))
    rep.units = list(rep.units) + [u for u in units if u not in [x for x, _h in front.LAST_SKIPPED]]
    setups = [f for f in FR.funcs if f.qname.endswith("::SetupCptTable") and f.j.get("body")]
    rep.floor("R17.7", len(setups), 5, "row classes with SetupCptTable")
    for su in sorted(setups, key=lambda f: f.qname):
        cls = su.qname.rsplit("::", 1)[0]
        short = cls.split("::")[-1]
        rec = FR.records.get(cls + "::data")
        wr = [f for f in FR.find(cls + "::WriteData") if f.j.get("body")]
        rd = [f for f in FR.find(cls + "::ReadData") if f.j.get("body")]
        if rec is None or len(wr) != 1 or len(rd) != 1:
            rep.broken("R17.7", "%s: data record, WriteData or ReadData not found (%s, %d, %d)" % (cls, rec is not None, len(wr), len(rd)))
            continue
        wr, rd = wr[0], rd[0]
        for f_ in (su, wr, rd):
            rep.analysed(f_)
        fields = {fl["name"]: fl.get("type") for fl in rec.get("fields", [])}
        # ---- columns
        cols = [n for n in su.walk() if n.get("k") == "mcall" and (n.get("callee") or "").endswith("addCol")]
        seen, names, badc = {}, {}, []
        # columns listed in a local table of {name, offsetof} pairs that a loop hands to addCol: each pair is a column of the type of that call
        expanded = []
        for c in cols:
            direct = [x for x in walk(c["args"][1]) if x.get("k") == "offsetof"] if len(c["args"]) == 2 else []
            if direct or len(c["args"]) != 2:
                expanded.append((c, None))
                continue
            loops = [a_ for a_ in su.ancestors(c) if a_.get("k") == "rangefor"]
            rng = unwrap(loops[0]["range"]) if loops else {}
            tab = su.decls.get(rng.get("decl")) if rng.get("k") == "ref" else None
            pairs = []
            if tab is not None and tab.get("init") is not None:
                def pair_nodes(n_):
                    offs_ = [x for x in walk(n_) if x.get("k") == "offsetof"]
                    strs_ = [x for x in walk(n_) if x.get("k") == "str"]
                    if len(offs_) == 1 and len(strs_) == 1:
                        return [(strs_[0], offs_[0])]
                    out_ = []
                    for key_ in ("args", "elems", "inits"):
                        for ch_ in (n_.get(key_) or []):
                            if isinstance(ch_, dict):
                                out_ += pair_nodes(ch_)
                    if not out_ and isinstance(n_.get("sub"), dict):
                        out_ = pair_nodes(n_["sub"])
                    return out_
                pairs = pair_nodes(tab["init"])
            if not pairs:
                expanded.append((c, None))
            for st_, of_ in pairs:
                expanded.append((c, (st_, of_)))
        for c, pr_ in expanded:
            if pr_ is not None:
                off, nm = [pr_[1]], [pr_[0].get("v")]
            else:
                off = [x for x in walk(c["args"][1]) if x.get("k") == "offsetof"] if len(c["args"]) == 2 else []
                nm = [x.get("v") for x in walk(c["args"][0]) if x.get("k") == "str"] if c["args"] else []
            if len(off) != 1 or len(off[0]["path"]) != 1 or nows(off[0]["record"]) != nows(cls + "::data") or len(nm) != 1:
                badc.append("a column whose offset is not offsetof(%s::data, <field>) (%s)" % (short, show(c)[:80]))
                continue
            fld = off[0]["path"][0]
            seen.setdefault(fld, []).append(c)
            names.setdefault(nm[0], []).append(fld)
            ta = re.search(r"addCol<(.*)>$", c.get("callee_targs") or "")
            ft = (fields.get(fld) or "").replace("const ", "")
            if ta and ft and nows(ta.group(1)) != nows(ft):
                badc.append("column '%s' is declared %s but field %s is %s" % (nm[0], ta.group(1), fld, ft))
            if not ta and ft and "char" not in ft:
                badc.append("column '%s' is a string column but field %s is %s" % (nm[0], fld, ft))
        for fld in fields:
            if len(seen.get(fld, [])) != 1:
                badc.append("field %s has %d columns" % (fld, len(seen.get(fld, []))))
        for nm, fl_ in names.items():
            if len(fl_) > 1:
                badc.append("column name '%s' is used for fields %s" % (nm, fl_))
        for fld in seen:
            if fld not in fields:
                badc.append("column for %s, which is not a field of the record" % fld)
        rep.check(not badc, "R17.7", "columns|" + short, "one column per field of %s::data, at the field's offset, with its type and a distinct name" % short,
                  "%s::SetupCptTable: %s: the field is not stored (or stored under a wrong type/name), so rows do not survive write/read" % (short, "; ".join(badc[:3])), su.loc(), sample=(short == "QMPair"))
        # ---- writer / reader
        dw, dr = wr.j["params"][0]["name"], rd.j["params"][0]["name"]
        fw = Fold(wr, inline=False, record_calls=r"strcpy$").run()
        fr = Fold(rd, inline=False, record_calls=r"setValue$|operator<<$|operator,$").run()
        wmap, wcount = {}, {}
        for e in fw.events:
            if e["kind"] == "store" and e["target"].startswith(dw + "."):
                fld = e["target"][len(dw) + 1:]
                wcount.setdefault(fld, []).append(e)
                sl = _slot_of_value(e["value"])
                if sl:
                    wmap[fld] = sl
        badw = []
        for fld in fields:
            st = wcount.get(fld, [])
            if not st:
                badw.append("field %s is never filled" % fld)
            elif all(e["guards"] for e in st) and len(st) == 1:
                badw.append("field %s is filled only when %s" % (fld, fw.cond_str(st[0]["guards"][0][0])[:60]))
        rep.check(not badw, "R17.7", "writer-complete|" + short, "WriteData fills every field of the record", "%s::WriteData: %s: the row is written with an indeterminate value" % (short, "; ".join(badw[:3])), wr.loc())
        rmap, used = {}, set()
        chain = None
        for e in fr.events:
            txts = []
            if e["kind"] == "store":
                txts = [str(e["value"])]
            elif e["kind"] == "call":
                txts = [str(a) for a in e["args"]]
            flds = set()
            for t_ in txts:
                flds |= set(re.findall(r"\b%s\.(\w+)" % re.escape(dr), t_))
            used |= flds
            if e["kind"] == "store" and len(flds) == 1 and str(e["value"]) == "%s.%s" % (dr, list(flds)[0]):
                sl = _slot_of_target(e["target"])
                if sl:
                    rmap.setdefault(list(flds)[0], set()).add(sl)
            if e["kind"] == "store" and re.match(r"^\w+_$", e["target"]) and hasattr(e["value"], "shape") and 1 in e["value"].shape:
                # whole-vector assignment M = Vector(d.a, d.b, d.c): component i comes from the field in position i
                for i_, x_ in enumerate(list(e["value"])):
                    if str(x_).startswith(dr + ".") and re.match(r"^\w+$", str(x_)[len(dr) + 1:]):
                        rmap.setdefault(str(x_)[len(dr) + 1:], set()).add((e["target"], i_))
            if e["kind"] == "call" and e["callee"].endswith("operator<<") and len(e["args"]) == 2:
                t0 = e["args"][0]
                tm = re.match(r"^(\w+)\.x$", str(list(t0)[0])) if hasattr(t0, "shape") else re.match(r"^(\w+_)$", str(t0))
                chain = [tm.group(1), 0] if tm else None
                if chain and str(e["args"][1]).startswith(dr + "."):
                    rmap.setdefault(str(e["args"][1])[len(dr) + 1:], set()).add((chain[0], 0))
            if e["kind"] == "call" and e["callee"].endswith("operator,") and len(e["args"]) == 2 and chain:
                chain[1] += 1
                if str(e["args"][1]).startswith(dr + "."):
                    rmap.setdefault(str(e["args"][1])[len(dr) + 1:], set()).add((chain[0], chain[1]))
            if e["kind"] == "call" and e["callee"].endswith("setValue") and len(e["args"]) == 2 and str(e["args"][0]).startswith(dr + "."):
                rmap.setdefault(str(e["args"][0])[len(dr) + 1:], set()).add((str(e["obj"]), str(e["args"][1]).split("::")[-1]))
        for n in rd.walk():
            if n.get("k") == "member" and unwrap(n.get("base") or {}).get("name") == dr:
                used.add(n.get("fname"))
        unread = [fld for fld in fields if fld not in used]
        rep.check(not unread, "R17.7", "reader-complete|" + short, "ReadData consumes every field of the record", "%s::ReadData never reads %s: that part of the row is not restored" % (short, unread), rd.loc())
        inv = {sl: fld for fld, sl in wmap.items()}
        bads = []
        for fld, sls in sorted(rmap.items()):
            for sl in sorted(sls, key=str):
                if sl in inv and inv[sl] != fld:
                    bads.append("%s%s is restored from column %s but was stored in column %s" % (sl[0], "" if sl[1] is None else "[%s]" % sl[1], fld, inv[sl]))
                elif fld in wmap and wmap[fld][0] == sl[0] and wmap[fld] != sl:
                    bads.append("column %s holds %s[%s] but is restored into %s[%s]" % (fld, wmap[fld][0], wmap[fld][1], sl[0], sl[1]))
        nslots = sum(1 for fld, sls in rmap.items() for sl in sls if sl in inv)
        rep.check(not bads, "R17.7", "slots|" + short, "%d member slots restored from the column they were stored in" % nslots,
                  "%s: %s" % (short, "; ".join(bads[:3])), rd.loc(), sample=(short == "PolarSite"))
        if nslots < 3:
            rep.broken("R17.7", "%s: only %d member slots could be matched between WriteData and ReadData" % (short, nslots))
