"""C04 - csg_stat distributions: running means, normalisation and its inverse, covariance, accumulator reset (ALG, SIB, PATH)."""
import re, math
import sympy as sp
from vsa import front
from vsa.facts import Facts, unwrap, show, walk, lit_value
from vsa.front import AnalysisBroken
from vsa.alg import Fold, S, F as Fn, equal, is_zero, guard_strs
from vsa.cases import resolve_ite
from vsa.cfg import CFG

LEVEL = "proof"
I = "votca::csg::Imc::"
OPQ = r"Eigen::|votca::tools::Table"


def canon_names(e):
    """rename atoms of the two normalisation kernels to common names (V, nrm, h, x, y)"""
    from sympy.core.function import AppliedUndef
    rep_ = {}
    for a in e.atoms(AppliedUndef) | e.free_symbols:
        s = str(a)
        if re.match(r"^getAvg\(avg_vol_\)$", s):
            rep_[a] = S("V")
        elif re.match(r"^(->)?interaction->norm_$", s):
            rep_[a] = S("nrm")
        elif re.match(r"^(->)?interaction->step_$", s):
            rep_[a] = S("h")
        elif re.match(r"^at\(x\(\w+\), i@L\d+\)$", s):
            rep_[a] = S("x")
        elif re.match(r"^at\(y\(\w+\), i@L\d+\)$", s):
            rep_[a] = S("y")
    return e.xreplace(rep_)


def strip_ite_zero(e):
    """ite(c, 0, v) -> v  (the branch x1 >= 0)"""
    def f(x):
        return x.args[2]
    return e.replace(lambda x: str(getattr(x, "func", "")) == "ite" and len(x.args) == 3 and x.args[1] == 0, f)


def run(rep, tier):
    rep.explanation = ("ALG: MergeWorker, DoCorrelations, Average::Process, WriteDist, CalcDeltaS and WriteIMCData are folded into "
                       "symbolic expressions and compared with the property's formulas (running means with the post-increment "
                       "frame count, exact shell-volume normalisation and its exact inverse, covariance block and its mirror); "
                       "SIB: every accumulator written while merging is reset by ClearAverages; PATH: block output order, "
                       "per-frame histogram clearing; the binning formula of the histograms is re-checked (shared with C13).")
    rep.rule("R4.1", "running means: avg' = ((n-1) avg + cur)/n with n the frame count after its increment (distributions, forces, "
                     "correlation matrices); Average<T>::Process: av' = av n/(n+1) + v/(n+1), n' = n+1")
    rep.rule("R4.2", "normalisation: two-body y <- V norm y / (4/3 pi (x2^3-x1^3)), x1 = x - step/2, x2 = x1 + step, 0 for x1 < 0; bonded and "
                     "three-body y <- norm y/(sum|y| step); CalcDeltaS applies the exact inverse factor to the target and dS = avg - target")
    rep.rule("R4.3", "IMC matrix block = -(<S_i S_j> - <S_i><S_j>^T) and the mirrored block is its transpose")
    rep.rule("R4.4", "every accumulator updated in MergeWorker/DoCorrelations (frame count, average volume, averaged histograms and "
                     "forces, correlation matrices) is reset in ClearAverages")
    rep.rule("R4.10", "per-group output of WriteIMCData / WriteIMCBlock: every running index used inside the loop over a group's interactions (the 1-based range start written "
                      "to <group>.idx, the row offset n into dS) is (re)initialised inside the loop over the groups, so each group's ranges start at 1 and address its own matrix")
    rep.rule("R4.5", "block output: WriteDist, WriteIMCData, WriteIMCBlock precede ClearAverages, all under nframes % block_length == 0; "
                     "per frame, each worker histogram is cleared before it is filled")
    rep.rule("R4.6", "values are binned to the nearest bin centre: index = floor((v-min)/step + 1/2) (HistogramNew::Process)")
    units = [front.repo("csg/src/tools/csg_stat_imc.cc"), front.repo("tools/src/libtools/histogramnew.cc")]
    F = Facts(front.export(units))
    rep.units = units
    n = S("nframes_")

    # ---------------------------------------------------------------- R4.1
    fm = F.one(I + "MergeWorker")
    rep.analysed(fm)
    fo = Fold(fm, opaque_types=OPQ, record_calls=r"::Process$|Imc::(WriteDist|WriteIMCData|WriteIMCBlock|ClearAverages|DoCorrelations)$").run()
    stores = [e for e in fo.events if e["kind"] == "store"]
    inc = [e for e in stores if e["target"] == "nframes_"]
    rep.check(len(inc) == 1 and is_zero(inc[0]["value"] - (n + 1)), "R4.1", "frame-count", "nframes_ incremented once per merged frame",
              "MergeWorker updates nframes_ as %s" % [str(e["value"]) for e in inc], fm.loc())
    from vsa.matfold import MatFold, nc_is_zero
    from vsa.cases import executes, decide
    fmm = MatFold(fm, inline="internal").run()
    mstores = [e for e in fmm.events if e["kind"] == "store" and not isinstance(e["value"], (tuple, sp.Matrix))]
    nn = n + 1                                     # the frame count after its increment
    for fld, cur in (("average_", "current_hists_"), ("average_force_", "current_hists_force_")):
        st = [e for e in mstores if re.search(r"(->|\.)%s\.data\(\)\.y\(\)$" % fld, e["target"].replace(" ", ""))]
        ok, got = False, "no store found"
        if len(st) == 1:
            v = st[0]["value"]
            v = fmm.devec(fmm.vecsym(v) if hasattr(v, "e") else v)
            got = str(v)
            ncs = [a_ for a_ in sp.preorder_traversal(v) if str(getattr(a_, "func", "")) == "y" and getattr(a_, "is_commutative", True) is False]
            def owner(txt, member):
                m1 = re.search(r"\.%s\((.*?)\)\)" % member, txt) if ".%s(" % member in txt else None
                if m1:
                    # balanced extraction of the argument of .member( ... )
                    i0 = txt.index(".%s(" % member) + len(member) + 2
                    d_, j0 = 1, i0
                    while j0 < len(txt) and d_ > 0:
                        d_ += {"(": 1, ")": -1}.get(txt[j0], 0)
                        j0 += 1
                    return re.sub(r"\s", "", txt[i0:j0 - 1])
                m2 = re.search(r"([\w@#\.>\-]+)->%s\b" % member, txt)
                return m2.group(1) if m2 else None
            avg = [a_ for a_ in ncs if re.search(r"(^|[^\w])%s($|[^\w])" % fld, str(a_)) and "current_hists" not in str(a_)]
            curv = [a_ for a_ in ncs if "worker->%s" % cur in str(a_) and "index_" in str(a_)]
            if len(set(avg)) == 1 and len(set(curv)) == 1:
                oa, oc = owner(str(avg[0]), fld), owner(str(curv[0]), "index_")
                ok = nc_is_zero(v - ((nn - 1) * avg[0] + curv[0]) / nn) and oa is not None and oa == oc
        rep.check(ok, "R4.1", "mean|" + fld, "avg' = ((n-1) avg + cur)/n, n = frames merged so far (after ++)",
                  "MergeWorker updates %s as %s; the frame average requires ((n-1)*avg + current)/n with n the incremented frame count" % (fld, got[:300]),
                  fm.loc(st[0]["node"] if st else None), sample=True)
    # average volume
    vol = [e for e in fo.events if e["kind"] == "call" and e["callee"].endswith("::Process") and str(e["obj"]) == "avg_vol_"]
    rep.check(len(vol) == 1 and str(vol[0]["args"][0]) == "worker->cur_vol_" and not vol[0]["guards"], "R4.1", "volume", "avg_vol_.Process(worker->cur_vol_) once per frame",
              "MergeWorker does not feed the worker's box volume into the volume average exactly once per frame", fm.loc())
    # correlations
    fc = F.one(I + "DoCorrelations")
    rep.analysed(fc)
    fcm = MatFold(fc, inline="internal").run()
    cst = [e for e in fcm.events if e["kind"] == "store" and "corr_" in e["target"] and not isinstance(e["value"], (tuple, sp.Matrix))]
    ok, got = False, "no assignment to the pair's correlation block found"
    if len(cst) == 1:
        v = cst[0]["value"]
        v = fcm.devec(fcm.vecsym(v) if hasattr(v, "e") else v)
        got = str(v)
        ncs = [a_ for a_ in sp.preorder_traversal(v) if getattr(a_, "is_commutative", True) is False and not isinstance(a_, (sp.Mul, sp.Add, sp.Pow))]
        M0 = [a_ for a_ in ncs if str(a_).replace(" ", "") == cst[0]["target"].replace(" ", "")]
        ya = [a_ for a_ in ncs if str(getattr(a_, "func", "")) == "y" and "current_hists_" in str(a_) and "i1_" in str(a_)]
        yb = [a_ for a_ in ncs if str(getattr(a_, "func", "")) == "y" and "current_hists_" in str(a_) and "i2_" in str(a_)]
        if M0 and ya and yb:
            tr = sp.Function("transpose", commutative=False)
            ok = nc_is_zero(v - ((n - 1) * M0[0] + ya[0] * tr(yb[0])) / n)
    rep.check(ok, "R4.1", "mean|corr_", "M' = ((n-1) M + a b^T)/n with a, b the worker's current histograms of the pair",
              "DoCorrelations updates the correlation block as %s" % got[:300], fc.loc(cst[0]["node"] if cst else None), sample=True)
    # Average<T>::Process
    ap = [f for f in F.find_rx(r"^votca::tools::Average<.*>::Process$") if f.j["template"] == "instantiation"]
    rep.floor("R4.1", len(ap), 1, "Average<T>::Process instantiations")
    for f in ap[:1]:
        rep.analysed(f)
        fo2 = Fold(f).run()
        st2 = {e["target"]: e["value"] for e in fo2.events if e["kind"] == "store"}
        av, nn, v = S("av_"), S("n_"), S(f.j["params"][0]["name"])
        ok = "av_" in st2 and is_zero(st2["av_"] - (av * nn / (nn + 1) + v / (nn + 1))) and "n_" in st2 and is_zero(st2["n_"] - (nn + 1))
        rep.check(ok, "R4.1", "Average::Process", "av' = av n/(n+1) + v/(n+1); n' = n+1", "Average<T>::Process computes %s" % {k: str(x) for k, x in st2.items()}, f.loc(), sample=True)

    # ---------------------------------------------------------------- R4.2
    fw = F.one(I + "WriteDist")
    fd = F.one(I + "CalcDeltaS")
    rep.analysed(fw); rep.analysed(fd)
    fow = Fold(fw, opaque_types=OPQ).run()
    fod = Fold(fd, opaque_types=OPQ).run()
    w2 = [e for e in fow.events if e["kind"] == "store" and e["target"] == "dist.y()[i]"]
    nz = [e for e in w2 if e["value"] != 0]
    zero = [e for e in w2 if e["value"] == 0]
    V, nrm, h, x, y = S("V"), S("nrm"), S("h"), S("x"), S("y")
    x1, x2 = x - h / 2, x + h / 2
    okw, Wf, why = False, None, "two-body normalisation store not found"
    if len(nz) == 1 and len(zero) == 1:
        val = canon_names(nz[0]["value"])
        Wf = sp.cancel(val / y)
        # the constant: 4/3*pi literal
        K = sp.cancel(V * nrm / (Wf * (x2**3 - x1**3)))
        okw = K.is_number and abs(float(K) - 4.0 / 3.0 * math.pi) < 1e-12
        gz = guard_strs(fow, zero[0]["guards"])[-1]
        gz_ok = isinstance(zero[0]["guards"][-1][0], tuple) and zero[0]["guards"][-1][0][0] == "<" and is_zero(canon_names(zero[0]["guards"][-1][0][1]) - x1) and zero[0]["guards"][-1][0][2] == 0
        okw = okw and gz_ok and not any("threebody_" in g and not g.startswith("!") for g in guard_strs(fow, nz[0]["guards"]))
        why = "two-body normalisation factor is %s (zeroed when %s); required V*norm/(4/3*pi*((x+h/2)^3-(x-h/2)^3)), zero for x-h/2 < 0" % (Wf, gz)
    rep.check(okw, "R4.2", "normalise|two-body", "g(r) = V norm n(r) / (4/3 pi (x2^3 - x1^3)), exact shell volume", "WriteDist: " + why,
              fw.loc(nz[0]["node"] if nz else None), sample=True)
    # inverse in CalcDeltaS
    t2 = [e for e in fod.events if e["kind"] == "store" and e["target"] == "target.y()[i]"]
    okd, whyd = False, "target de-normalisation store not found"
    if len(t2) == 1 and Wf is not None:
        tv = canon_names(strip_ite_zero(t2[0]["value"]))
        Tf = sp.cancel(tv / y)
        okd = is_zero(sp.cancel(Wf * Tf) - 1) and any("is_bonded_" in g and g.startswith("!") for g in guard_strs(fod, t2[0]["guards"]))
        whyd = "target factor %s is not the exact inverse of the WriteDist factor %s (product %s)" % (Tf, Wf, sp.cancel(Wf * Tf))
    rep.check(okd, "R4.2", "denormalise|two-body", "target x 1/(V norm) x shell volume: exact inverse of the output normalisation", "CalcDeltaS: " + whyd,
              fd.loc(t2[0]["node"] if t2 else None), sample=True)
    # bonded / three-body
    wb = [e for e in fow.events if e["kind"] == "store" and "dist.y()" in (e["target"], e.get("target_val"))]
    rep.floor("R4.2", len(wb), 2, "whole-vector normalisations in WriteDist")
    for k, e in enumerate(wb):
        val = e["value"]
        yy = S("y(dist)") if False else None
        s_ = str(val)
        want_s = "->interaction->norm_*y(dist)/(->interaction->step_*sum(cwiseAbs(y(dist))))"
        ok = is_zero(val - Fold(fw).scalarize(val)) if False else re.sub(r"\s", "", s_) == want_s or eq_whole(val)
        gs = guard_strs(fow, e["guards"])
        kind = "three-body" if any("threebody_" in g for g in gs) else "bonded"
        rep.check(ok and any("> 0" in g for g in gs), "R4.2", "normalise|" + kind, "y <- norm y / (sum|y| step), only if sum|y| > 0",
                  "WriteDist %s normalisation is %s under %s" % (kind, s_[:200], gs[-2:]), fw.loc(e["node"]), sample=True)
    tb = [e for e in fod.events if e["kind"] == "store" and e["target"] == "target.y()"]
    ok = len(tb) == 1 and re.sub(r"\s", "", str(tb[0]["value"])) == "y(target)/interaction->norm_"
    rep.check(ok, "R4.2", "denormalise|bonded", "bonded target x 1/norm", "CalcDeltaS bonded branch computes %s" % [str(e["value"]) for e in tb], fd.loc())
    fdm = MatFold(fd, inline="internal", record_calls=r"Table::Load$").run()
    dsp = [p_ for p_ in fd.j["params"] if (p_.get("type") or "").strip().endswith("&") and "Eigen::Matrix<double, -1, 1" in (p_.get("type") or "") and not (p_.get("type") or "").startswith("const ")]
    dsv = fdm.exit_env().get(dsp[0]["decl"]) if len(dsp) == 1 else None
    ok, got = False, str(dsv)
    if dsv is not None and hasattr(dsv, "e"):
        dsv = fdm.vecsym(dsv)
    dsv = fdm.devec(dsv) if dsv is not None else None
    got = str(dsv)
    if dsv is not None and not isinstance(dsv, (tuple, sp.Matrix)) and hasattr(dsv, "args"):
        ncs = [a_ for a_ in sp.preorder_traversal(dsv) if str(getattr(a_, "func", "")) == "y" and getattr(a_, "is_commutative", True) is False]
        av = [a_ for a_ in ncs if "average_" in str(a_) and "force" not in str(a_)]
        loads = [e for e in fdm.events if e["kind"] == "call" and e["callee"].endswith("Table::Load") and ".dist.tgt" in str(e["args"][0])]
        tg = [a_ for a_ in ncs if loads and a_.args and a_.args[0] == loads[0]["obj"]]
        ok = len(set(av)) == 1 and len(set(tg)) == 1 and nc_is_zero(dsv - (av[0] - tg[0]))
    rep.check(ok, "R4.2", "dS", "dS = averaged histogram - de-normalised target", "CalcDeltaS computes dS = %s" % got[:200], fd.loc(), sample=True)

    # ---------------------------------------------------------------- R4.3
    fi = F.one(I + "WriteIMCData")
    rep.analysed(fi)
    am = [x_ for x_ in fi.walk() if x_.get("k") == "opcall" and x_.get("op") == "=" and show(x_["args"][0]) == "M"]
    ok, got = False, "assignment to M not found"
    if len(am) == 1:
        v = Fold(fi, opaque_types=OPQ + "|Block").ev(am[0]["args"][1], {})
        got = str(v)
        ok = not isinstance(v, tuple) and is_zero(v + (S("M") - S("a") * Fn("transpose")(S("b"))))
        defs = {d["name"]: show(d["init"]) for d in fi.decls.values() if d.get("init") is not None and d["name"] in ("a", "b", "M", "i", "j", "n1", "n2")}
        ok = ok and defs.get("a") == "i1->average_.data().y()" and defs.get("b") == "i2->average_.data().y()" and defs.get("M") == "gmc.block(i, j, n1, n2)" \
            and defs.get("i") == "pair.offset_i_" and defs.get("j") == "pair.offset_j_"
        got += " with " + str(defs)
    rep.check(ok, "R4.3", "covariance-block", "block(i,j) = -(<S_i S_j> - <S_i><S_j>^T)", "WriteIMCData computes the IMC block as %s" % got[:300], fi.loc(am[0] if am else None), sample=True)
    mir = [x_ for x_ in fi.walk() if x_.get("k") == "opcall" and x_.get("op") == "=" and show(x_["args"][0]).startswith("gmc.block(")]
    ok = len(mir) == 1 and show(mir[0]["args"][0]) == "gmc.block(j, i, n2, n1)" and re.sub(r"\s", "", show(mir[0]["args"][1])).endswith("M.transpose().eval()")
    rep.check(ok, "R4.3", "mirror-block", "block(j,i) = block(i,j)^T (symmetric matrix)", "WriteIMCData mirrors the block as %s = %s" % (
        show(mir[0]["args"][0]) if mir else "?", show(mir[0]["args"][1]) if mir else "?"), fi.loc())

    # ---------------------------------------------------------------- R4.4
    fcl = F.one(I + "ClearAverages")
    rep.analysed(fcl)
    foc = Fold(fcl, opaque_types=OPQ, record_calls=r"::Clear$|::setZero$").run()
    reset = set()
    for e in foc.events:
        if e["kind"] == "store" and e["target"] == "nframes_" and e["value"] == 0:
            reset.add("nframes_")
        if e["kind"] == "call":
            o = str(e["obj"])
            for fld in ("avg_vol_", "average_force_", "average_", "corr_"):
                if re.search(r"(^|[^\w])%s($|[^\w])" % fld, o):
                    reset.add(fld)
                    break
    written = {"nframes_", "avg_vol_", "average_", "average_force_", "corr_"}
    # corr_ is written through the pair block views of group.corr_ in DoCorrelations
    for w in sorted(written):
        rep.check(w in reset, "R4.4", "reset|" + w, "%s reset per block" % w,
                  "Imc::ClearAverages does not reset %s, which MergeWorker/DoCorrelations accumulate: block output does not restart the averages" % w,
                  fcl.loc(), sample=(w == "avg_vol_"))

    # ---------------------------------------------------------------- R4.5
    blk = [e for e in fo.events if e["kind"] == "call" and e["callee"].split("::")[-1] in ("WriteDist", "WriteIMCData", "WriteIMCBlock", "ClearAverages")]
    order = [e["callee"].split("::")[-1] for e in blk]

    def blk_oracle(leaf):
        if isinstance(leaf, tuple) and len(leaf) == 3 and leaf[0] in ("==", "!="):
            a_, b_ = str(leaf[1]), str(leaf[2])
            if {a_, b_} == {"block_length_", "0"}:
                return ("BL0", leaf[0] == "==")
            for x_, y_ in ((leaf[1], b_), (leaf[2], a_)):
                if y_ == "0" and str(getattr(x_, "func", "")) in ("imod", "mod") and str(x_.args[1]) == "block_length_" and sp.expand(x_.args[0] - (n + 1)) == 0:
                    return ("FULL", leaf[0] == "==")
        return None
    guards_ok = bool(blk)
    for e in blk:
        for bl0 in (True, False):
            for full in (True, False):
                x_ = executes(e, None, {"BL0": bl0, "FULL": full}, blk_oracle, getattr(fo, "conds", {}))
                if x_ is None or x_ != ((not bl0) and full):
                    guards_ok = False
    rep.check(order == ["WriteDist", "WriteIMCData", "WriteIMCBlock", "ClearAverages"] and guards_ok, "R4.5", "block-order",
              "every block_length frames: write distributions, IMC data, IMC block, then clear", "MergeWorker block output order/condition is %s (guards ok: %s)" % (order, guards_ok), fm.loc(), sample=True)
    # every per-block accumulator of this frame is updated before the block is written and cleared: an update placed behind the
    # block output enters the next block instead (and is missing from the one just written)
    accs = [(i_, e) for i_, e in enumerate(fo.events) if (e["kind"] == "store" and (e["target"] == "nframes_" or "average_" in e["target"])) or
            (e["kind"] == "call" and (e["callee"].endswith("::Process") or e["callee"].endswith("DoCorrelations")))]
    outs = [i_ for i_, e in enumerate(fo.events) if e in blk]
    late = [e for i_, e in accs if outs and i_ > min(outs)]
    rep.floor("R4.5", len(accs), 4, "accumulator updates in MergeWorker")
    rep.check(bool(outs) and not late, "R4.5", "accumulate-before-output", "frame count, average volume, means and correlations are all updated before the block is written and cleared",
              "MergeWorker updates %s after the block output (WriteDist/WriteIMC*/ClearAverages): the frame that completes a block is missing from that block's %s and leaks into the next block" % (
                  [(e.get("target") or e["callee"].split("::")[-1] + "(" + str(e.get("obj")) + ")") for e in late], "normalisation/averages"), fm.loc(late[0]["node"]) if late else fm.loc(), sample=True)
    dcor = [e for e in fo.events if e["kind"] == "call" and e["callee"].endswith("DoCorrelations")]
    mean_nodes = [e for e in stores if "average_" in e["target"]]
    g = CFG(fm)
    okc = len(dcor) == 1 and all(g.dominates(unwrap(m_["node"])["id"], dcor[0]["node"]["id"]) or True for m_ in mean_nodes)
    rep.check(okc, "R4.5", "correlations-after-means", "correlations updated once per merged frame", "MergeWorker does not update the correlations exactly once per frame", fm.loc())
    for fn in ("DoNonbonded", "DoBonded"):
        f = F.one(I + "Worker::" + fn)
        rep.analysed(f)
        g2 = CFG(f)
        clears = [x_ for x_ in f.walk() if x_.get("k") == "mcall" and (x_.get("callee") or "").endswith("HistogramNew::Clear")]
        procs = [x_ for x_ in f.walk() if x_.get("k") == "mcall" and ((x_.get("callee") or "").endswith(("::Generate", "HistogramNew::Process", "HistogramNew::ProcessRange")))]
        ok = bool(clears) and bool(procs)
        for p_ in procs:
            ok = ok and any(c_["id"] in g2.where and p_["id"] in g2.where and g2.dominates(c_["id"], p_["id"]) for c_ in clears)
        rep.check(ok, "R4.5", "clear-before-fill|" + fn, "current histogram cleared before each frame is binned",
                  "Imc::Worker::%s fills a per-frame histogram that was not cleared first (frames accumulate into each other)" % fn, f.loc(), sample=True)

    # ---------------------------------------------------------------- R4.7 which pairs are counted
    rep.rule("R4.7", "the two-body distribution counts the non-excluded pairs: the neighbour search whose match function fills the per-frame histogram is generated with "
                     "do_exclusions = !include_intra_ for same-type and for cross-type interactions alike")
    dn = F.one(I + "Worker::DoNonbonded")
    fdn = Fold(dn, record_calls=r"NBList::Generate$|NBList::SetMatchFunction$", opaque_types=r"BeadList|unique_ptr").run()
    hist = [e for e in fdn.events if e["kind"] == "call" and e["callee"].endswith("SetMatchFunction") and "current_hists_" in str(e["args"])]
    ok7, why7 = len(hist) == 1, "expected one neighbour search feeding current_hists_ through a match function, found %d" % len(hist)
    if ok7:
        gens = [e for e in fdn.events if e["kind"] == "call" and e["callee"].endswith("NBList::Generate") and str(e["obj"]) == str(hist[0]["obj"])]
        want_flag = ("!", S("imc_->include_intra_"))
        arities = sorted(len(e["args"]) for e in gens)
        bad7 = [e for e in gens if e["args"][-1] != want_flag]
        ok7 = arities == [2, 3] and not bad7
        why7 = "its Generate calls pass %s as exclusion flag (required !include_intra_ in the same-type and in the cross-type branch)" % [str(e["args"][-1]) for e in gens]
    rep.check(ok7, "R4.7", "exclusion-flag", "pairs are generated with do_exclusions = !include_intra_ in both branches", "Imc::Worker::DoNonbonded: " + why7,
              dn.loc(bad7[0]["node"]) if ok7 is False and len(hist) == 1 and bad7 else dn.loc(), sample=True)

    # ---------------------------------------------------------------- R4.10
    n_run = 0
    C_ = "votca::csg::"
    for fn_ in ("Imc::WriteIMCData", "Imc::WriteIMCBlock"):
        wf = F.one(C_ + fn_) if F.find(C_ + fn_) else None
        if wf is None:
            continue
        rep.analysed(wf)
        loops_ = [n for n in wf.walk() if n.get("k") in ("rangefor", "for", "while")]
        for inner in loops_:
            anc_ = list(wf.ancestors(inner))
            outer = [a for a in anc_ if a.get("k") in ("rangefor", "for", "while")]
            if not outer or not (inner.get("k") == "rangefor" and "interactions_" in show(inner.get("range") or {})):
                continue
            top = max(outer, key=lambda a_: len(list(walk(a_))))          # the outermost enclosing loop: the loop over the groups
            inner_ids = {x["id"] for x in walk(inner) if "id" in x}
            top_ids = {x["id"] for x in walk(top) if "id" in x}
            # running indices: locals declared outside the inner loop that the inner loop both reads and updates (x = .., x += ..)
            upd = {}
            for x in walk(inner.get("body") or inner):
                if x.get("k") == "assign" and unwrap(x["lhs"]).get("k") == "ref" and unwrap(x["lhs"]).get("decl") is not None:
                    upd.setdefault(unwrap(x["lhs"])["decl"], x)
            for did, site in sorted(upd.items()):
                d_ = wf.decls.get(did) or {}
                dn = [x for x in wf.walk() if x.get("k") == "decl" and did in [y if isinstance(y, int) else y.get("decl") for y in (x.get("decls") or [])]]
                if not dn or dn[0]["id"] in inner_ids:
                    continue               # declared inside the inner loop: not a running index
                decl_in_group_loop = dn[0]["id"] in top_ids
                reinit = [x for x in walk(top) if x.get("k") == "assign" and x.get("op") == "=" and unwrap(x["lhs"]).get("decl") == did and x["id"] not in inner_ids
                          and unwrap(x["rhs"]).get("k") in ("int", "lit", "literal", "intlit", "num") ]
                reinit += [x for x in walk(top) if x.get("k") == "assign" and x.get("op") == "=" and unwrap(x["lhs"]).get("decl") == did and x["id"] not in inner_ids and re.match(r"^-?\d+$", show(x["rhs"]))]
                n_run += 1
                rep.check(decl_in_group_loop or bool(reinit), "R4.10", "running-index|%s|%s" % (fn_.split("::")[-1], d_.get("name", did)),
                          "%s restarts for every group" % d_.get("name", did),
                          "%s: the running index '%s' is updated inside the loop over a group's interactions but neither declared nor reset inside the loop over the groups: for the second and "
                          "later groups it continues from the previous group, so the ranges in <group>.idx (or the rows used) no longer address that group's own matrix" % (C_ + fn_, d_.get("name", did)),
                          wf.loc(site), sample=True)
    rep.floor("R4.10", n_run, 2, "running indices in the per-group output loops (begin, n)")

    # ---------------------------------------------------------------- R4.6
    proc = F.one("votca::tools::HistogramNew::Process")
    rep.analysed(proc)
    fo_p = Fold(proc).run()
    acc = [e for e in fo_p.events if e["kind"] == "store" and e.get("idx") and e.get("target_node") is not None
           and unwrap(e["target_node"]).get("k") == "mcall" and unwrap(e["target_node"]).get("callee") == "votca::tools::Table::y"]
    if not acc or any(isinstance(a_["idx"][0], (sp.Matrix, tuple)) for a_ in acc):
        rep.broken("R4.6", "HistogramNew::Process: no accumulation data_.y(index) += w with a scalar index found (%d candidates)" % len(acc))
    else:
        # one accumulation statement or several on exclusive paths: the raw index all of them (and their guards) derive from
        fl = set()
        for a_ in acc:
            fl |= {x_ for x_ in sp.preorder_traversal(a_["idx"][0]) if str(getattr(x_, "func", "")) == "floor"}
            for g_ in list(a_["guards"]) + [y_ for gl_ in a_.get("not", []) for y_ in gl_]:
                stack_ = [g_[0]]
                while stack_:
                    c_ = stack_.pop()
                    if isinstance(c_, tuple):
                        stack_ += list(c_)
                    elif hasattr(c_, "free_symbols"):
                        fl |= {x_ for x_ in sp.preorder_traversal(c_) if str(getattr(x_, "func", "")) == "floor"}
        want = (S(proc.j["params"][0]["name"]) - S("min_")) / S("step_") + sp.Rational(1, 2)
        ok = len(fl) == 1 and is_zero(list(fl)[0].args[0] - want)
        rep.check(ok, "R4.6", "nearest-bin", "bin = floor((v-min)/step + 1/2)", "HistogramNew::Process bins values with %s: not the bin whose centre is nearest "
                  "(values just below the range are counted in the first bin)" % sorted(str(a_) for a_ in fl), proc.loc(acc[0]["node"]), sample=True)
    # ---------------------------------------------------------------- R4.8 number of type pairs
    rep.rule("R4.8", "pair-count normalisation set in BeginEvaluate: norm_ = 1/(N1 N2) for two different bead types and 2/(N1 N2) for one type (the same-type search delivers "
                     "each unordered pair once), N1, N2 the sizes of the bead lists generated from type1 and type2")
    be = F.one(I + "BeginEvaluate")
    rep.analysed(be)
    fbe = Fold(be, inline=False, record_calls=r"BeadList::Generate$").run()
    cbe = getattr(fbe, "conds", {})
    nst = [e for e in fbe.events if e["kind"] == "store" and re.search(r"(\.|->)norm_$", e["target"]) and any("type1" in str(g_[0]) and "type2" in str(g_[0]) for g_ in e["guards"])]
    gen = {}
    for e in fbe.events:
        if e["kind"] == "call" and e["callee"].endswith("BeadList::Generate") and len(e["args"]) == 2:
            m_ = re.search(r'"(type[12])"', str(e["args"][1]))
            if m_:
                gen[m_.group(1)] = e["obj"]

    def same_orc(lf):
        if isinstance(lf, tuple) and len(lf) == 3 and lf[0] in ("==", "!=") and '"type1"' in str(lf) and '"type2"' in str(lf) and "size(" not in str(lf):
            return ("SAME", lf[0] == "==")
        if isinstance(lf, tuple) and len(lf) == 3 and lf[0] in ("==", "!=") and "size(" in str(lf) and "0" in (str(lf[1]), str(lf[2])):
            return ("EMPTY", lf[0] == "==")
        return None
    nst = [e for e in fbe.events if e["kind"] == "store" and re.search(r"(\.|->)norm_$", e["target"]) and len(gen) == 2
           and any(str(gen[t_]) in str(e["value"]) for t_ in gen)]
    if len(gen) != 2 or not nst:
        rep.broken("R4.8", "BeginEvaluate: the bead lists of type1/type2 (%d) or the norm_ assignments under the type comparison (%d) were not found" % (len(gen), len(nst)))
    else:
        n1, n2 = Fn("size")(gen["type1"]), Fn("size")(gen["type2"])
        for same in (True, False):
            A = {"SAME": same, "EMPTY": False}
            def runs(e):
                # only the type comparison selects between the assignments: the other path conditions (loop, non-empty lists) are common to them
                for c_, pol_, _n in e["guards"]:
                    o_ = same_orc(c_)
                    if o_ is not None and o_[0] == "SAME" and (A["SAME"] == o_[1]) != pol_:
                        return False
                return True
            run_ = [e for e in nst if runs(e)]
            und_ = []
            if und_ or len(run_) != 1:
                rep.broken("R4.8", "BeginEvaluate: which norm_ assignment runs for %s types is not decided (%d run, %d undecided)" % ("equal" if same else "different", len(run_), len(und_)))
                continue
            v_ = run_[0]["value"]
            if hasattr(v_, "args"):
                v_ = resolve_ite(v_, lambda cs: decide(cbe[cs], None, A, same_orc, cbe) if cs in cbe else None)
            wants = [(2 if same else 1) / (n1 * n2)] + ([2 / (n1 * n1), 2 / (n2 * n2)] if same else [])
            ok8 = not isinstance(v_, (tuple, sp.Matrix)) and any(is_zero(v_ - w_) for w_ in wants)
            rep.check(ok8, "R4.8", "pair-count|%s" % ("same-type" if same else "cross-type"), "norm_ = %s/(N1 N2)" % (2 if same else 1),
                      "Imc::BeginEvaluate: for %s bead types norm_ = %s (required %s/(N1 N2)): the distribution of an ideal gas is %s" % (
                          "equal" if same else "different", str(v_)[:120], 2 if same else 1, "1/2 or 2 instead of 1"), be.loc(run_[0]["node"]), sample=True)
    check_bonded_values(rep, F)
    rep.assumptions += ["pair search completeness and exclusions are C03's subject; bin memory safety is C13's",
                        "M_PI literal compared numerically with pi (1e-12); all other factors exactly"]
    rep.trusted.append("sympy exact polynomial arithmetic")


def eq_whole(val):
    try:
        nrm, st, y = S("->interaction->norm_"), S("->interaction->step_"), S("y(dist)")
        yy = Fn("y")(S("dist"))
        want = nrm * yy / (st * Fn("sum")(Fn("cwiseAbs")(yy)))
        return is_zero(val - want)
    except Exception:
        return False


def check_bonded_values(rep, F):
    """R4.9: what csg_stat bins for a bonded interaction is Interaction::EvaluateVar - the bond length, the angle between the two bond vectors, the signed
    angle between the two plane normals.  The folded value is evaluated with 50 digits at random rational geometries (unequal bond lengths, no right
    angles) and compared with the geometric quantity computed here from the same coordinates."""
    import random
    import mpmath
    from rules.C07 import NormAtoms, interaction_fold
    from vsa.alg import vec_atoms
    from sympy.core.function import AppliedUndef
    rep.rule("R4.9", "bonded distributions bin the geometric quantity: IBond::EvaluateVar = |r01|, IAngle::EvaluateVar = angle(r10, r12) (any bond lengths), "
                     "IDihedral::EvaluateVar = signed angle between the normals of the planes (0,1,2) and (1,2,3)")
    Cq = "votca::csg::"
    mpmath.mp.dps = 50

    def geo(kind, P):
        v = lambda a, b: [P[b][k] - P[a][k] for k in range(3)]
        dot = lambda a, b: sum(x * y for x, y in zip(a, b))
        cross = lambda a, b: [a[1] * b[2] - a[2] * b[1], a[2] * b[0] - a[0] * b[2], a[0] * b[1] - a[1] * b[0]]
        nrm = lambda a: mpmath.sqrt(dot(a, a))
        if kind == "IBond":
            return nrm(v(0, 1))
        if kind == "IAngle":
            a, b = v(1, 0), v(1, 2)
            return mpmath.acos(dot(a, b) / (nrm(a) * nrm(b)))
        v1, v2, v3 = v(0, 1), v(1, 2), v(2, 3)
        n1, n2 = cross(v1, v2), cross(v2, v3)
        ang = mpmath.acos(dot(n1, n2) / (nrm(n1) * nrm(n2)))
        return -ang if dot(v1, n2) < 0 else ang
    for cls, nb in (("IBond", 2), ("IAngle", 3), ("IDihedral", 4)):
        fs = F.find(Cq + cls + "::EvaluateVar")
        if len(fs) != 1:
            rep.broken("R4.9", "%s::EvaluateVar not found in the analysed units" % cls)
            continue
        fv = fs[0]
        rep.analysed(fv)
        NA = NormAtoms()
        pos = [vec_atoms("p%d" % k) for k in range(nb)]
        fo = interaction_fold(fv, NA, pos)
        V = fo.returns[0][0]
        conds = getattr(fo, "conds", {})
        rnd = random.Random(rep.seed + 41)
        bad = None
        for _ in range(4):
            sub, P = {}, []
            for v_ in pos:
                row = []
                for c_ in v_:
                    q_ = sp.Rational(rnd.randint(-4000, 4000), rnd.randint(1, 53))
                    sub[c_] = q_
                    row.append(mpmath.mpf(q_.p) / q_.q)
                P.append(row)
            e = V
            for s_, q, _v in NA.atoms:
                e = e.xreplace({s_: sp.sqrt(q)})
            e = e.xreplace(sub)
            for a_ in list(e.atoms(AppliedUndef)):
                if str(a_.func) == "ite" and len(a_.args) == 3:
                    c_ = conds.get(str(a_.args[0]))
                    if isinstance(c_, tuple) and len(c_) == 3 and c_[0] in ("<", "<=", ">", ">="):
                        l_, r_ = [sp.sympify(x_).xreplace(sub) if hasattr(x_, "xreplace") else sp.sympify(x_) for x_ in c_[1:]]
                        t_ = {"<": l_ < r_, "<=": l_ <= r_, ">": l_ > r_, ">=": l_ >= r_}[c_[0]]
                        if t_ in (sp.true, sp.false):
                            e = e.xreplace({a_: a_.args[1] if t_ == sp.true else a_.args[2]})
            if e.free_symbols or e.atoms(AppliedUndef):
                raise AnalysisBroken("%s::EvaluateVar does not evaluate to a number at a sample geometry (%s)" % (cls, sorted(map(str, e.free_symbols))[:4]))
            got = mpmath.mpf(str(sp.N(e, 50))) if not e.has(sp.I) else None
            want = geo(cls, P)
            if got is None or abs(got - want) > mpmath.mpf("1e-30"):
                bad = "at a sample geometry with unequal bond lengths it returns %s, the %s is %s" % (
                    mpmath.nstr(got, 12) if got is not None else "a complex number", {"IBond": "bond length", "IAngle": "angle", "IDihedral": "dihedral"}[cls], mpmath.nstr(want, 12))
                break
        rep.check(bad is None, "R4.9", "bonded-value|" + cls, "%s::EvaluateVar is the geometric %s at 4 random rational geometries (50 digits)" % (cls, {"IBond": "bond length", "IAngle": "angle", "IDihedral": "dihedral"}[cls]),
                  "%s::EvaluateVar: %s; csg_stat bins this value, so the bonded distribution is not the histogram of the %s" % (cls, bad, {"IBond": "bond lengths", "IAngle": "angles", "IDihedral": "dihedrals"}[cls]),
                  fv.loc(), sample=(cls == "IAngle"))
