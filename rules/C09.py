"""C09 - Davidson solver: status honesty (PATH / WHO / must-assign), convergence predicate shape, option tables (EXH+DATA)."""
import os, re
import xml.etree.ElementTree as ET
from vsa import front
from vsa.facts import Facts, unwrap, show, walk, lit_value
from vsa.front import AnalysisBroken
from vsa.cfg import CFG
from vsa.alg import Fold, S

LEVEL = "other"
D = "votca::xtp::DavidsonSolver::"


def nows(s):
    return re.sub(r"\s+", "", s)


def assigns_info(f):
    """nodes that assign to info_ in f: (node, enumerator)"""
    out = []
    for n in f.walk():
        if n.get("k") == "assign" and n["op"] == "=" and unwrap(n["lhs"]).get("fname") == "info_":
            r = unwrap(n["rhs"])
            out.append((n, (r.get("qname") or show(r)).split("::")[-1]))
    return out


def run(rep, tier):
    rep.explanation = ("Status honesty of the iterative eigensolver is decided structurally: which functions can write the status "
                       "field and with which value (WHO), under which guard the Success-writing helper is called (CFG required "
                       "edge on a variable whose unique definition is checkConvergence's result), that every normal exit of solve "
                       "has assigned the status in this run (must-assign dataflow with helper summaries), and the shape of the "
                       "convergence predicate; option literals are tied to the shipped gwbse option description.")
    rep.rule("R9.1", "info_ = Success is written only in storeConvergedData, whose only call site requires checkConvergence(...) == true")
    rep.rule("R9.2", "must-assign: info_ is assigned on every path from the entry of solve to a normal exit (no stale status from a previous run)")
    rep.rule("R9.3", "predicate: root_converged = res_norm().head(size_update) < tol_; result = root_converged.head(neigen).all(); "
                     "storeNotConvergedData zeroes exactly the roots with !root_converged[i] and sets NoConvergence")
    rep.rule("R9.4", "storeEigenPairs: eigenvalues = lambda.head(neigen), eigenvectors = q.leftCols(neigen), columns normalised")
    rep.rule("R9.5", "option tables: literals accepted by set_tolerance / set_correction / set_size_update equal the choices of the gwbse option description; every enumerator of CORR/UPDATE/MATRIX_TYPE is handled")
    host = os.path.join(front.VERIF, "hosts", "xtp_davidson.cc")
    units = [host, front.repo("xtp/src/libxtp/davidsonsolver.cc")]
    F = Facts(front.export(units))
    rep.units = units
    rep.assumptions.append("xtp is not built in this sandbox: the units are parsed with synthesised flags and a stub libint2/initialize.h")

    # ---------------------------------------------------------------- R9.1
    writers = {}
    for f in F.funcs:
        if not f.qname.startswith(D) or f.j["template"] == "pattern":
            continue
        for n, val in assigns_info(f):
            writers.setdefault(val, []).append((f, n))
    succ = writers.get("Success", [])
    ok = len(succ) >= 1 and all(f.qname == D + "storeConvergedData" for f, _ in succ)
    rep.check(ok, "R9.1", "success-writer", "Success is written only by storeConvergedData",
              "info_ = Success is written in %s" % sorted({f.qname.split("::")[-1] for f, _ in succ}), succ[0][0].loc(succ[0][1]) if succ else None, sample=True)
    sc = F.one(D + "storeConvergedData")
    g = CFG(sc)
    ok = all(val == "Success" for _, val in assigns_info(sc)) and any(all(g.dominates_block(g.where[n["id"]][0], b) for b in g.exit_blocks()) for n, _ in assigns_info(sc))
    rep.check(ok, "R9.1", "storeConvergedData", "sets Success on every path", "storeConvergedData does not set Success on every path", sc.loc())
    snc = F.one(D + "storeNotConvergedData")
    rep.analysed(sc); rep.analysed(snc)
    g2 = CFG(snc)
    vals = [val for _, val in assigns_info(snc)]
    ok = vals == ["NoConvergence"] and all(g2.dominates_block(g2.where[assigns_info(snc)[0][0]["id"]][0], b) for b in g2.exit_blocks())
    rep.check(ok, "R9.1", "storeNotConvergedData", "sets NoConvergence on every path", "storeNotConvergedData writes status %s" % vals, snc.loc(), sample=True)
    solve = [f for f in F.find(D + "solve") if f.j["template"] == "instantiation"]
    if len(solve) != 1:
        raise AnalysisBroken("instantiation of DavidsonSolver::solve not found")
    solve = solve[0]
    rep.analysed(solve)
    gs = CFG(solve)
    calls_c = [n for n in solve.walk() if n.get("k") == "mcall" and n.get("callee") == D + "storeConvergedData"]
    allsites = [(f, n) for f in F.funcs if f.j["template"] != "pattern" for n in f.walk() if n.get("k") == "mcall" and n.get("callee") == D + "storeConvergedData"]
    rep.check(len(allsites) == 1 and len(calls_c) == 1, "R9.1", "single-call-site", "storeConvergedData has one call site (in solve)",
              "storeConvergedData is called from %s" % [f.qname for f, _ in allsites], solve.loc())
    ok, why = False, "guard not recognised"
    if len(calls_c) == 1:
        guards = [a for a in solve.ancestors(calls_c[0]) if a.get("k") == "if"]
        if guards:
            c = unwrap(guards[0]["cond"])
            neg = False
            while c.get("k") == "unop" and c["op"] == "!":
                c = unwrap(c["sub"]); neg = not neg
            if c.get("k") == "ref" and c.get("decl") in solve.decls:
                d = solve.decls[c["decl"]]
                init = unwrap(d.get("init")) if d.get("init") is not None else {}
                writes = [x for x in solve.walk() if x.get("k") == "assign" and unwrap(x["lhs"]).get("decl") == c["decl"]]
                is_cc = init.get("k") == "mcall" and init.get("callee") == D + "checkConvergence"
                req = gs.edge_required(c["id"], True, calls_c[0]["id"])
                ok = is_cc and not writes and req is True and not neg
                why = "the call is guarded by %s%s whose definition is %s (reassigned %d times); required: the un-negated result of checkConvergence" % (
                    "!" if neg else "", show(c), show(init), len(writes))
            elif c.get("k") == "mcall" and c.get("callee") == D + "checkConvergence":
                ok = gs.edge_required(c["id"], True, calls_c[0]["id"]) is True and not neg
                why = "guard is %scheckConvergence(...)" % ("!" if neg else "")
            else:
                why = "the call is guarded by %s" % show(guards[0]["cond"])
    rep.check(ok, "R9.1", "success-guard", "storeConvergedData only when checkConvergence returned true",
              "DavidsonSolver::solve: %s - unconverged roots can be reported as Success" % why, solve.loc(calls_c[0] if calls_c else None), sample=True)
    # the unconverged branch: last iteration and not converged -> storeNotConvergedData with proj.root_converged
    calls_n = [n for n in solve.walk() if n.get("k") == "mcall" and n.get("callee") == D + "storeNotConvergedData"]
    ok = len(calls_n) >= 1 and all(nows(show(c_["args"][1])) == "proj.root_converged" for c_ in calls_n)
    rep.check(ok, "R9.1", "nonconverged-branch", "last iteration without convergence -> storeNotConvergedData(rep, proj.root_converged, neigen)",
              "solve does not hand the per-root convergence flags to storeNotConvergedData", solve.loc())

    # ---------------------------------------------------------------- R9.2 must-assign
    summaries = {D + "storeConvergedData": True, D + "storeNotConvergedData": True}

    def transfer(st, e, b):
        if not isinstance(e, int):
            return st
        n = solve.nodes.get(e)
        if n is None:
            return st
        if n.get("k") == "assign" and n["op"] == "=" and unwrap(n["lhs"]).get("fname") == "info_":
            return True
        if n.get("k") == "mcall" and summaries.get(n.get("callee")):
            return True
        return st
    IN, OUT = gs.forward(False, transfer, lambda a, b: a and b)
    bad = []
    for b in gs.exit_blocks(normal=True):
        if b in OUT and not OUT[b]:
            bad.append(gs.last_node(b).get("line") if gs.last_node(b) else "?")
    rep.floor("R9.2", len(gs.exit_blocks(normal=True)), 1, "normal exits of solve")
    rep.check(not bad, "R9.2", "status-assigned-every-run", "info_ assigned on every entry->exit path of solve",
              "DavidsonSolver::solve can return without having assigned info_ in this run (e.g. when the iteration loop does not execute): a stale "
              "Success from an earlier run on the same object is reported", solve.loc(), sample=True)

    # ---------------------------------------------------------------- R9.3
    cc = F.one(D + "checkConvergence")
    rep.analysed(cc)
    asg = [n for n in cc.walk() if n.get("k") == "opcall" and n.get("op") == "=" and nows(show(n["args"][0])) == "proj.root_converged"]
    rets = [n for n in cc.walk() if n.get("k") == "return"]
    ok = len(asg) == 1 and re.sub(r"[()]", "", nows(show(asg[0]["args"][1]))) in ("rep.res_norm.headproj.size_update<tol_",)
    rep.check(ok, "R9.3", "root-converged", "root_converged = res_norm().head(size_update) < tol_", "checkConvergence computes root_converged as %s (must compare the residual norms with tol_ using <)" % (
        show(asg[0]["args"][1]) if asg else "?"), cc.loc(), sample=True)
    ok = len(rets) == 1 and nows(show(rets[0]["value"])) == "proj.root_converged.head(neigen).all()"
    rep.check(ok, "R9.3", "all-roots", "converged iff all requested roots are converged", "checkConvergence returns %s (required root_converged.head(neigen).all())" % (
        show(rets[0]["value"]) if rets else "?"), cc.loc(), sample=True)
    from vsa.cases import executes
    fz = Fold(snc, record_calls=r"::setZero$").run()
    zev = [e for e in fz.events if (e["kind"] == "store" and e["target"].replace(" ", "").startswith("eigenvalues_(") and e["value"] == 0)
           or (e["kind"] == "call" and "eigenvectors_" in str(e["obj"]) and "col(" in str(e["obj"]))]
    kinds = sorted({e["kind"] for e in zev})
    ok = kinds == ["call", "store"]
    if ok:
        def rc_oracle(leaf):
            s_ = str(leaf)
            if not isinstance(leaf, tuple) and "root_converged" in s_ and s_.startswith("at("):
                return ("RC", True)
            return None
        idxs = set()
        for e in zev:
            for rc in (True, False):
                x_ = executes(e, None, {"RC": rc}, rc_oracle, getattr(fz, "conds", {}))
                ok = ok and x_ is not None and x_ == (not rc)
            if e["kind"] == "store":
                idxs.add(str(e["idx"][0]) if e.get("idx") else "?")
            else:
                m_ = re.search(r"col\(eigenvectors_, ([^)]*)\)", str(e["obj"]))
                idxs.add(m_.group(1) if m_ else "?")
            # the flag tested is the one of the same root
            for c_, _pol, _n in e["guards"]:
                if "root_converged" in str(c_) and not (isinstance(c_, tuple) and c_ and c_[0] in ("loop", "each")):
                    m2 = re.search(r"at\(root_converged, ([^)]*)\)", str(c_))
                    idxs.add(m2.group(1) if m2 else "?")
        for gl in [g_ for e in zev for g_ in e.get("not", [])]:
            for c_, _pol, _n in gl:
                m2 = re.search(r"at\(root_converged, ([^)]*)\)", str(c_))
                if m2:
                    idxs.add(m2.group(1))
        ok = ok and len(idxs) == 1 and re.match(r"^\w+@L\d+$", list(idxs)[0]) is not None
        loops = [a_ for a_ in snc.ancestors(zev[0]["node"]) if a_.get("k") == "for"]
        np_ = snc.j["params"][-1]["decl"] if snc.j.get("params") else None
        okl = False
        if len(loops) == 1 and loops[0].get("cond") is not None and loops[0].get("init") is not None:
            c_ = unwrap(loops[0]["cond"])
            ini = loops[0]["init"]
            okl = c_.get("k") == "binop" and c_["op"] in ("<", "!=") and any(x.get("k") == "ref" and x.get("dk") == "param" and "neigen" in (x.get("name") or "") for x in walk(c_["rhs"])) \
                and ini.get("k") == "decl" and lit_value(ini["decls"][0].get("init")) == 0
        ok = ok and okl
    rep.check(ok, "R9.3", "zero-unconverged", "unconverged roots are zeroed, converged ones kept", "storeNotConvergedData does not zero exactly the roots with !root_converged[i]", snc.loc(), sample=True)
    tols = F.one(D + "set_tolerance")
    lits = {}
    for n in tols.walk():
        if n.get("k") == "if":
            ks = [x["v"] for x in walk(n["cond"]) if x.get("k") == "str"]
            vs = [lit_value(x["rhs"]) for x in walk(n["then"]) if x.get("k") == "assign" and unwrap(x["lhs"]).get("fname") == "tol_"]
            if ks and vs and vs[0] is not None:
                lits[ks[0]] = float(vs[0])
    order = [lits.get(k) for k in ("loose", "normal", "strict", "lapack")]
    rep.check(all(v is not None for v in order) and order == sorted(order, reverse=True) and all(0 < v < 1 for v in order), "R9.3", "tolerance-table",
              "loose > normal > strict > lapack > 0: %s" % lits, "tolerance literals are %s (must decrease from loose to lapack and be positive)" % lits, tols.loc())

    # ---------------------------------------------------------------- R9.4
    se = F.one(D + "storeEigenPairs")
    rep.analysed(se)
    st = {nows(show(n["args"][0])): nows(show(n["args"][1])) for n in se.walk() if n.get("k") == "opcall" and n.get("op") == "="}
    st = {k.replace("this->", ""): v for k, v in st.items()}
    ok = st.get("eigenvalues_") == "rep.lambda.head(neigen)" and st.get("eigenvectors_") == "rep.q.leftCols(neigen)"
    norm = [n for n in se.walk() if n.get("k") == "mcall" and (n.get("callee") or "").endswith("::normalize") and "colwise" in show(n)]
    rep.check(ok and len(norm) == 1, "R9.4", "store-pairs", "first neigen values/vectors stored, columns normalised", "storeEigenPairs stores %s" % st, se.loc(), sample=True)

    # ---------------------------------------------------------------- R9.5
    xmlp = front.repo("xtp/share/xtp/xml/subpackages/gwbse.xml")
    choices = {}
    try:
        root = ET.parse(xmlp).getroot()
        for el in root.iter():
            if el.tag in ("correction", "tolerance", "update") and el.get("choices"):
                choices[el.tag] = sorted(x for x in re.split(r"[ ,]+", el.get("choices")) if x)
    except Exception as e:
        rep.broken("R9.5", "cannot read gwbse.xml: %s" % e)
    for setter, tag in (("set_correction", "correction"), ("set_tolerance", "tolerance"), ("set_size_update", "update")):
        f = F.one(D + setter)
        rep.analysed(f)
        acc = sorted({x["v"] for n in f.walk() if n.get("k") == "if" for x in walk(n["cond"]) if x.get("k") == "str"})
        has_throw = any(x.get("k") == "throw" for x in f.walk())
        rep.check(acc == choices.get(tag) and has_throw, "R9.5", "choices|" + tag, "%s accepts %s = choices in gwbse.xml; anything else throws" % (setter, acc),
                  "%s accepts %s but gwbse.xml offers %s" % (setter, acc, choices.get(tag)), f.loc(), sample=True)
    for en in ("CORR", "UPDATE", "MATRIX_TYPE"):
        e = F.enums.get(D + en)
        if not e:
            rep.broken("R9.5", "enum %s not found" % en)
            continue
        names = {x[0] for x in e["enumerators"]}
        n_sw = 0
        for f in F.funcs:
            if not f.qname.startswith(D) or f.j["template"] == "pattern":
                continue
            for sw in f.walk():
                if sw.get("k") != "switch":
                    continue
                labels = {x["enumerator"].split("::")[-1] for x in walk(sw["body"]) if x.get("k") == "case" and x.get("enumerator") and "::%s::" % en in x["enumerator"]}
                if not labels:
                    continue
                n_sw += 1
                has_default = any(x.get("k") == "default" for x in walk(sw["body"]))
                rep.check(labels == names or has_default, "R9.5", "switch|%s|%s#%d" % (en, f.qname.split("::")[-1], n_sw), "every %s enumerator handled" % en,
                          "%s: switch over %s handles %s of %s" % (f.qname, en, sorted(labels), sorted(names)), f.loc(sw))
    rep.assumptions += ["that returned values are the lowest eigenvalues, orthonormality, residual bounds, convergence for diagonally dominant "
                        "matrices and the Hamiltonian mode are numerical properties: not decided (most of the property)"]
