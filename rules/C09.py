"""C09 - Davidson solver: status honesty (PATH / WHO / must-assign), convergence predicate shape, option tables (EXH+DATA)."""
import os, re
import xml.etree.ElementTree as ET
from vsa import front
from vsa.facts import Facts, unwrap, show, walk, lit_value
from vsa.front import AnalysisBroken
from vsa.cfg import CFG
from vsa.alg import Fold, S, F as Fn, guard_strs

LEVEL = "other"
D = "votca::xtp::DavidsonSolver::"


def nows(s):
    return re.sub(r"\s+", "", s)


def assigns_info(f):
    """nodes that assign to info_ in f: (node, enumerator)"""
    out = []
    for n in f.walk():
        if n.get("k") == "assign" and n["op"] == "=" and unwrap(n["lhs"]).get("fname") == "info_":
            r = unwrap(n["rhs"])
            out.append((n, (r.get("qname") or show(r)).split("::")[-1]))
    return out


def run(rep, tier):
    rep.explanation = ("Status honesty of the iterative eigensolver is decided structurally: which functions can write the status "
                       "field and with which value (WHO), under which guard the Success-writing helper is called (CFG required "
                       "edge on a variable whose unique definition is checkConvergence's result), that every normal exit of solve "
                       "has assigned the status in this run (must-assign dataflow with helper summaries), and the shape of the "
                       "convergence predicate; option literals are tied to the shipped gwbse option description.")
    rep.rule("R9.1", "info_ = Success is written only in storeConvergedData, whose only call site requires checkConvergence(...) == true")
    rep.rule("R9.2", "must-assign: info_ is assigned on every path from the entry of solve to a normal exit (no stale status from a previous run)")
    rep.rule("R9.3", "predicate: root_converged = res_norm().head(size_update) < tol_; result = root_converged.head(neigen).all(); "
                     "storeNotConvergedData zeroes exactly the roots with !root_converged[i] and sets NoConvergence")
    rep.rule("R9.4", "storeEigenPairs: eigenvalues = lambda.head(neigen), eigenvectors = q.leftCols(neigen), columns normalised")
    rep.rule("R9.6", "extendProjection: the loop visits every tracked root j = 0 .. size_update-1 and appends the correction vector built from (q.col(j), lambda(j), res.col(j)) "
                     "exactly when root j has not converged, in consecutive new columns; the space grows by the number of unconverged roots "
                     "(necessary for 'diagonally dominant matrices converge': a tracked root that never gets a correction stagnates)")
    rep.rule("R9.7", "the cached product AV stays A*V: Ritz vectors are q = V U and residues AV U - q diag(lambda) in both Ritz routines; a restart transforms AV by the same "
                     "matrix M as the retained search vectors (V' = V M, or q.leftCols(r) with M = U.leftCols(r)); necessary for 'Success implies residual below tolerance', "
                     "because every later convergence test reads residues computed from AV")
    rep.rule("R9.8", "computeCorrectionVector hands back finite entries only: the final element-wise filter maps NaN, +inf and -inf to 0 and keeps finite values "
                     "(r_k/(D_k - lambda) is infinite when a Ritz value equals a diagonal element; an infinity becomes NaN at normalisation and the solver throws "
                     "instead of reporting through its status)")
    rep.rule("R9.9", "every run of solve takes the diagonal of the operator it is given: Adiag_ = A.diagonal() is assigned unconditionally before the first use "
                     "(a re-used solver must not keep the diagonal of a previous operator: it feeds the initial guess and the preconditioner)")
    rep.rule("R9.5", "option tables: literals accepted by set_tolerance / set_correction / set_size_update equal the choices of the gwbse option description; every enumerator of CORR/UPDATE/MATRIX_TYPE is handled")
    host = os.path.join(front.VERIF, "hosts", "xtp_davidson.cc")
    units = [host, front.repo("xtp/src/libxtp/davidsonsolver.cc")]
    F = Facts(front.export(units))
    rep.units = units
    rep.assumptions.append("xtp is not built in this sandbox: the units are parsed with synthesised flags and a stub libint2/initialize.h")

    # ---------------------------------------------------------------- R9.1
    writers = {}
    for f in F.funcs:
        if not f.qname.startswith(D) or f.j["template"] == "pattern":
            continue
        for n, val in assigns_info(f):
            writers.setdefault(val, []).append((f, n))
    succ = writers.get("Success", [])
    ok = len(succ) >= 1 and all(f.qname == D + "storeConvergedData" for f, _ in succ)
    rep.check(ok, "R9.1", "success-writer", "Success is written only by storeConvergedData",
              "info_ = Success is written in %s" % sorted({f.qname.split("::")[-1] for f, _ in succ}), succ[0][0].loc(succ[0][1]) if succ else None, sample=True)
    sc = F.one(D + "storeConvergedData")
    g = CFG(sc)
    ok = all(val == "Success" for _, val in assigns_info(sc)) and any(all(g.dominates_block(g.where[n["id"]][0], b) for b in g.exit_blocks()) for n, _ in assigns_info(sc))
    rep.check(ok, "R9.1", "storeConvergedData", "sets Success on every path", "storeConvergedData does not set Success on every path", sc.loc())
    snc = F.one(D + "storeNotConvergedData")
    rep.analysed(sc); rep.analysed(snc)
    g2 = CFG(snc)
    vals = [val for _, val in assigns_info(snc)]
    ok = vals == ["NoConvergence"] and all(g2.dominates_block(g2.where[assigns_info(snc)[0][0]["id"]][0], b) for b in g2.exit_blocks())
    rep.check(ok, "R9.1", "storeNotConvergedData", "sets NoConvergence on every path", "storeNotConvergedData writes status %s" % vals, snc.loc(), sample=True)
    solve = [f for f in F.find(D + "solve") if f.j["template"] == "instantiation"]
    if len(solve) != 1:
        raise AnalysisBroken("instantiation of DavidsonSolver::solve not found")
    solve = solve[0]
    rep.analysed(solve)
    gs = CFG(solve)
    calls_c = [n for n in solve.walk() if n.get("k") == "mcall" and n.get("callee") == D + "storeConvergedData"]
    allsites = [(f, n) for f in F.funcs if f.j["template"] != "pattern" for n in f.walk() if n.get("k") == "mcall" and n.get("callee") == D + "storeConvergedData"]
    rep.check(len(allsites) == 1 and len(calls_c) == 1, "R9.1", "single-call-site", "storeConvergedData has one call site (in solve)",
              "storeConvergedData is called from %s" % [f.qname for f, _ in allsites], solve.loc())
    ok, why = False, "guard not recognised"
    if len(calls_c) == 1:
        guards = [a for a in solve.ancestors(calls_c[0]) if a.get("k") == "if"]
        if guards:
            c = unwrap(guards[0]["cond"])
            neg = False
            while c.get("k") == "unop" and c["op"] == "!":
                c = unwrap(c["sub"]); neg = not neg
            if c.get("k") == "ref" and c.get("decl") in solve.decls:
                d = solve.decls[c["decl"]]
                init = unwrap(d.get("init")) if d.get("init") is not None else {}
                writes = [x for x in solve.walk() if x.get("k") == "assign" and unwrap(x["lhs"]).get("decl") == c["decl"]]
                is_cc = init.get("k") == "mcall" and init.get("callee") == D + "checkConvergence"
                req = gs.edge_required(c["id"], True, calls_c[0]["id"])
                ok = is_cc and not writes and req is True and not neg
                why = "the call is guarded by %s%s whose definition is %s (reassigned %d times); required: the un-negated result of checkConvergence" % (
                    "!" if neg else "", show(c), show(init), len(writes))
            elif c.get("k") == "mcall" and c.get("callee") == D + "checkConvergence":
                ok = gs.edge_required(c["id"], True, calls_c[0]["id"]) is True and not neg
                why = "guard is %scheckConvergence(...)" % ("!" if neg else "")
            else:
                why = "the call is guarded by %s" % show(guards[0]["cond"])
    rep.check(ok, "R9.1", "success-guard", "storeConvergedData only when checkConvergence returned true",
              "DavidsonSolver::solve: %s - unconverged roots can be reported as Success" % why, solve.loc(calls_c[0] if calls_c else None), sample=True)
    # the unconverged branch: last iteration and not converged -> storeNotConvergedData with proj.root_converged
    calls_n = [n for n in solve.walk() if n.get("k") == "mcall" and n.get("callee") == D + "storeNotConvergedData"]
    ok = len(calls_n) >= 1 and all(nows(show(c_["args"][1])) == "proj.root_converged" for c_ in calls_n)
    rep.check(ok, "R9.1", "nonconverged-branch", "last iteration without convergence -> storeNotConvergedData(rep, proj.root_converged, neigen)",
              "solve does not hand the per-root convergence flags to storeNotConvergedData", solve.loc())

    # ---------------------------------------------------------------- R9.2 must-assign
    summaries = {D + "storeConvergedData": True, D + "storeNotConvergedData": True}

    def transfer(st, e, b):
        if not isinstance(e, int):
            return st
        n = solve.nodes.get(e)
        if n is None:
            return st
        if n.get("k") == "assign" and n["op"] == "=" and unwrap(n["lhs"]).get("fname") == "info_":
            return True
        if n.get("k") == "mcall" and summaries.get(n.get("callee")):
            return True
        return st
    IN, OUT = gs.forward(False, transfer, lambda a, b: a and b)
    bad = []
    for b in gs.exit_blocks(normal=True):
        if b in OUT and not OUT[b]:
            bad.append(gs.last_node(b).get("line") if gs.last_node(b) else "?")
    rep.floor("R9.2", len(gs.exit_blocks(normal=True)), 1, "normal exits of solve")
    rep.check(not bad, "R9.2", "status-assigned-every-run", "info_ assigned on every entry->exit path of solve",
              "DavidsonSolver::solve can return without having assigned info_ in this run (e.g. when the iteration loop does not execute): a stale "
              "Success from an earlier run on the same object is reported", solve.loc(), sample=True)

    # ---------------------------------------------------------------- R9.3
    cc = F.one(D + "checkConvergence")
    rep.analysed(cc)
    import sympy as sp
    from vsa.alg import F as Fn
    from vsa.cases import decide
    fcc = Fold(cc).run()
    rp_, pp_, ne_ = [p_["name"] for p_ in cc.j["params"][:3]]
    asg = [e for e in fcc.events if e["kind"] == "store" and e["target"].replace(" ", "") == pp_ + ".root_converged"]
    rets = [e for e in fcc.events if e["kind"] == "return"]
    resn = Fn("head")(Fn("res_norm")(S(rp_)), S(pp_ + ".size_update"))
    pred = asg[0]["value"] if len(asg) == 1 else None
    ok = isinstance(pred, tuple) and len(pred) == 3 and not asg[0]["guards"] and ((pred[0] == "<" and pred[1] == resn and str(pred[2]) == "tol_") or (pred[0] == ">" and pred[2] == resn and str(pred[1]) == "tol_"))
    rep.check(ok, "R9.3", "root-converged", "root_converged = res_norm().head(size_update) < tol_", "checkConvergence computes root_converged as %s (must compare the residual norms with tol_ using <)" % (
        fcc.cond_str(pred) if isinstance(pred, tuple) else pred), cc.loc(), sample=True)
    # the result: true exactly when all of the first neigen flags are set.  The flags enter through all()/count() of head(neigen) only:
    # representatives c = number of set flags among the first N = neigen
    ok, got = len(rets) == 1 and not rets[0]["guards"], None
    if ok:
        val = rets[0]["value"]
        got = fcc.cond_str(val) if isinstance(val, tuple) else str(val)

        def leaves(v):
            if isinstance(v, tuple):
                for x in v:
                    yield from leaves(x)
            elif isinstance(v, sp.Basic):
                yield from sp.preorder_traversal(v)
        mine = lambda a_: len(a_.args) == 1 and str(getattr(a_.args[0], "func", "")) == "head" and len(a_.args[0].args) == 2 and str(a_.args[0].args[1]) == ne_ and "size_update" in str(a_.args[0].args[0])
        cnt = {a_ for a_ in leaves(val) if str(getattr(a_, "func", "")) == "count" and mine(a_)}
        N = 5
        for c_ in (0, 1, N - 1, N):
            def orc(lf, c_=c_):
                if isinstance(lf, sp.Basic) and str(getattr(lf, "func", "")) == "all" and mine(lf):
                    return ("ALL", True)
                if isinstance(lf, sp.Basic) and str(getattr(lf, "func", "")) == "any" and mine(lf):
                    return ("ANY", True)
                return None
            sub = {a_: sp.Integer(c_) for a_ in cnt}
            sub[S(ne_)] = sp.Integer(N)
            t = decide(val, sub, {"ALL": c_ == N, "ANY": c_ > 0}, orc)
            if t is None or t != (c_ == N):
                ok = False
                got += " (with %d of the first %d roots converged it evaluates to %s)" % (c_, N, t)
                break
    rep.check(ok, "R9.3", "all-roots", "converged iff all requested roots are converged", "checkConvergence returns %s (required: true exactly when all of root_converged.head(neigen) are set)" % got, cc.loc(), sample=True)
    from vsa.cases import executes
    fz = Fold(snc, record_calls=r"::setZero$").run()
    zev = [e for e in fz.events if (e["kind"] == "store" and e["target"].replace(" ", "").startswith("eigenvalues_(") and e["value"] == 0)
           or (e["kind"] == "call" and "eigenvectors_" in str(e["obj"]) and "col(" in str(e["obj"]))]
    kinds = sorted({e["kind"] for e in zev})
    ok = kinds == ["call", "store"]
    if ok:
        def rc_oracle(leaf):
            s_ = str(leaf)
            if not isinstance(leaf, tuple) and "root_converged" in s_ and s_.startswith("at("):
                return ("RC", True)
            return None
        idxs = set()
        for e in zev:
            for rc in (True, False):
                x_ = executes(e, None, {"RC": rc}, rc_oracle, getattr(fz, "conds", {}))
                ok = ok and x_ is not None and x_ == (not rc)
            if e["kind"] == "store":
                idxs.add(str(e["idx"][0]) if e.get("idx") else "?")
            else:
                m_ = re.search(r"col\(eigenvectors_, ([^)]*)\)", str(e["obj"]))
                idxs.add(m_.group(1) if m_ else "?")
            # the flag tested is the one of the same root
            for c_, _pol, _n in e["guards"]:
                if "root_converged" in str(c_) and not (isinstance(c_, tuple) and c_ and c_[0] in ("loop", "each")):
                    m2 = re.search(r"at\(root_converged, ([^)]*)\)", str(c_))
                    idxs.add(m2.group(1) if m2 else "?")
        for gl in [g_ for e in zev for g_ in e.get("not", [])]:
            for c_, _pol, _n in gl:
                m2 = re.search(r"at\(root_converged, ([^)]*)\)", str(c_))
                if m2:
                    idxs.add(m2.group(1))
        ok = ok and len(idxs) == 1 and re.match(r"^\w+@L\d+$", list(idxs)[0]) is not None
        loops = [a_ for a_ in snc.ancestors(zev[0]["node"]) if a_.get("k") == "for"]
        np_ = snc.j["params"][-1]["decl"] if snc.j.get("params") else None
        okl = False
        if len(loops) == 1 and loops[0].get("cond") is not None and loops[0].get("init") is not None:
            c_ = unwrap(loops[0]["cond"])
            ini = loops[0]["init"]
            okl = c_.get("k") == "binop" and c_["op"] in ("<", "!=") and any(x.get("k") == "ref" and x.get("dk") == "param" and "neigen" in (x.get("name") or "") for x in walk(c_["rhs"])) \
                and ini.get("k") == "decl" and lit_value(ini["decls"][0].get("init")) == 0
        ok = ok and okl
    rep.check(ok, "R9.3", "zero-unconverged", "unconverged roots are zeroed, converged ones kept", "storeNotConvergedData does not zero exactly the roots with !root_converged[i]", snc.loc(), sample=True)
    tols = F.one(D + "set_tolerance")
    lits = {}
    for n in tols.walk():
        if n.get("k") == "if":
            ks = [x["v"] for x in walk(n["cond"]) if x.get("k") == "str"]
            vs = [lit_value(x["rhs"]) for x in walk(n["then"]) if x.get("k") == "assign" and unwrap(x["lhs"]).get("fname") == "tol_"]
            if ks and vs and vs[0] is not None:
                lits[ks[0]] = float(vs[0])
    order = [lits.get(k) for k in ("loose", "normal", "strict", "lapack")]
    rep.check(all(v is not None for v in order) and order == sorted(order, reverse=True) and all(0 < v < 1 for v in order), "R9.3", "tolerance-table",
              "loose > normal > strict > lapack > 0: %s" % lits, "tolerance literals are %s (must decrease from loose to lapack and be positive)" % lits, tols.loc())

    # ---------------------------------------------------------------- R9.4
    se = F.one(D + "storeEigenPairs")
    rep.analysed(se)
    st = {nows(show(n["args"][0])): nows(show(n["args"][1])) for n in se.walk() if n.get("k") == "opcall" and n.get("op") == "="}
    st = {k.replace("this->", ""): v for k, v in st.items()}
    ok = st.get("eigenvalues_") == "rep.lambda.head(neigen)" and st.get("eigenvectors_") == "rep.q.leftCols(neigen)"
    norm = [n for n in se.walk() if n.get("k") == "mcall" and (n.get("callee") or "").endswith("::normalize") and "colwise" in show(n)]
    rep.check(ok and len(norm) == 1, "R9.4", "store-pairs", "first neigen values/vectors stored, columns normalised", "storeEigenPairs stores %s" % st, se.loc(), sample=True)

    # ---------------------------------------------------------------- R9.5
    xmlp = front.repo("xtp/share/xtp/xml/subpackages/gwbse.xml")
    choices = {}
    try:
        root = ET.parse(xmlp).getroot()
        for el in root.iter():
            if el.tag in ("correction", "tolerance", "update") and el.get("choices"):
                choices[el.tag] = sorted(x for x in re.split(r"[ ,]+", el.get("choices")) if x)
    except Exception as e:
        rep.broken("R9.5", "cannot read gwbse.xml: %s" % e)
    for setter, tag in (("set_correction", "correction"), ("set_tolerance", "tolerance"), ("set_size_update", "update")):
        f = F.one(D + setter)
        rep.analysed(f)
        acc = sorted({x["v"] for n in f.walk() if n.get("k") == "if" for x in walk(n["cond"]) if x.get("k") == "str"})
        has_throw = any(x.get("k") == "throw" for x in f.walk())
        rep.check(acc == choices.get(tag) and has_throw, "R9.5", "choices|" + tag, "%s accepts %s = choices in gwbse.xml; anything else throws" % (setter, acc),
                  "%s accepts %s but gwbse.xml offers %s" % (setter, acc, choices.get(tag)), f.loc(), sample=True)
    for en in ("CORR", "UPDATE", "MATRIX_TYPE"):
        e = F.enums.get(D + en)
        if not e:
            rep.broken("R9.5", "enum %s not found" % en)
            continue
        names = {x[0] for x in e["enumerators"]}
        n_sw = 0
        for f in F.funcs:
            if not f.qname.startswith(D) or f.j["template"] == "pattern":
                continue
            for sw in f.walk():
                if sw.get("k") != "switch":
                    continue
                labels = {x["enumerator"].split("::")[-1] for x in walk(sw["body"]) if x.get("k") == "case" and x.get("enumerator") and "::%s::" % en in x["enumerator"]}
                if not labels:
                    continue
                n_sw += 1
                has_default = any(x.get("k") == "default" for x in walk(sw["body"]))
                rep.check(labels == names or has_default, "R9.5", "switch|%s|%s#%d" % (en, f.qname.split("::")[-1], n_sw), "every %s enumerator handled" % en,
                          "%s: switch over %s handles %s of %s" % (f.qname, en, sorted(labels), sorted(names)), f.loc(sw))
    check_extend(rep, F)
    check_av_invariant(rep, F)
    check_correction_filter(rep, F)
    check_fresh_diagonal(rep, F)
    check_restart_size(rep, F)
    rep.assumptions += ["that returned values are the lowest eigenvalues, orthonormality, residual bounds, convergence for diagonally dominant "
                        "matrices and the Hamiltonian mode are numerical properties: not decided (most of the property)"]


def check_extend(rep, F):
    import sympy as sp
    from vsa.alg import guard_strs, F as Fn
    from vsa.cases import decide, executes, resolve_ite
    f = F.one(D + "extendProjection")
    rep.analysed(f)
    fo = Fold(f, record_calls=r"computeCorrectionVector$|conservativeResize$").run()
    conds = getattr(fo, "conds", {})
    rp, pp = [p_["name"] for p_ in f.j["params"][:2]]
    calls = [e for e in fo.events if e["kind"] == "call" and e["callee"].endswith("computeCorrectionVector")]
    stores = [e for e in fo.events if e["kind"] == "store" and e.get("idx") and re.search(r"\.V\.col\(", e["target"])]
    grow = [e for e in fo.events if e["kind"] == "call" and e["callee"].endswith("conservativeResize")]
    ok, why = len(calls) == 1 and len(stores) == 1 and len(grow) == 1, "expected one correction call, one column store and one resize, found %d/%d/%d" % (len(calls), len(stores), len(grow))
    if ok:
        c, st = calls[0], stores[0]
        lids = [g[0][1] for g in c["guards"] if isinstance(g[0], tuple) and g[0] and g[0][0] == "loop"]
        lp = [l for l in getattr(fo, "loops", []) if lids and l["lid"] == lids[-1]]
        ok, why = len(lp) == 1, "the correction vectors are not built in a loop over the tracked roots"
    if ok:
        l = lp[0]
        # the induction variable: the loop symbol the correction arguments are indexed with
        js = [sy for sy in l["syms"].values() if c["args"][-3:] == [Fn("col")(S(rp + ".q"), sy), Fn("at")(S(rp + ".lambda"), sy), Fn("col")(S(rp + ".res"), sy)]]
        ok, why = len(js) == 1, "the correction vector is built from %s, not from the Ritz vector, Ritz value and residual of one and the same root" % [str(a)[:40] for a in c["args"][-3:]]
    if ok:
        j = js[0]
        key = [k_ for k_, sy in l["syms"].items() if sy == j][0]
        cond = l["cond"]
        full = l["init"].get(key) == 0 and sp.simplify(l["step"][key] - j - 1) == 0 and isinstance(cond, tuple) and len(cond) == 3 and \
            ((cond[0] == "<" and cond[1] == j and str(cond[2]) == pp + ".size_update") or (cond[0] == ">" and cond[2] == j and str(cond[1]) == pp + ".size_update"))
        ok, why = full, "the loop runs from %s while %s (step %s): not over every tracked root 0 .. size_update-1 (an unconverged root outside the range never gets a correction vector and stagnates)" % (
            l["init"].get(key), fo.cond_str(cond) if cond is not None else "?", l["step"].get(key))
    if ok:
        conv = Fn("at")(S(pp + ".root_converged"), j)

        def orc(lf):
            if lf == conv or str(lf) == str(conv):
                return ("CONV", True)
            if isinstance(lf, tuple) and len(lf) == 3 and lf[0] in ("==", "!=") and conv in lf[1:]:
                other = [x for x in lf[1:] if x != conv]
                if other and other[0] in (False, sp.false, 0):
                    return ("CONV", lf[0] == "!=")
                if other and other[0] in (True, sp.true, 1):
                    return ("CONV", lf[0] == "==")
            if isinstance(lf, tuple) and lf and lf[0] == "loop":
                return ("LOOP", True)
            return None
        ks = [(k_, sy) for k_, sy in l["syms"].items() if sy != j and sy in getattr(st["idx"][0], "free_symbols", set())]
        for cv in (True, False):
            A = {"CONV": cv, "LOOP": True}
            xc, xs = executes(c, None, A, orc, conds), executes(st, None, A, orc, conds)
            if xc is None or xs is None:
                ok, why = False, "cannot decide whether the correction of root j is built when root_converged[j] = %s" % cv
                break
            if xc != (not cv) or xs != (not cv):
                ok, why = False, "for root_converged[j] = %s the correction vector is %sbuilt and %sappended" % (cv, "" if xc else "not ", "" if xs else "not ")
                break
            if len(ks) != 1:
                ok, why = False, "the new column index %s does not advance with a counter" % st["idx"][0]
                break
            kk, ksym = ks[0]
            stp = l["step"][kk]
            stp = resolve_ite(stp, lambda cs: decide(conds[cs], None, A, orc, conds) if cs in conds else None) if hasattr(stp, "args") else stp
            if sp.simplify(stp - ksym - (0 if cv else 1)) != 0:
                ok, why = False, "for root_converged[j] = %s the column counter becomes %s" % (cv, stp)
                break
        if ok:
            first = sp.simplify(st["idx"][0] - ksym + l["init"].get(kk))
            gv = grow[0]["args"][-1]
            d = sp.simplify(gv - first) if not isinstance(gv, (tuple, sp.Matrix)) else None
            RCs = S(pp + ".root_converged")
            unconv = [Fn("count")(("==", RCs, False)) if False else None]
            # the number of unconverged roots: (rc == false).count(), (!rc).count() or size - rc.count()
            d_ok = d is not None and ((str(getattr(d, "func", "")) == "count" and "root_converged" in str(d) and ("False" in str(d) or "operator!(" in str(d) or "!(" in str(d)))
                                      or sp.simplify(d - (Fn("size")(RCs) - Fn("count")(RCs))) == 0)
            ok = not first.has(ksym) and str(first) == "cols(%s.V)" % pp and d_ok
            base = first
            why = "the search space is resized to %s while columns are written from %s on" % (gv, base)
    rep.check(ok, "R9.6", "corrections", "one correction per unconverged tracked root, every tracked root visited", "DavidsonSolver::extendProjection: " + why, f.loc(), sample=True)


def check_av_invariant(rep, F):
    import sympy as sp
    from vsa.alg import guard_strs, F as Fn
    from vsa.cases import executes
    OPQ = r"Eigen::Matrix<|RitzEigenPair|ProjectedSpace"
    # Ritz vectors and residues
    n_r = 0
    for fn in ("getRitz", "getHarmonicRitz"):
        for f in F.find(D + fn):
            if f.j["template"] == "pattern":
                continue
            rep.analysed(f)
            fo = Fold(f, opaque_types=OPQ).run()
            pn = [p_["name"] for p_ in f.j["params"] if "ProjectedSpace" in (p_.get("type") or "")]
            q = [e for e in fo.events if e["kind"] == "store" and e["target"].endswith(".q")]
            r = [e for e in fo.events if e["kind"] == "store" and e["target"].endswith(".res")]
            ok = len(pn) == 1 and len(q) == 1 and len(r) == 1
            if ok:
                P = pn[0]
                rp_ = q[0]["target"][:-2]
                ok = sp.simplify(q[0]["value"] - S(P + ".V") * S(rp_ + ".U")) == 0 and \
                    sp.simplify(r[0]["value"] - (S(P + ".AV") * S(rp_ + ".U") - S(rp_ + ".q") * Fn("asDiagonal")(S(rp_ + ".lambda")))) == 0
            n_r += 1
            rep.check(ok, "R9.7", "ritz|" + fn, "q = V U, res = AV U - q diag(lambda)", "DavidsonSolver::%s computes q = %s and res = %s" % (
                fn, [str(e["value"])[:80] for e in q], [str(e["value"])[:120] for e in r]), f.loc(), sample=(fn == "getRitz"))
    rep.floor("R9.7", n_r, 2, "Ritz routines")
    # the product itself: AV = A V at the first iteration, afterwards only the new columns are appended as A times the new search vectors
    ups = [f_ for f_ in F.funcs if f_.qname == D + "updateProjection"]
    if not ups:
        rep.broken("R9.7", "DavidsonSolver::updateProjection not found")
    else:
        up = ups[0]
        rep.analysed(up)
        fu = Fold(up, opaque_types=OPQ).run()
        cu = getattr(fu, "conds", {})
        An, Pn = [p_["name"] for p_ in up.j["params"][:2]]
        Am, AVu, Vu = S(An), S(Pn + ".AV"), S(Pn + ".V")

        def o0(lf):
            if isinstance(lf, tuple) and len(lf) == 3 and lf[0] in ("==", "!=") and "i_iter_" in (str(lf[1]), str(lf[2])) and 0 in lf[1:]:
                return ("FIRST", lf[0] == "==")
            return None
        avs = [e for e in fu.events if e["kind"] == "store" and (e["target"] == Pn + ".AV" or e["target"].startswith(Pn + ".AV."))]
        for first in (True, False):
            live = [e for e in avs if executes(e, None, {"FIRST": first}, o0, cu)]
            ok = len(live) == 1
            if ok and first:
                ok = live[0]["target"] == Pn + ".AV" and sp.simplify(live[0]["value"] - Am * Vu) == 0
            elif ok:
                nv = Fn("cols")(Vu) - Fn("cols")(AVu)
                ok = live[0]["target"].startswith(Pn + ".AV.rightCols(") and live[0].get("idx") and sp.simplify(live[0]["idx"][0] - nv) == 0 and \
                    sp.simplify(live[0]["value"] - Am * Fn("rightCols")(Vu, nv)) == 0
            rep.check(ok, "R9.7", "product|%s" % ("first" if first else "extend"), "AV = A V (first iteration) / the new columns of AV are A times the new columns of V",
                      "DavidsonSolver::updateProjection (%s): AV is updated by %s" % ("first iteration" if first else "later iterations", [(e["target"], str(e["value"])[:100]) for e in live]), up.loc())
    # restart
    f = F.one(D + "restart")
    rep.analysed(f)
    fo = Fold(f, opaque_types=OPQ).run()
    conds = getattr(fo, "conds", {})
    rp_, pp_ = [p_["name"] for p_ in f.j["params"][:2]]
    AV, V, U, Q = S(pp_ + ".AV"), S(pp_ + ".V"), S(rp_ + ".U"), S(rp_ + ".q")

    def orc(lf):
        if isinstance(lf, tuple) and len(lf) == 3 and lf[0] in ("==", "!=") and "matrix_type_" in (str(lf[1]), str(lf[2])):
            other = str(lf[2]) if str(lf[1]) == "matrix_type_" else str(lf[1])
            return ("SYMM", (lf[0] == "==") == other.endswith("SYMM"))
        return None
    stores = [e for e in fo.events if e["kind"] == "store"]
    for symm in (True, False):
        A = {"SYMM": symm}
        live = [e for e in stores if executes(e, None, A, orc, conds)]
        und = [e for e in stores if executes(e, None, A, orc, conds) is None]
        av = [e for e in live if e["target"] == pp_ + ".AV"]
        keep = [e for e in live if re.search(r"\.leftCols\(", e["target"]) and not e["target"].startswith(pp_ + ".")]
        ok, why = not und and len(av) == 1 and len(keep) == 1, "expected one update of AV and one assignment of the retained search vectors, found %d / %d" % (len(av), len(keep))
        if ok:
            M = sp.simplify(av[0]["value"] / AV)
            ok, why = not M.has(AV) and M != 1, "AV becomes %s, which is not the old AV times a transformation matrix" % str(av[0]["value"])[:160]
        if ok:
            vv = keep[0]["value"]
            # V' = (leading block of) V times M, or the Ritz vectors q.leftCols(r) when M = U.leftCols(r)
            by_v = any(sp.simplify(vv - b_ * M) == 0 for b_ in [V] + [a_ for a_ in sp.preorder_traversal(vv) if str(getattr(a_, "func", "")) == "leftCols" and a_.args and a_.args[0] == V])
            by_q = str(getattr(vv, "func", "")) == "leftCols" and vv.args[0] == Q and str(getattr(M, "func", "")) == "leftCols" and M.args[0] == U and M.args[1:] == vv.args[1:]
            ok = by_v or by_q
            why = "the retained search vectors become %s while AV is multiplied by %s: AV is no longer A*V after the restart, so later residues (and the convergence test) are computed from a wrong product" % (
                str(vv)[:120], str(M)[:120])
        rep.check(ok, "R9.7", "restart|%s" % ("SYMM" if symm else "HAM"), "restart transforms AV and the retained vectors by the same matrix", "DavidsonSolver::restart (%s): %s" % ("SYMM" if symm else "HAM", why),
                  f.loc(av[0]["node"]) if av else f.loc(), sample=True)


def check_correction_filter(rep, F):
    import sympy as sp
    from vsa.cases import decide, resolve_ite, executes
    f = F.one(D + "computeCorrectionVector")
    rep.analysed(f)
    fo = Fold(f, opaque_types=r"Eigen::Matrix<", inline=False).run()
    rets = [e for e in fo.events if e["kind"] == "return"]
    SC = (("a finite value", {"FINITE": True, "NAN": False, "INF": False}, True), ("NaN", {"FINITE": False, "NAN": True, "INF": False}, False),
          ("an infinity", {"FINITE": False, "NAN": False, "INF": True}, False))

    def cls_orc(x):
        def orc(lf):
            fn = str(getattr(lf, "func", ""))
            if fn in ("isfinite", "isnan", "isinf") and lf.args and lf.args[0] == x:
                return ({"isfinite": "FINITE", "isnan": "NAN", "isinf": "INF"}[fn], True)
            return None
        return orc

    def lambda_filter(fold, lam):
        v = S("_v")
        r = fold.eval_lambda(lam, [v])
        conds = getattr(fold, "conds", {})
        for kind, A, keep in SC:
            got = resolve_ite(r, lambda cs: decide(conds[cs], None, A, cls_orc(v), conds) if cs in conds else None) if hasattr(r, "args") else r
            if got != (v if keep else sp.Integer(0)):
                return "the filter turns %s into %s (required %s)%s" % (kind, got, "the value itself" if keep else 0, ": an infinite entry survives, becomes NaN when the vector is normalised and poisons "
                                                                          "the search space" if kind == "an infinity" else "")
        return None

    def helper_filter(h):
        """a helper taking the vector: a loop over all entries that overwrites entry i with 0 exactly when it is not finite, and returns the vector"""
        rep.analysed(h)
        fh = Fold(h, opaque_types=r"Eigen::Matrix<").run()
        ch = getattr(fh, "conds", {})
        pn = h.j["params"][0]["name"]
        sts = [e for e in fh.events if e["kind"] == "store" and e.get("idx") and e["target"].startswith(pn + "(")]
        rt = [e for e in fh.events if e["kind"] == "return"]
        if len(sts) != 1 or len(rt) != 1 or str(rt[0]["value"]) != pn or sts[0]["value"] != 0:
            return "helper %s is not 'set the non-finite entries to zero and return the vector'" % h.qname
        e = sts[0]
        lids = [g[0][1] for g in e["guards"] if isinstance(g[0], tuple) and g[0] and g[0][0] == "loop"]
        lp = [l for l in fh.loops if lids and l["lid"] == lids[-1]]
        if len(lp) != 1:
            return "helper %s does not visit the entries in a loop" % h.qname
        l = lp[0]
        i = e["idx"][0]
        k_ = [k for k, sy in l["syms"].items() if sy == i]
        full = len(k_) == 1 and l["init"].get(k_[0]) == 0 and sp.simplify(l["step"][k_[0]] - i - 1) == 0 and isinstance(l["cond"], tuple) and l["cond"][0] == "<" and l["cond"][1] == i \
            and str(l["cond"][2]) == "size(%s)" % pn
        if not full:
            return "helper %s does not visit every entry 0 .. size-1" % h.qname
        x = Fn("at")(S(pn), i)
        ix = max(j_ for j_, g in enumerate(e["guards"]) if isinstance(g[0], tuple) and g[0] and g[0][0] == "loop")
        inner = {"guards": e["guards"][ix + 1:], "not": [nl[ix + 1:] for nl in e.get("not", []) if len(nl) > ix + 1]}
        for kind, A, keep in SC:
            def orc(lf):
                fn = str(getattr(lf, "func", ""))
                if fn in ("isfinite", "isnan", "isinf") and lf.args and (lf.args[0] == x or str(lf.args[0]) in ("%s(%s)" % (pn, i), "at(%s, %s)" % (pn, i))):
                    return ({"isfinite": "FINITE", "isnan": "NAN", "isinf": "INF"}[fn], True)
                return None
            z = executes(inner, None, A, orc, ch)
            if z is None:
                return "helper %s: cannot decide whether %s is overwritten" % (h.qname, kind)
            if z == keep:
                return "helper %s %s %s%s" % (h.qname, "overwrites" if keep else "keeps", kind, " (an infinite entry survives and becomes NaN at normalisation)" if kind == "an infinity" else "")
        return None
    ok, why, n_f = bool(rets), "no return found", 0
    for e in rets:
        v = e["value"]
        fn = str(getattr(v, "func", ""))
        if fn == "unaryExpr" and len(v.args) == 2 and str(v.args[1]) in getattr(fo, "lambdas", {}):
            bad = lambda_filter(fo, fo.lambdas[str(v.args[1])])
            n_f += 1
        elif fn and len(getattr(v, "args", ())) == 1 and [h for h in F.funcs if h.qname.split("::")[-1] == fn and h.j.get("internal") and h.j.get("body") and len(h.j["params"]) == 1]:
            bad = helper_filter([h for h in F.funcs if h.qname.split("::")[-1] == fn and h.j.get("internal") and h.j.get("body") and len(h.j["params"]) == 1][0])
            n_f += 1
        elif re.match(r"^Eigen::Matrix<[^()]*\(\)@\d+$", str(v)):
            bad = None                         # a default-constructed (empty) vector has no entries
        else:
            bad = "the correction %s is returned without passing the non-finite filter" % str(v)[:80]
        if bad:
            ok, why = False, bad
            break
    if ok and n_f == 0:
        ok, why = False, "no filtered return found"
    rep.check(ok, "R9.8", "finite-correction", "non-finite entries of the correction vector become 0", "DavidsonSolver::computeCorrectionVector: " + why, f.loc(), sample=True)


def check_restart_size(rep, F):
    """R9.10: restart() keeps the Ritz vectors and the columns appended in this iteration; it must be told how many columns extendProjection really
    appended (its return value: the number of unconverged roots), not a configured upper bound"""
    rep.rule("R9.10", "solve(): the size handed to restart() is the value extendProjection returned in the same iteration (the number of correction vectors it appended); "
                      "a larger number makes restart copy stale basis columns next to the Ritz vectors, and the basis is no longer orthonormal")
    fs = [f for f in F.funcs if f.qname == D + "solve"]
    if not fs:
        rep.broken("R9.10", "DavidsonSolver::solve not found")
        return
    f = fs[0]
    fo = Fold(f, opaque_types=r"Eigen::Matrix<|RitzEigenPair|ProjectedSpace", inline=False, record_calls=r"DavidsonSolver::(restart|extendProjection)$").run()
    ext = [e for e in fo.events if e["kind"] == "call" and e["callee"].endswith("::extendProjection")]
    rst = [e for e in fo.events if e["kind"] == "call" and e["callee"].endswith("::restart")]
    ok, why = len(ext) == 1 and len(rst) == 1, "expected one extendProjection and one restart call in the iteration (found %d, %d)" % (len(ext), len(rst))
    if ok:
        ok = fo.events.index(ext[0]) < fo.events.index(rst[0]) and len(rst[0]["args"]) >= 3 and str(rst[0]["args"][-1]) == str(ext[0]["value"])
        why = "restart is called with %s; extendProjection returned %s" % (str(rst[0]["args"][-1])[:80] if rst[0]["args"] else "?", str(ext[0]["value"])[:80])
    rep.check(ok, "R9.10", "restart-size", "restart(rep, proj, <what extendProjection returned>)", "DavidsonSolver::solve: " + why, f.loc(rst[0]["node"]) if rst else f.loc(), sample=True)


def check_fresh_diagonal(rep, F):
    fs = [f for f in F.funcs if f.qname == D + "solve"]
    if not fs:
        rep.broken("R9.9", "DavidsonSolver::solve not found")
        return
    f = fs[0]
    rep.analysed(f)
    fo = Fold(f, opaque_types=r"Eigen::Matrix<|RitzEigenPair|ProjectedSpace", inline=False, record_calls=r"DavidsonSolver::\w+$").run()
    an = f.j["params"][0]["name"]
    st = [e for e in fo.events if e["kind"] == "store" and e["target"].replace("this->", "") == "Adiag_"]
    ok, why = len(st) == 1, "expected one assignment of Adiag_ in solve, found %d" % len(st)
    if ok:
        e = st[0]
        rhs = show(unwrap(e["node"]).get("rhs") or (unwrap(e["node"]).get("args") or [None, None])[1] or {})
        ok = not e["guards"] and not e.get("not") and re.sub(r"\s", "", rhs) == "%s.diagonal()" % an
        why = "Adiag_ is assigned %s under %s: a solver object that is used again keeps the diagonal of the operator of its previous run" % (rhs, guard_strs(fo, e["guards"]) or "an earlier exit")
    if ok:
        # helper functions that read Adiag_, directly or through the helpers they call
        readers = {g.qname for g in F.funcs if g.qname.startswith(D) and any(n.get("k") == "member" and n.get("fname") == "Adiag_" for n in g.walk())}
        grew = True
        while grew:
            grew = False
            for g in F.funcs:
                if g.qname.startswith(D) and g.qname not in readers and any(n.get("k") in ("call", "mcall") and n.get("callee") in readers for n in g.walk()):
                    readers.add(g.qname)
                    grew = True
        readers.discard(D + "solve")
        first_use = [i for i, x in enumerate(fo.events) if x["kind"] == "call" and x["callee"] in readers]
        ok = not first_use or fo.events.index(e) < min(first_use)
        why = "Adiag_ is assigned after a helper that reads it already ran"
    rep.check(ok, "R9.9", "fresh-diagonal", "Adiag_ = A.diagonal() unconditionally at the start of every run", "DavidsonSolver::solve: " + why, f.loc(st[0]["node"]) if st else f.loc(), sample=True)
